//! SplitMix64: every random choice of a run derives from one state seeded by VERIF_SEED.
#[derive(Clone, Debug)]
pub struct Rng(pub u64);

impl Rng {
    pub fn new(seed: u64) -> Self {
        // The state must not be an affine function of the seed: SplitMix64 advances its state by a constant,
        // so `state = seed·γ + c` would make seed n+1 the stream of seed n shifted by one draw. Two rounds of
        // the output function scatter neighbouring seeds.
        let mut r = Rng(seed ^ 0x1234_5678_9ABC_DEF1);
        let a = r.next_u64();
        let b = r.next_u64();
        Rng(a ^ b.rotate_left(29) ^ seed.wrapping_mul(0xD6E8FEB86659FD93))
    }
    pub fn next_u64(&mut self) -> u64 {
        self.0 = self.0.wrapping_add(0x9E3779B97F4A7C15);
        let mut z = self.0;
        z = (z ^ (z >> 30)).wrapping_mul(0xBF58476D1CE4E5B9);
        z = (z ^ (z >> 27)).wrapping_mul(0x94D049BB133111EB);
        z ^ (z >> 31)
    }
    /// uniform in 0..n (n > 0)
    pub fn below(&mut self, n: usize) -> usize {
        (self.next_u64() % (n as u64)) as usize
    }
    pub fn range(&mut self, lo: i64, hi: i64) -> i64 {
        lo + (self.next_u64() % ((hi - lo + 1) as u64)) as i64
    }
    pub fn chance(&mut self, num: u32, den: u32) -> bool {
        (self.next_u64() % den as u64) < num as u64
    }
    pub fn coin(&mut self) -> bool {
        self.next_u64() & 1 == 1
    }
    pub fn pick<'a, T>(&mut self, xs: &'a [T]) -> &'a T {
        &xs[self.below(xs.len())]
    }
    pub fn shuffle<T>(&mut self, xs: &mut [T]) {
        for i in (1..xs.len()).rev() {
            let j = self.below(i + 1);
            xs.swap(i, j);
        }
    }
    /// a derived independent stream
    pub fn fork(&mut self) -> Rng {
        Rng(self.next_u64())
    }
}
