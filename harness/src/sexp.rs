//! S-expressions: `atom | "string" | ( sexp* )`, one per physical line (see lean/NitroVerif/Base/Sexp.lean).
use std::fmt::Write;

#[derive(Clone, Debug, PartialEq, Eq, Hash, PartialOrd, Ord)]
pub enum Sexp {
    Atom(String),
    Str(String),
    List(Vec<Sexp>),
}

impl Sexp {
    pub fn atom(s: impl Into<String>) -> Sexp {
        Sexp::Atom(s.into())
    }
    pub fn str(s: impl Into<String>) -> Sexp {
        Sexp::Str(s.into())
    }
    pub fn int(n: i128) -> Sexp {
        Sexp::Atom(n.to_string())
    }
    pub fn bool(b: bool) -> Sexp {
        Sexp::Atom(if b { "true" } else { "false" }.into())
    }
    pub fn list(xs: Vec<Sexp>) -> Sexp {
        Sexp::List(xs)
    }
    /// `(head x1 x2 …)`
    pub fn call(head: &str, mut xs: Vec<Sexp>) -> Sexp {
        let mut v = vec![Sexp::atom(head)];
        v.append(&mut xs);
        Sexp::List(v)
    }
    pub fn as_list(&self) -> Option<&[Sexp]> {
        match self {
            Sexp::List(v) => Some(v),
            _ => None,
        }
    }
    pub fn as_atom(&self) -> Option<&str> {
        match self {
            Sexp::Atom(s) => Some(s),
            _ => None,
        }
    }
    pub fn as_str(&self) -> Option<&str> {
        match self {
            Sexp::Str(s) => Some(s),
            _ => None,
        }
    }
    pub fn as_int(&self) -> Option<i128> {
        self.as_atom().and_then(|s| s.parse().ok())
    }
    /// head atom of a list
    pub fn head(&self) -> Option<&str> {
        self.as_list().and_then(|v| v.first()).and_then(|h| h.as_atom())
    }
    pub fn args(&self) -> &[Sexp] {
        match self {
            Sexp::List(v) if !v.is_empty() => &v[1..],
            _ => &[],
        }
    }
    pub fn write(&self, out: &mut String) {
        match self {
            Sexp::Atom(s) => out.push_str(s),
            Sexp::Str(s) => {
                out.push('"');
                for c in s.chars() {
                    match c {
                        '\\' => out.push_str("\\\\"),
                        '"' => out.push_str("\\\""),
                        '\n' => out.push_str("\\n"),
                        '\r' => out.push_str("\\r"),
                        '\t' => out.push_str("\\t"),
                        c if (c as u32) < 32 || (c as u32) > 126 => {
                            write!(out, "\\u{{{:x}}}", c as u32).unwrap()
                        }
                        c => out.push(c),
                    }
                }
                out.push('"');
            }
            Sexp::List(v) => {
                out.push('(');
                for (i, x) in v.iter().enumerate() {
                    if i > 0 {
                        out.push(' ');
                    }
                    x.write(out);
                }
                out.push(')');
            }
        }
    }
    pub fn to_line(&self) -> String {
        let mut s = String::new();
        self.write(&mut s);
        s
    }
    pub fn parse(s: &str) -> Option<Sexp> {
        let cs: Vec<char> = s.chars().collect();
        let mut i = 0;
        let r = parse_one(&cs, &mut i)?;
        while i < cs.len() {
            if !cs[i].is_whitespace() {
                return None;
            }
            i += 1;
        }
        Some(r)
    }
}

impl std::fmt::Display for Sexp {
    fn fmt(&self, f: &mut std::fmt::Formatter<'_>) -> std::fmt::Result {
        f.write_str(&self.to_line())
    }
}

fn parse_one(cs: &[char], i: &mut usize) -> Option<Sexp> {
    while *i < cs.len() && cs[*i].is_whitespace() {
        *i += 1;
    }
    if *i >= cs.len() {
        return None;
    }
    match cs[*i] {
        '(' => {
            *i += 1;
            let mut v = vec![];
            loop {
                while *i < cs.len() && cs[*i].is_whitespace() {
                    *i += 1;
                }
                if *i >= cs.len() {
                    return None;
                }
                if cs[*i] == ')' {
                    *i += 1;
                    return Some(Sexp::List(v));
                }
                v.push(parse_one(cs, i)?);
            }
        }
        ')' => None,
        '"' => {
            *i += 1;
            let mut s = String::new();
            loop {
                if *i >= cs.len() {
                    return None;
                }
                let c = cs[*i];
                *i += 1;
                match c {
                    '"' => return Some(Sexp::Str(s)),
                    '\\' => {
                        let e = *cs.get(*i)?;
                        *i += 1;
                        match e {
                            'n' => s.push('\n'),
                            'r' => s.push('\r'),
                            't' => s.push('\t'),
                            '\\' => s.push('\\'),
                            '"' => s.push('"'),
                            'u' => {
                                if *cs.get(*i)? != '{' {
                                    return None;
                                }
                                *i += 1;
                                let mut n: u32 = 0;
                                loop {
                                    let h = *cs.get(*i)?;
                                    *i += 1;
                                    if h == '}' {
                                        break;
                                    }
                                    n = n.checked_mul(16)?.checked_add(h.to_digit(16)?)?;
                                }
                                s.push(char::from_u32(n)?);
                            }
                            _ => return None,
                        }
                    }
                    c => s.push(c),
                }
            }
        }
        _ => {
            let st = *i;
            while *i < cs.len() && !cs[*i].is_whitespace() && cs[*i] != '(' && cs[*i] != ')' && cs[*i] != '"' {
                *i += 1;
            }
            Some(Sexp::Atom(cs[st..*i].iter().collect()))
        }
    }
}
