//! Running the REAL built `nitrogql-cli` binary on generated projects in a scratch directory.
use std::collections::BTreeMap;
use std::path::{Path, PathBuf};
use std::process::{Command, Stdio};
use std::time::{Duration, Instant};

#[derive(Clone, Debug, Default)]
pub struct Project {
    /// (path relative to the project directory, text)
    pub files: Vec<(String, String)>,
}

impl Project {
    pub fn add(&mut self, path: &str, text: &str) {
        self.files.push((path.to_string(), text.to_string()));
    }
    pub fn write(&self, dir: &Path) {
        for (p, t) in &self.files {
            let full = dir.join(p);
            if let Some(parent) = full.parent() {
                std::fs::create_dir_all(parent).expect("mkdir");
            }
            std::fs::write(&full, t).expect("write project file");
        }
    }
}

#[derive(Clone, Debug)]
pub struct CliRun {
    /// process exit code; None = killed by a signal or timed out
    pub code: Option<i32>,
    pub timed_out: bool,
    pub stdout: String,
    pub stderr: String,
    pub wall_ms: u128,
}

/// run `<cli> <args…>` with `dir` as the working directory
pub fn run_cli(cli: &str, dir: &Path, args: &[&str], envs: &[(&str, &str)], timeout: Duration) -> CliRun {
    let mut cmd = Command::new(cli);
    cmd.current_dir(dir).args(args).stdin(Stdio::null()).stdout(Stdio::piped()).stderr(Stdio::piped());
    cmd.env("NO_COLOR", "1");
    for (k, v) in envs {
        cmd.env(k, v);
    }
    let t0 = Instant::now();
    let mut child = cmd.spawn().unwrap_or_else(|e| panic!("cannot run {cli}: {e}"));
    let mut out = child.stdout.take().unwrap();
    let mut err = child.stderr.take().unwrap();
    let ho = std::thread::spawn(move || {
        let mut s = Vec::new();
        std::io::Read::read_to_end(&mut out, &mut s).ok();
        String::from_utf8_lossy(&s).to_string()
    });
    let he = std::thread::spawn(move || {
        let mut s = Vec::new();
        std::io::Read::read_to_end(&mut err, &mut s).ok();
        String::from_utf8_lossy(&s).to_string()
    });
    let mut timed_out = false;
    let code = loop {
        match child.try_wait().expect("wait") {
            Some(st) => break st.code(),
            None => {
                if t0.elapsed() > timeout {
                    let _ = child.kill();
                    let _ = child.wait();
                    timed_out = true;
                    break None;
                }
                std::thread::sleep(Duration::from_millis(2));
            }
        }
    };
    CliRun { code, timed_out, stdout: ho.join().unwrap_or_default(), stderr: he.join().unwrap_or_default(), wall_ms: t0.elapsed().as_millis() }
}

/// all regular files under `dir` (relative path → bytes)
pub fn snapshot(dir: &Path) -> BTreeMap<String, Vec<u8>> {
    fn walk(base: &Path, d: &Path, out: &mut BTreeMap<String, Vec<u8>>) {
        if let Ok(rd) = std::fs::read_dir(d) {
            for e in rd.flatten() {
                let p = e.path();
                if p.is_dir() {
                    walk(base, &p, out);
                } else if let Ok(bytes) = std::fs::read(&p) {
                    out.insert(p.strip_prefix(base).unwrap().to_string_lossy().to_string(), bytes);
                }
            }
        }
    }
    let mut out = BTreeMap::new();
    walk(dir, dir, &mut out);
    out
}

/// fresh empty directory `<scratch>/<name>`
pub fn fresh_dir(scratch: &str, name: &str) -> PathBuf {
    let d = Path::new(scratch).join(name);
    let _ = std::fs::remove_dir_all(&d);
    std::fs::create_dir_all(&d).expect("mkdir scratch");
    d
}

/// lexical normalisation of a path (independent of the code under test): resolves `.` and `..`
pub fn lexical_normalize(p: &Path) -> PathBuf {
    let mut out: Vec<String> = vec![];
    let abs = p.is_absolute();
    for c in p.components() {
        match c {
            std::path::Component::CurDir | std::path::Component::RootDir | std::path::Component::Prefix(_) => {}
            std::path::Component::ParentDir => {
                if out.last().map_or(false, |l| l != "..") {
                    out.pop();
                } else if !abs {
                    out.push("..".into());
                }
            }
            std::path::Component::Normal(s) => out.push(s.to_string_lossy().to_string()),
        }
    }
    let joined = out.join("/");
    PathBuf::from(if abs { format!("/{joined}") } else { joined })
}
