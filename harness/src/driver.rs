//! Pipe to a compiled Lean model driver (`lean_exe`): send request lines, read answer lines.
use crate::sexp::Sexp;
use std::io::{BufRead, BufReader, Write};
use std::process::{Child, ChildStdin, ChildStdout, Command, Stdio};

pub struct Driver {
    child: Child,
    stdin: Option<ChildStdin>,
    stdout: BufReader<ChildStdout>,
    pub requests: u64,
}

impl Driver {
    pub fn spawn(path: &str) -> Driver {
        let mut child = Command::new(path)
            .stdin(Stdio::piped())
            .stdout(Stdio::piped())
            .spawn()
            .unwrap_or_else(|e| panic!("cannot spawn model driver {path}: {e}"));
        let stdin = child.stdin.take();
        let stdout = BufReader::new(child.stdout.take().unwrap());
        Driver { child, stdin, stdout, requests: 0 }
    }

    /// Send a batch of requests and read exactly as many answers. Writing happens on a helper
    /// thread so that large batches cannot dead-lock on pipe buffers.
    pub fn batch(&mut self, reqs: &[Sexp]) -> Vec<Sexp> {
        let mut text = String::new();
        for r in reqs {
            r.write(&mut text);
            text.push('\n');
        }
        text.push_str("(flush)\n");
        let mut stdin = self.stdin.take().expect("driver stdin");
        let writer = std::thread::spawn(move || {
            stdin.write_all(text.as_bytes()).expect("write to driver");
            stdin.flush().expect("flush driver");
            stdin
        });
        let mut out = Vec::with_capacity(reqs.len());
        let mut line = String::new();
        for i in 0..reqs.len() + 1 {
            line.clear();
            let n = self.stdout.read_line(&mut line).expect("read from driver");
            if n == 0 {
                panic!("model driver closed its output after {} of {} answers (request: {})", i, reqs.len(),
                    reqs.get(i).map(|r| r.to_line()).unwrap_or_default());
            }
            if i < reqs.len() {
                out.push(Sexp::parse(line.trim_end()).unwrap_or_else(|| Sexp::atom("unparsable-answer")));
            }
        }
        self.stdin = Some(writer.join().expect("writer thread"));
        self.requests += reqs.len() as u64;
        out
    }

    pub fn one(&mut self, req: &Sexp) -> Sexp {
        self.batch(std::slice::from_ref(req)).pop().unwrap()
    }
}

impl Drop for Driver {
    fn drop(&mut self) {
        drop(self.stdin.take());
        let _ = self.child.wait();
    }
}
