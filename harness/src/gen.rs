//! Type-directed generators: schemas that are valid by construction and operation documents that are
//! valid by construction over a schema. Every random choice comes from the caller's `Rng`.
//!
//! Validity strategy (documented because the reference validators re-confirm it on every case):
//!  * a *field signature pool* fixes, per field name, its arguments and type — wherever the name is used in
//!    the schema it has that signature, so interface implementations are valid and any two selections of the
//!    same response key have the same shape (FieldsInSetCanMerge holds as long as arguments are equal);
//!  * fields selected with arguments always get a document-unique alias;
//!  * fragments are generated on demand for a parent type and only spread where they can apply;
//!  * variables live in a per-operation pool; an operation declares exactly the variables it uses
//!    (transitively through the fragments it spreads, which use only variables the operation declares
//!    compatibly because pool variables are keyed by (name ↦ type) document-wide).
use crate::gm::*;
use crate::prng::Rng;
use std::collections::{BTreeMap, BTreeSet};

/// cap on distinct Boolean (@skip/@include) variables per operation, see `DocGen::bool_var`
pub const MAX_BOOL_VARS: usize = 4;

pub const BUILTIN_SCALARS: [&str; 5] = ["Int", "Float", "String", "Boolean", "ID"];

#[derive(Clone, Debug)]
pub struct GenCfg {
    pub descriptions: bool,
    pub hostile_text: bool,
    pub directives: bool,
    pub explicit_schema: bool,
    pub max_depth: usize,
    pub variables: bool,
    pub skip_include: bool,
    pub fragments: bool,
    pub defaults: bool,
    /// allow literals that rely on spec input coercions (Int → Float/ID, item → list)
    pub coercions: bool,
    /// objects may narrow interface field types covariantly (interface/union → one of its object types)
    pub covariant_fields: bool,
    /// custom scalars may carry `@nitrogql_ts_type(resolverInput:…, …)` (the directive the graphql-scalars plugin
    /// emits; its definition is the nitrogql built-in that `nvh::real` adds like the CLI does)
    pub ts_type_directive: bool,
    /// descriptions may be `delimiter_text`s: REPEATED comment-/string-delimiter-like tokens on one line and across
    /// lines (`*/` ×2–4, `/*`, `*/*/`, `/**/`, `*\/`, backslashes before `*/`, at line start / end). Default off: no
    /// random choice is drawn for it, so the streams of the properties that do not set it are unchanged.
    pub delimiter_text: bool,
    /// interface HIERARCHIES (default off: the draws of `gen_schema` are unchanged): 3–6 interfaces forming a DAG — every
    /// interface implements 0–2 earlier ones (chains of depth 1–3 and more, diamonds, several unrelated hierarchies,
    /// stand-alone interfaces), its `implements` list being the transitive closure in RANDOM order; every non-root object
    /// implements 0–3 interfaces picked from anywhere in the DAG (so: several unrelated hierarchies at once) and lists the
    /// transitive closure in RANDOM order — a sub-interface before or after its parents, unrelated interfaces before,
    /// in between and after; interfaces without any implementing object occur. All valid per spec (every transitively
    /// implemented interface is listed, fields of all of them are present with the pool's signatures).
    pub iface_hierarchies: bool,
}

impl Default for GenCfg {
    fn default() -> Self {
        GenCfg {
            descriptions: true,
            hostile_text: false,
            directives: true,
            explicit_schema: true,
            max_depth: 3,
            variables: true,
            skip_include: true,
            fragments: true,
            defaults: true,
            coercions: false,
            covariant_fields: true,
            ts_type_directive: false,
            delimiter_text: false,
            iface_hierarchies: false,
        }
    }
}

#[derive(Clone, Debug)]
pub struct SchemaModel {
    pub doc: TsDoc,
    pub query: String,
    pub mutation: Option<String>,
    pub subscription: Option<String>,
}

impl SchemaModel {
    pub fn kind_of(&self, name: &str) -> Option<TypeKind> {
        if BUILTIN_SCALARS.contains(&name) {
            return Some(TypeKind::Scalar);
        }
        self.doc.type_def(name).map(|t| t.kind)
    }
    pub fn type_def(&self, name: &str) -> Option<&TypeDef> {
        self.doc.type_def(name)
    }
    pub fn types(&self) -> impl Iterator<Item = &TypeDef> {
        self.doc.items.iter().filter_map(|i| match i {
            TsItem::TypeDef(t) => Some(t),
            _ => None,
        })
    }
    pub fn directive_defs(&self) -> impl Iterator<Item = &DirectiveDef> {
        self.doc.items.iter().filter_map(|i| match i {
            TsItem::DirectiveDef(t) => Some(t),
            _ => None,
        })
    }
    pub fn names_of_kind(&self, k: TypeKind) -> Vec<String> {
        self.types().filter(|t| t.kind == k).map(|t| t.name.clone()).collect()
    }
    /// object types that can be the runtime type of a value of (composite) type `name`
    pub fn possible_types(&self, name: &str) -> Vec<String> {
        match self.type_def(name) {
            Some(t) if t.kind == TypeKind::Object => vec![t.name.clone()],
            Some(t) if t.kind == TypeKind::Union => t.members.iter().map(|m| m.0.clone()).collect(),
            Some(t) if t.kind == TypeKind::Interface => {
                self.types().filter(|o| o.kind == TypeKind::Object && o.implements.iter().any(|i| i.0 == name)).map(|o| o.name.clone()).collect()
            }
            _ => vec![],
        }
    }
    pub fn is_composite(&self, name: &str) -> bool {
        matches!(self.kind_of(name), Some(TypeKind::Object | TypeKind::Interface | TypeKind::Union))
    }
    pub fn is_input(&self, name: &str) -> bool {
        matches!(self.kind_of(name), Some(TypeKind::Scalar | TypeKind::Enum | TypeKind::Input))
    }
    pub fn root(&self, k: OpKind) -> Option<&str> {
        match k {
            OpKind::Query => Some(&self.query),
            OpKind::Mutation => self.mutation.as_deref(),
            OpKind::Subscription => self.subscription.as_deref(),
        }
    }
    pub fn sdl(&self) -> String {
        crate::render::tsdoc_text(&self.doc)
    }
}

const HOSTILE: [&str; 12] = [
    "say \"hi\" \\ there", "ends with quote\"", "*/ closes a comment", "back`tick ${x}", "multi\nline", "tab\there", "é 😀 astral", "\\u0041 literal",
    "\"\"\"", "trailing backslash\\", "cr\rlf", "' single",
];
const PLAIN: [&str; 5] = ["A description.", "the user", "id of the thing", "List of items", "x"];

/// tokens that look like (parts of) comment delimiters of the languages the printers emit
pub const DELIM_TOKENS: [&str; 16] = ["*/", "*/", "*/", "/*", "*/*/", "/**/", "*\\/", "\\*/", "\\\\*/", "**/", "/**", "*//*", "*", "/", "//", "\\"];
const DELIM_WORDS: [&str; 10] = ["a", "b c", "src/**/*.ts", "test/**/*.ts", "x", "@deprecated", "{@link T}", "export type X = 1", "é😀", "`${y}`"];

/// A text (1–4 lines) in which every line carries one delimiter-like token 2–4 times — glued together, separated by
/// blanks or by words, at the very start and / or the very end of the line — possibly mixed with other tokens of
/// `DELIM_TOKENS`. Never empty, no leading / trailing white space on any line.
pub fn delimiter_text(rng: &mut Rng) -> String {
    let nlines = if rng.chance(1, 3) { 2 + rng.below(3) } else { 1 };
    let mut lines = vec![];
    for _ in 0..nlines {
        let main = DELIM_TOKENS[rng.below(DELIM_TOKENS.len())];
        let reps = 2 + rng.below(3);
        let glue = rng.below(4);
        let mut l = String::new();
        if rng.coin() {
            l.push_str(DELIM_WORDS[rng.below(DELIM_WORDS.len())]);
            if rng.coin() {
                l.push(' ');
            }
        }
        for k in 0..reps {
            if k > 0 {
                match glue {
                    0 => {}
                    1 => l.push(' '),
                    2 => {
                        l.push(' ');
                        l.push_str(DELIM_WORDS[rng.below(DELIM_WORDS.len())]);
                        l.push(' ');
                    }
                    _ => l.push_str(DELIM_WORDS[rng.below(DELIM_WORDS.len())]),
                }
            }
            l.push_str(if k > 0 && rng.chance(1, 4) { DELIM_TOKENS[rng.below(DELIM_TOKENS.len())] } else { main });
        }
        if rng.coin() {
            if rng.coin() {
                l.push(' ');
            }
            l.push_str(DELIM_WORDS[rng.below(DELIM_WORDS.len())]);
        }
        lines.push(l);
    }
    lines.join("\n")
}

fn gen_desc(rng: &mut Rng, cfg: &GenCfg) -> Option<String> {
    if !cfg.descriptions || !rng.chance(1, 4) {
        return None;
    }
    if cfg.delimiter_text && rng.coin() {
        return Some(delimiter_text(rng));
    }
    if cfg.hostile_text && rng.coin() {
        Some(HOSTILE[rng.below(HOSTILE.len())].to_string())
    } else {
        Some(PLAIN[rng.below(PLAIN.len())].to_string())
    }
}

fn wrap(rng: &mut Rng, base: Ty, max_depth: usize) -> Ty {
    let mut t = base;
    let depth = rng.below(max_depth + 1).min(rng.below(max_depth + 1) + rng.below(2));
    if rng.chance(2, 5) {
        t = Ty::non_null(t);
    }
    for _ in 0..depth {
        t = Ty::list(t);
        if rng.chance(2, 5) {
            t = Ty::non_null(t);
        }
    }
    t
}

fn iv(name: &str, ty: Ty) -> InputValueDef {
    InputValueDef { desc: None, name: name.to_string(), pos: P::default(), ty, default: None, dirs: vec![] }
}

pub struct ValueCtx<'a> {
    pub schema: &'a SchemaModel,
    pub cfg: &'a GenCfg,
    /// variables available (name → type); generation may add to it when `allow_new_vars`
    pub vars: Option<&'a mut VarPool>,
    pub features: &'a mut BTreeSet<String>,
    pub depth: usize,
    /// the position being filled has a default value of its own (argument / input field default)
    pub loc_default: bool,
}

#[derive(Clone, Debug, Default)]
pub struct VarPool {
    pub vars: Vec<VarDef>,
    pub counter: usize,
}

impl VarPool {
    /// find or create a variable usable at a position of type `ty` (spec IsVariableUsageAllowed);
    /// `loc_default`: the position has a default value of its own
    pub fn var_for(&mut self, rng: &mut Rng, ty: &Ty, loc_default: bool, cfg: &GenCfg, schema: &SchemaModel, features: &mut BTreeSet<String>) -> String {
        let strip = |t: &Ty| strip_ty(t);
        let want = strip(ty);
        let nullable_want = match &want {
            Ty::NonNull(i) => Some((**i).clone()),
            _ => None,
        };
        let usable = |v: &VarDef| -> bool {
            let vt = strip(&v.ty);
            if vt == want || (!want.is_non_null() && vt == Ty::non_null(want.clone())) {
                return true;
            }
            // nullable variable at a non-null position: allowed when the variable has a non-null default
            // or the position has a default
            if let Some(nw) = &nullable_want {
                if vt == *nw {
                    let has_nonnull_default = matches!(&v.default, Some(d) if !matches!(d, Val::Null(_)));
                    return has_nonnull_default || loc_default;
                }
            }
            false
        };
        let cands: Vec<usize> = self.vars.iter().enumerate().filter(|(_, v)| usable(v)).map(|(i, _)| i).collect();
        if !cands.is_empty() && rng.coin() {
            return self.vars[cands[rng.below(cands.len())]].name.clone();
        }
        self.counter += 1;
        let name = format!("v{}", self.counter);
        // declared type: exactly the position's type, or its non-null version (stricter is allowed), or — at a
        // non-null position — the nullable version when a default value makes that legal
        let mut vty = want.clone();
        let mut default = None;
        let mut done = false;
        if let Some(nw) = &nullable_want {
            if cfg.defaults && rng.chance(1, 5) {
                let mut f = BTreeSet::new();
                let mut ctx = ValueCtx { schema, cfg, vars: None, features: &mut f, depth: 0, loc_default: false };
                default = Some(gen_value_nn(rng, nw, &mut ctx));
                vty = nw.clone();
                features.insert("var:nullable-with-default-at-nonnull-position".into());
                done = true;
            } else if loc_default && rng.chance(1, 2) {
                vty = nw.clone();
                features.insert("var:nullable-at-nonnull-position-with-location-default".into());
                done = true;
            }
        }
        if !done {
            if !vty.is_non_null() && rng.chance(1, 4) {
                vty = Ty::non_null(vty);
                features.insert("var:stricter-nonnull".into());
            }
            if cfg.defaults && !vty.is_non_null() && rng.chance(1, 4) {
                let mut f = BTreeSet::new();
                let mut ctx = ValueCtx { schema, cfg, vars: None, features: &mut f, depth: 0, loc_default: false };
                default = Some(gen_value(rng, &vty, &mut ctx));
                features.insert("var:default".into());
            }
        }
        self.vars.push(VarDef { name: name.clone(), pos: P::default(), ty: vty, default, dirs: vec![] });
        name
    }
}

/// the same wrappers around another named type
pub fn replace_named(t: &Ty, name: &str) -> Ty {
    match t {
        Ty::Named(_, p) => Ty::Named(name.to_string(), *p),
        Ty::List(i, p) => Ty::List(Box::new(replace_named(i, name)), *p),
        Ty::NonNull(i) => Ty::NonNull(Box::new(replace_named(i, name))),
    }
}

pub fn strip_ty(t: &Ty) -> Ty {
    match t {
        Ty::Named(n, _) => Ty::named(n),
        Ty::List(i, _) => Ty::list(strip_ty(i)),
        Ty::NonNull(i) => Ty::non_null(strip_ty(i)),
    }
}

/// a literal (or variable) valid for input type `ty`
pub fn gen_value(rng: &mut Rng, ty: &Ty, ctx: &mut ValueCtx) -> Val {
    let var_odds = if ctx.depth == 0 { 4 } else if ctx.loc_default && ty.is_non_null() { 2 } else { 7 };
    if ctx.cfg.variables && ctx.depth <= 3 && rng.chance(1, var_odds) {
        if let Some(pool) = ctx.vars.as_deref_mut() {
            let n = pool.var_for(rng, ty, ctx.loc_default, ctx.cfg, ctx.schema, ctx.features);
            ctx.features.insert(if ctx.depth == 0 { "value:variable".into() } else { "value:variable-nested".to_string() });
            if ctx.depth > 0 && ctx.loc_default && ty.is_non_null() {
                ctx.features.insert("value:variable-in-nonnull-input-field-with-default".into());
            }
            return Val::Var(n, P::default());
        }
    }
    match ty {
        Ty::NonNull(inner) => gen_value_nn(rng, inner, ctx),
        _ => {
            if rng.chance(1, 8) {
                ctx.features.insert("value:null".into());
                Val::Null(P::default())
            } else {
                gen_value_nn(rng, ty, ctx)
            }
        }
    }
}

fn gen_value_nn(rng: &mut Rng, ty: &Ty, ctx: &mut ValueCtx) -> Val {
    match ty {
        Ty::NonNull(inner) => gen_value_nn(rng, inner, ctx),
        Ty::List(inner, _) => {
            if ctx.cfg.coercions && rng.chance(1, 6) && !matches!(**inner, Ty::List(..)) {
                ctx.features.insert("coercion:item-for-list".into());
                ctx.depth += 1;
                let v = gen_value_nn(rng, inner, ctx);
                ctx.depth -= 1;
                return v;
            }
            let n = if ctx.depth > 3 { 0 } else { rng.below(3) };
            ctx.depth += 1;
            let saved = ctx.loc_default;
            ctx.loc_default = false;
            let vs = (0..n).map(|_| gen_value(rng, inner, ctx)).collect();
            ctx.loc_default = saved;
            ctx.depth -= 1;
            ctx.features.insert("value:list".into());
            Val::List(vs, P::default())
        }
        Ty::Named(n, _) => match n.as_str() {
            "Int" => Val::Int(["0", "1", "-7", "42", "2147483647"][rng.below(5)].into(), P::default()),
            "Float" => {
                if ctx.cfg.coercions && rng.chance(1, 4) {
                    ctx.features.insert("coercion:int-for-float".into());
                    Val::Int("3".into(), P::default())
                } else {
                    Val::Float(["1.5", "-0.25", "1e3", "6.02E23"][rng.below(4)].into(), P::default())
                }
            }
            "String" => {
                let s = if ctx.cfg.hostile_text && rng.coin() { HOSTILE[rng.below(HOSTILE.len())] } else { ["", "abc", "hello world"][rng.below(3)] };
                Val::Str(s.into(), P::default())
            }
            "Boolean" => Val::Bool(rng.coin(), P::default()),
            "ID" => {
                if ctx.cfg.coercions && rng.chance(1, 3) {
                    ctx.features.insert("coercion:int-for-id".into());
                    Val::Int("12".into(), P::default())
                } else {
                    Val::Str("id-1".into(), P::default())
                }
            }
            other => match ctx.schema.type_def(other) {
                Some(t) if t.kind == TypeKind::Enum => {
                    ctx.features.insert("value:enum".into());
                    Val::Enum(t.values[rng.below(t.values.len())].name.clone(), P::default())
                }
                Some(t) if t.kind == TypeKind::Input => {
                    ctx.features.insert("value:input-object".into());
                    let mut fs = vec![];
                    ctx.depth += 1;
                    for f in &t.inputs {
                        let required = f.ty.is_non_null() && f.default.is_none();
                        let deep = ctx.depth > 3;
                        if required || (!deep && rng.chance(1, 2)) {
                            if deep && !f.ty.is_non_null() {
                                fs.push(Arg::new(&f.name, Val::Null(P::default())));
                            } else {
                                let saved = ctx.loc_default;
                                ctx.loc_default = f.default.is_some();
                                fs.push(Arg::new(&f.name, gen_value(rng, &f.ty, ctx)));
                                ctx.loc_default = saved;
                            }
                        } else {
                            ctx.features.insert("value:input-object-omitted-field".into());
                        }
                    }
                    ctx.depth -= 1;
                    Val::Obj(fs, P::default())
                }
                // custom scalar: any literal is accepted
                _ => Val::Str("scalar-literal".into(), P::default()),
            },
        },
    }
}

pub const TS_LOCATIONS: [&str; 11] = [
    "SCHEMA", "SCALAR", "OBJECT", "FIELD_DEFINITION", "ARGUMENT_DEFINITION", "INTERFACE", "UNION", "ENUM", "ENUM_VALUE", "INPUT_OBJECT", "INPUT_FIELD_DEFINITION",
];
pub const EXEC_LOCATIONS: [&str; 8] = ["QUERY", "MUTATION", "SUBSCRIPTION", "FIELD", "FRAGMENT_DEFINITION", "FRAGMENT_SPREAD", "INLINE_FRAGMENT", "VARIABLE_DEFINITION"];

pub fn gen_schema(rng: &mut Rng, cfg: &GenCfg) -> SchemaModel {
    let mut items: Vec<TsItem> = vec![];
    // custom scalars
    let scalars: Vec<String> = ["Date", "JSON"].iter().take(rng.below(3)).map(|s| s.to_string()).collect();
    for s in &scalars {
        let mut t = TypeDef::new(TypeKind::Scalar, s);
        t.desc = gen_desc(rng, cfg);
        if cfg.ts_type_directive && rng.coin() {
            let texts = ["string", "number", "Date", "string | Date", "bigint"];
            let mut arg = |n: &str, rng: &mut Rng| Arg::new(n, Val::Str(texts[rng.below(texts.len())].to_string(), P::default()));
            let args = vec![arg("resolverInput", rng), arg("resolverOutput", rng), arg("operationInput", rng), arg("operationOutput", rng)];
            t.dirs.push(Dir::new("nitrogql_ts_type", args));
        }
        items.push(TsItem::TypeDef(t));
    }
    // enums
    let n_enums = 1 + rng.below(2);
    let mut enums = vec![];
    for i in 0..n_enums {
        let name = ["Color", "Role"][i].to_string();
        let mut t = TypeDef::new(TypeKind::Enum, &name);
        t.desc = gen_desc(rng, cfg);
        let vals = [["RED", "GREEN", "BLUE", "BLACK"], ["ADMIN", "USER", "GUEST", "BOT"]][i];
        for v in vals.iter().take(2 + rng.below(3)) {
            let mut dirs = vec![];
            if cfg.directives && rng.chance(1, 6) {
                dirs.push(Dir::new("deprecated", if rng.coin() { vec![Arg::new("reason", Val::Str("old".into(), P::default()))] } else { vec![] }));
            }
            t.values.push(EnumValueDef { desc: gen_desc(rng, cfg), name: v.to_string(), pos: P::default(), dirs });
        }
        enums.push(name);
        items.push(TsItem::TypeDef(t));
    }
    // input objects
    let n_inputs = 1 + rng.below(3);
    let input_names: Vec<String> = ["Filter", "Range", "Opts"].iter().take(n_inputs).map(|s| s.to_string()).collect();
    let mut leaf_inputs: Vec<String> = BUILTIN_SCALARS.iter().map(|s| s.to_string()).collect();
    leaf_inputs.extend(scalars.iter().cloned());
    leaf_inputs.extend(enums.iter().cloned());
    let mut input_defs: Vec<TypeDef> = vec![];
    for (i, name) in input_names.iter().enumerate() {
        let mut t = TypeDef::new(TypeKind::Input, name);
        t.desc = gen_desc(rng, cfg);
        let nf = 1 + rng.below(4);
        for k in 0..nf {
            let fname = format!("{}{}", ["min", "max", "q", "tag", "sub"][k % 5], if k >= 5 { k.to_string() } else { String::new() });
            // reference to another input object only through a nullable (possibly list) position, to keep values finite
            let use_input = rng.chance(1, 4);
            let ty = if use_input {
                let target = &input_names[rng.below(i + 1)];
                let t = Ty::named(target);
                if rng.coin() { Ty::list(Ty::non_null(t)) } else { t }
            } else {
                let k = rng.below(leaf_inputs.len());
                wrap(rng, Ty::named(&leaf_inputs[k]), 2)
            };
            let mut f = iv(&fname, ty);
            f.desc = gen_desc(rng, cfg);
            t.inputs.push(f);
        }
        input_defs.push(t);
    }
    let all_inputs: Vec<String> = leaf_inputs.iter().cloned().chain(input_names.iter().cloned()).collect();
    // provisional model for default-value generation
    let mut prov = SchemaModel { doc: TsDoc { items: items.iter().cloned().chain(input_defs.iter().cloned().map(TsItem::TypeDef)).collect() }, query: "Query".into(), mutation: None, subscription: None };
    if cfg.defaults {
        for t in input_defs.iter_mut() {
            for f in t.inputs.iter_mut() {
                if rng.chance(1, 3) && leaf_inputs.contains(&f.ty.unwrapped().to_string()) {
                    let mut fs = BTreeSet::new();
                    let c2 = GenCfg { variables: false, ..cfg.clone() };
                    let mut ctx = ValueCtx { schema: &prov, cfg: &c2, vars: None, features: &mut fs, depth: 1, loc_default: false };
                    f.default = Some(gen_value(rng, &f.ty, &mut ctx));
                }
            }
        }
    }
    for t in &input_defs {
        items.push(TsItem::TypeDef(t.clone()));
    }
    prov.doc.items = items.clone();

    // output type names
    let n_ifaces = rng.below(3);
    // a single leading underscore is a legal (non-reserved) name, e.g. Apollo Federation's `_Entity`, `_Service`
    let us = rng.chance(1, 6);
    let n_ifaces = if cfg.iface_hierarchies { 3 + rng.below(4) } else { n_ifaces };
    let iface_names: Vec<String> = [if us { "_Node" } else { "Node" }, "Entity", "Named", "Resource", "Timestamped", "Auditable"].iter().take(n_ifaces).map(|s| s.to_string()).collect();
    let n_objs = 2 + rng.below(3);
    let obj_names: Vec<String> = ["User", if us { "_Service" } else { "Post" }, "Comment", "Tag"].iter().take(n_objs).map(|s| s.to_string()).collect();
    let n_unions = rng.below(3);
    let union_names: Vec<String> = [if us { "_Entity" } else { "SearchResult" }, "Owner"].iter().take(n_unions).map(|s| s.to_string()).collect();
    let explicit = cfg.explicit_schema && rng.chance(1, 3);
    let query = if explicit && rng.coin() { "RootQuery".to_string() } else { "Query".to_string() };
    let mutation = if rng.coin() { Some(if explicit && rng.coin() { "RootMutation".to_string() } else { "Mutation".to_string() }) } else { None };
    let subscription = if rng.chance(1, 3) { Some("Subscription".to_string()) } else { None };
    let mut out_targets: Vec<String> = BUILTIN_SCALARS.iter().map(|s| s.to_string()).collect();
    out_targets.extend(scalars.iter().cloned());
    out_targets.extend(enums.iter().cloned());
    let composite: Vec<String> = iface_names.iter().chain(obj_names.iter()).chain(union_names.iter()).cloned().collect();

    // field signature pool
    let pool_names = ["id", "name", "title", "body", "author", "posts", "comments", "tags", "owner", "node", "search", "count", "color", "role", "createdAt", "meta", "items", "score"];
    let n_sigs = 8 + rng.below(8);
    let mut sigs: Vec<FieldDef> = vec![];
    let mut hier_next = 0usize;
    for name in pool_names.iter().take(n_sigs) {
        let to_composite = rng.chance(2, 5);
        let base = if to_composite && cfg.iface_hierarchies && hier_next < iface_names.len() && rng.chance(2, 3) {
            // the pool reaches the interfaces one after the other, so that documents can select into every hierarchy
            hier_next += 1;
            iface_names[hier_next - 1].clone()
        } else if to_composite {
            composite[rng.below(composite.len())].clone()
        } else {
            out_targets[rng.below(out_targets.len())].clone()
        };
        let ty = if *name == "id" { Ty::non_null(Ty::named("ID")) } else { wrap(rng, Ty::named(&base), cfg.max_depth) };
        let mut args = vec![];
        if *name != "id" && rng.chance(1, 3) {
            for k in 0..(1 + rng.below(2)) {
                let an = ["first", "filter", "order"][k].to_string();
                let k = rng.below(all_inputs.len());
                let aty = wrap(rng, Ty::named(&all_inputs[k]), 2);
                let mut a = iv(&an, aty);
                if cfg.defaults && rng.chance(1, 4) {
                    let mut fs = BTreeSet::new();
                    let c2 = GenCfg { variables: false, ..cfg.clone() };
                    let mut ctx = ValueCtx { schema: &prov, cfg: &c2, vars: None, features: &mut fs, depth: 1, loc_default: false };
                    a.default = Some(gen_value(rng, &a.ty, &mut ctx));
                }
                a.desc = gen_desc(rng, cfg);
                args.push(a);
            }
        }
        let mut dirs = vec![];
        if cfg.directives && rng.chance(1, 8) {
            dirs.push(Dir::new("deprecated", vec![]));
        }
        sigs.push(FieldDef { desc: gen_desc(rng, cfg), name: name.to_string(), pos: P::default(), args, ty, dirs });
    }
    let pick_fields = |rng: &mut Rng, must: &[FieldDef], min: usize| -> Vec<FieldDef> {
        let mut fs: Vec<FieldDef> = must.to_vec();
        let extra = min + rng.below(4);
        for _ in 0..extra {
            let s = &sigs[rng.below(sigs.len())];
            if !fs.iter().any(|f| f.name == s.name) {
                fs.push(s.clone());
            }
        }
        if fs.is_empty() {
            fs.push(sigs[0].clone());
        }
        fs
    };
    // interfaces (chain: later interfaces may implement earlier ones)
    let mut iface_defs: Vec<TypeDef> = vec![];
    for (i, name) in iface_names.iter().enumerate() {
        let mut t = TypeDef::new(TypeKind::Interface, name);
        t.desc = gen_desc(rng, cfg);
        let mut must: Vec<FieldDef> = vec![];
        if cfg.iface_hierarchies {
            // 0–2 direct parents among the earlier interfaces (two parents with a common ancestor = a diamond)
            let np = if i == 0 { 0 } else { [0, 0, 1, 1, 1, 2, 2][rng.below(7)].min(i) };
            let mut impls: Vec<String> = vec![];
            // pairs of earlier interfaces that are unrelated to each other but share an ancestor: implementing both closes a diamond
            let mut diamond_pairs: Vec<(usize, usize)> = vec![];
            for a in 0..i {
                for b in (a + 1)..i {
                    let (da, db): (&TypeDef, &TypeDef) = (&iface_defs[a], &iface_defs[b]);
                    let unrelated = !da.implements.iter().any(|x| x.0 == db.name) && !db.implements.iter().any(|x| x.0 == da.name);
                    if unrelated && da.implements.iter().any(|x| db.implements.iter().any(|y| y.0 == x.0)) {
                        diamond_pairs.push((a, b));
                    }
                }
            }
            let forced: Option<(usize, usize)> = if np == 2 && !diamond_pairs.is_empty() && rng.coin() { Some(diamond_pairs[rng.below(diamond_pairs.len())]) } else { None };
            for j in 0..np {
                let parent = match forced {
                    Some((a, b)) => &iface_defs[if j == 0 { a } else { b }],
                    None => &iface_defs[rng.below(i)],
                };
                for p in parent.implements.iter().map(|x| x.0.clone()).chain(std::iter::once(parent.name.clone())) {
                    if !impls.contains(&p) {
                        impls.push(p);
                    }
                }
            }
            rng.shuffle(&mut impls);
            t.implements = impls.into_iter().map(|n| (n, P::default())).collect();
            for p in &t.implements {
                let pd = iface_defs.iter().find(|d| d.name == p.0).unwrap();
                for f in &pd.fields {
                    if !must.iter().any(|m| m.name == f.name) {
                        must.push(f.clone());
                    }
                }
            }
        } else if i > 0 && rng.coin() {
            let parent = &iface_defs[rng.below(i)];
            // transitive closure of implemented interfaces
            let mut impls: Vec<(String, P)> = parent.implements.clone();
            impls.push((parent.name.clone(), P::default()));
            t.implements = impls;
            for p in &t.implements {
                let pd = iface_defs.iter().find(|d| d.name == p.0).unwrap();
                for f in &pd.fields {
                    if !must.iter().any(|m| m.name == f.name) {
                        must.push(f.clone());
                    }
                }
            }
        }
        t.fields = pick_fields(rng, &must, 1);
        iface_defs.push(t);
    }
    let mut obj_defs: Vec<TypeDef> = vec![];
    let mut all_obj_names = obj_names.clone();
    all_obj_names.push(query.clone());
    if let Some(m) = &mutation {
        all_obj_names.push(m.clone());
    }
    if let Some(s) = &subscription {
        all_obj_names.push(s.clone());
    }
    for name in &all_obj_names {
        let mut t = TypeDef::new(TypeKind::Object, name);
        t.desc = gen_desc(rng, cfg);
        let mut must: Vec<FieldDef> = vec![];
        let is_root = !obj_names.contains(name);
        if cfg.iface_hierarchies && is_root {
            // the root types reach the hierarchy: most interface-typed fields of the pool, and 1–2 more fields of composite type
            let abs: Vec<&FieldDef> = sigs.iter().filter(|s| iface_names.iter().any(|i| i == s.ty.unwrapped())).collect();
            for s in &abs {
                if rng.chance(2, 3) && !must.iter().any(|m| m.name == s.name) {
                    must.push((*s).clone());
                }
            }
            let comp: Vec<&FieldDef> = sigs.iter().filter(|s| composite.iter().any(|c| c == s.ty.unwrapped())).collect();
            for _ in 0..(1 + rng.below(2)) {
                let from = if !abs.is_empty() && rng.chance(2, 3) { &abs } else { &comp };
                if !from.is_empty() {
                    let s = from[rng.below(from.len())];
                    if !must.iter().any(|m| m.name == s.name) {
                        must.push(s.clone());
                    }
                }
            }
        }
        if cfg.iface_hierarchies {
            if !is_root && rng.chance(5, 6) {
                // 1–3 interfaces from anywhere in the DAG, closed under "implements", in random order
                let k = [1, 1, 2, 2, 3][rng.below(5)];
                let mut impls: Vec<String> = vec![];
                for _ in 0..k {
                    let ifc = &iface_defs[rng.below(iface_defs.len())];
                    for p in ifc.implements.iter().map(|x| x.0.clone()).chain(std::iter::once(ifc.name.clone())) {
                        if !impls.contains(&p) {
                            impls.push(p);
                        }
                    }
                }
                rng.shuffle(&mut impls);
                for p in &impls {
                    let pd = iface_defs.iter().find(|d| &d.name == p).unwrap();
                    for f in &pd.fields {
                        if !must.iter().any(|m| m.name == f.name) {
                            must.push(f.clone());
                        }
                    }
                }
                t.implements = impls.into_iter().map(|n| (n, P::default())).collect();
            }
        } else if !is_root && !iface_defs.is_empty() && rng.chance(3, 5) {
            let k = rng.below(iface_defs.len());
            let ifc = &iface_defs[k];
            let mut impls = ifc.implements.clone();
            impls.push((ifc.name.clone(), P::default()));
            if rng.chance(1, 3) && iface_defs.len() > 1 {
                let other = &iface_defs[rng.below(iface_defs.len())];
                for p in other.implements.iter().cloned().chain(std::iter::once((other.name.clone(), P::default()))) {
                    if !impls.iter().any(|x| x.0 == p.0) {
                        impls.push(p);
                    }
                }
            }
            for p in &impls {
                let pd = iface_defs.iter().find(|d| d.name == p.0).unwrap();
                for f in &pd.fields {
                    if !must.iter().any(|m| m.name == f.name) {
                        must.push(f.clone());
                    }
                }
            }
            t.implements = impls;
        }
        t.fields = pick_fields(rng, &must, 2);
        obj_defs.push(t);
    }
    let mut union_defs = vec![];
    for name in &union_names {
        let mut t = TypeDef::new(TypeKind::Union, name);
        t.desc = gen_desc(rng, cfg);
        let mut ms: Vec<String> = obj_names.clone();
        rng.shuffle(&mut ms);
        ms.truncate(1 + rng.below(obj_names.len()));
        t.members = ms.into_iter().map(|m| (m, P::default())).collect();
        union_defs.push(t);
    }
    // covariant refinement: an object may narrow the named type of a field it implements for an interface to one
    // of that type's possible object types (valid per IsValidImplementationFieldType; wrappers are kept so that
    // response shapes stay mergeable)
    if cfg.covariant_fields {
        let snapshot: Vec<TypeDef> = obj_defs.clone();
        let possible = |x: &str| -> Vec<String> {
            if let Some(u) = union_defs.iter().find(|u| u.name == x) {
                return u.members.iter().map(|m| m.0.clone()).collect();
            }
            if iface_defs.iter().any(|i| i.name == x) {
                return snapshot.iter().filter(|o| o.implements.iter().any(|i| i.0 == x)).map(|o| o.name.clone()).collect();
            }
            vec![]
        };
        for o in obj_defs.iter_mut() {
            if o.implements.is_empty() {
                continue;
            }
            let iface_field_names: Vec<String> =
                o.implements.iter().flat_map(|i| iface_defs.iter().find(|d| d.name == i.0).map(|d| d.fields.iter().map(|f| f.name.clone()).collect::<Vec<_>>()).unwrap_or_default()).collect();
            for f in o.fields.iter_mut() {
                if !iface_field_names.contains(&f.name) {
                    continue;
                }
                let ps = possible(f.ty.unwrapped());
                if !ps.is_empty() && rng.chance(1, 3) {
                    let pick = ps[rng.below(ps.len())].clone();
                    f.ty = replace_named(&f.ty, &pick);
                }
            }
        }
    }
    // custom directive definitions
    if cfg.directives {
        if rng.coin() {
            items.push(TsItem::DirectiveDef(DirectiveDef {
                desc: gen_desc(rng, cfg),
                name: "tag".into(),
                name_pos: P::default(),
                args: vec![iv("label", Ty::named("String"))],
                repeatable: rng.coin(),
                locations: vec!["FIELD".into(), "FRAGMENT_SPREAD".into(), "INLINE_FRAGMENT".into(), "QUERY".into(), "MUTATION".into(), "SUBSCRIPTION".into(), "FRAGMENT_DEFINITION".into(), "VARIABLE_DEFINITION".into(), "OBJECT".into(), "FIELD_DEFINITION".into()],
                pos: P::default(),
            }));
        }
        if rng.chance(1, 3) {
            items.push(TsItem::DirectiveDef(DirectiveDef {
                desc: None,
                name: "auth".into(),
                name_pos: P::default(),
                args: vec![iv("role", Ty::non_null(Ty::named(&enums[0])))],
                repeatable: false,
                locations: vec!["OBJECT".into(), "FIELD_DEFINITION".into(), "INTERFACE".into()],
                pos: P::default(),
            }));
        }
    }
    let has_tag = items.iter().any(|i| matches!(i, TsItem::DirectiveDef(d) if d.name == "tag"));
    let has_auth = items.iter().any(|i| matches!(i, TsItem::DirectiveDef(d) if d.name == "auth"));
    for t in iface_defs.iter_mut().chain(obj_defs.iter_mut()) {
        if has_auth && rng.chance(1, 5) {
            let first_enum = prov.type_def(&enums[0]).unwrap().values[0].name.clone();
            t.dirs.push(Dir::new("auth", vec![Arg::new("role", Val::Enum(first_enum, P::default()))]));
        }
        if has_tag && t.kind == TypeKind::Object && rng.chance(1, 6) {
            t.dirs.push(Dir::new("tag", vec![Arg::new("label", Val::Str("x".into(), P::default()))]));
        }
    }
    for t in iface_defs {
        items.push(TsItem::TypeDef(t));
    }
    for t in obj_defs {
        items.push(TsItem::TypeDef(t));
    }
    for t in union_defs {
        items.push(TsItem::TypeDef(t));
    }
    let needs_schema_def = query != "Query" || mutation.as_deref().map_or(false, |m| m != "Mutation");
    if explicit || needs_schema_def {
        let mut roots = vec![(OpKind::Query, query.clone(), P::default())];
        if let Some(m) = &mutation {
            roots.push((OpKind::Mutation, m.clone(), P::default()));
        }
        if let Some(s) = &subscription {
            roots.push((OpKind::Subscription, s.clone(), P::default()));
        }
        items.insert(0, TsItem::SchemaDef(SchemaDef { desc: None, dirs: vec![], roots, pos: P::default() }));
    }
    if rng.coin() {
        rng.shuffle(&mut items);
    }
    SchemaModel { doc: TsDoc { items }, query, mutation, subscription }
}

/// Shape of the interface hierarchy of a (merged) schema, for the input-distribution part of a report:
/// depth of the "implements" DAG, diamonds, how objects ORDER their `implements` lists relative to the hierarchy.
pub fn iface_shape_features(schema: &SchemaModel) -> BTreeSet<String> {
    let mut out = BTreeSet::new();
    let ifaces: Vec<&TypeDef> = schema.types().filter(|t| t.kind == TypeKind::Interface).collect();
    let parents_of = |n: &str| -> Vec<String> { ifaces.iter().find(|d| d.name == n).map(|d| d.implements.iter().map(|x| x.0.clone()).collect()).unwrap_or_default() };
    // depth: longest chain i ▸ p1 ▸ p2 … along listed parents (lists are transitively closed, so length of the list
    // bounds it; the chain length is computed on the DAG)
    fn depth(n: &str, parents_of: &dyn Fn(&str) -> Vec<String>, fuel: usize) -> usize {
        if fuel == 0 {
            return 0;
        }
        parents_of(n).iter().map(|p| 1 + depth(p, parents_of, fuel - 1)).max().unwrap_or(0)
    }
    let mut maxd = 0;
    for i in &ifaces {
        let d = depth(&i.name, &parents_of, 8);
        maxd = maxd.max(d);
        // diamond: two listed parents, neither an ancestor of the other, with a common ancestor
        let ps = parents_of(&i.name);
        for a in &ps {
            for b in &ps {
                if a < b && !parents_of(a).contains(b) && !parents_of(b).contains(a) && parents_of(a).iter().any(|x| parents_of(b).contains(x)) {
                    out.insert("iface:diamond".to_string());
                }
            }
        }
        if schema.possible_types(&i.name).is_empty() {
            out.insert("iface:without-implementing-object".to_string());
        }
    }
    out.insert(format!("iface:hierarchy-depth:{}", maxd.min(4)));
    let roots = ifaces.iter().filter(|i| i.implements.is_empty()).count();
    if roots >= 2 {
        out.insert("iface:several-unrelated-hierarchies".to_string());
    }
    for o in schema.types().filter(|t| t.kind == TypeKind::Object) {
        let l: Vec<&str> = o.implements.iter().map(|x| x.0.as_str()).collect();
        if l.len() >= 2 {
            out.insert("object:implements-several".to_string());
        }
        for (ai, a) in l.iter().enumerate() {
            let pa = parents_of(a);
            for (bi, b) in l.iter().enumerate() {
                if ai == bi {
                    continue;
                }
                let related = pa.iter().any(|x| x == b) || parents_of(b).iter().any(|x| x == a);
                if pa.iter().any(|x| x == b) {
                    out.insert(if ai < bi { "object:lists-sub-interface-before-its-parent" } else { "object:lists-sub-interface-after-its-parent" }.to_string());
                }
                if !related && !pa.is_empty() {
                    out.insert(if ai < bi { "object:lists-inheriting-interface-before-unrelated-one" } else { "object:lists-unrelated-interface-before-inheriting-one" }.to_string());
                }
            }
        }
    }
    out
}

/// Split some components of definitions into `extend …` items (same merged meaning), optionally shuffled.
pub fn split_into_extensions(rng: &mut Rng, schema: &SchemaModel) -> TsDoc {
    let mut out = vec![];
    let mut exts = vec![];
    for item in &schema.doc.items {
        match item {
            TsItem::TypeDef(t) if rng.chance(1, 3) => {
                let mut base = t.clone();
                let mut ext = TypeDef::new(t.kind, &t.name);
                match t.kind {
                    TypeKind::Object | TypeKind::Interface if t.fields.len() >= 2 => {
                        let k = 1 + rng.below(t.fields.len() - 1);
                        ext.fields = base.fields.split_off(k);
                        // an object / interface may also gain its interfaces through the extension
                        // (`extend type T implements I { … }`); the merged type is the same
                        if !base.implements.is_empty() && rng.coin() {
                            let j = rng.below(base.implements.len() + 1).min(rng.below(base.implements.len() + 1));
                            ext.implements = base.implements.split_off(j);
                        }
                    }
                    TypeKind::Object | TypeKind::Interface if !t.implements.is_empty() => {
                        ext.implements = base.implements.split_off(0);
                    }
                    TypeKind::Enum if t.values.len() >= 2 => {
                        let k = 1 + rng.below(t.values.len() - 1);
                        ext.values = base.values.split_off(k);
                    }
                    TypeKind::Input if t.inputs.len() >= 2 => {
                        let k = 1 + rng.below(t.inputs.len() - 1);
                        ext.inputs = base.inputs.split_off(k);
                    }
                    TypeKind::Union if t.members.len() >= 2 => {
                        let k = 1 + rng.below(t.members.len() - 1);
                        ext.members = base.members.split_off(k);
                    }
                    _ => {
                        if !base.dirs.is_empty() {
                            ext.dirs = base.dirs.split_off(0);
                        } else {
                            out.push(item.clone());
                            continue;
                        }
                    }
                }
                out.push(TsItem::TypeDef(base));
                exts.push(TsItem::TypeExt(ext));
            }
            other => out.push(other.clone()),
        }
    }
    for e in exts {
        let at = rng.below(out.len() + 1);
        out.insert(at, e);
    }
    TsDoc { items: out }
}

// ---------------------------------------------------------------------------------------------
// operation documents

pub struct DocGen<'a> {
    pub schema: &'a SchemaModel,
    pub cfg: &'a GenCfg,
    pub frags: Vec<FragDef>,
    pub features: BTreeSet<String>,
    alias_counter: usize,
    frag_counter: usize,
    /// variables used by each fragment (name → def), transitively filled at the end
    frag_vars: BTreeMap<String, VarPool>,
    /// document-wide variable table so that the same name always has the same declared type
    global_vars: VarPool,
    /// document-wide Boolean variables (capped, see `bool_var`)
    global_bools: Vec<String>,
}

impl<'a> DocGen<'a> {
    pub fn new(schema: &'a SchemaModel, cfg: &'a GenCfg) -> Self {
        DocGen { schema, cfg, frags: vec![], features: BTreeSet::new(), alias_counter: 0, frag_counter: 0, frag_vars: BTreeMap::new(), global_vars: VarPool::default(), global_bools: vec![] }
    }

    fn fields_of(&self, parent: &str) -> Vec<FieldDef> {
        self.schema.type_def(parent).map(|t| t.fields.clone()).unwrap_or_default()
    }

    fn cond_dirs(&mut self, rng: &mut Rng, pool: &mut VarPool) -> Vec<Dir> {
        let mut dirs = vec![];
        if self.cfg.skip_include && rng.chance(1, 5) {
            let name = if rng.coin() { "skip" } else { "include" };
            let v = if self.cfg.variables && rng.chance(2, 3) {
                let n = self.bool_var(rng, pool);
                self.features.insert(format!("@{name}:variable"));
                Val::Var(n, P::default())
            } else {
                self.features.insert(format!("@{name}:literal"));
                Val::Bool(rng.coin(), P::default())
            };
            dirs.push(Dir::new(name, vec![Arg::new("if", v)]));
            if rng.chance(1, 8) {
                let other = if name == "skip" { "include" } else { "skip" };
                dirs.push(Dir::new(other, vec![Arg::new("if", Val::Bool(rng.coin(), P::default()))]));
                self.features.insert("@skip+@include".into());
            }
        }
        if self.cfg.directives && self.schema.directive_defs().any(|d| d.name == "tag") && rng.chance(1, 10) {
            dirs.push(Dir::new("tag", vec![Arg::new("label", Val::Str("t".into(), P::default()))]));
            self.features.insert("user-directive".into());
        }
        dirs
    }

    fn bool_var(&mut self, rng: &mut Rng, pool: &mut VarPool) -> String {
        // The operation type printer enumerates 2^n assignments of the n Boolean variables used by the
        // @skip/@include directives of one selection set, fragments included (measured: 15 variables ≈ 80 s),
        // so the number of distinct Boolean variables per DOCUMENT is capped to keep cases within ordinary limits.
        if !self.global_bools.is_empty() && (self.global_bools.len() >= MAX_BOOL_VARS || rng.chance(2, 3)) {
            let name = self.global_bools[rng.below(self.global_bools.len())].clone();
            if !pool.vars.iter().any(|v| v.name == name) {
                pool.vars.push(VarDef { name: name.clone(), pos: P::default(), ty: Ty::non_null(Ty::named("Boolean")), default: None, dirs: vec![] });
            }
            return name;
        }
        self.global_vars.counter += 1;
        let name = format!("b{}", self.global_vars.counter);
        self.global_bools.push(name.clone());
        pool.vars.push(VarDef { name: name.clone(), pos: P::default(), ty: Ty::non_null(Ty::named("Boolean")), default: None, dirs: vec![] });
        name
    }

    fn gen_args(&mut self, rng: &mut Rng, defs: &[InputValueDef], pool: &mut VarPool) -> Vec<Arg> {
        let mut out = vec![];
        for a in defs {
            let required = a.ty.is_non_null() && a.default.is_none();
            if required || rng.coin() {
                // share the document-wide counter so variable names are unique per type
                pool.counter = self.global_vars.counter;
                let mut ctx = ValueCtx { schema: self.schema, cfg: self.cfg, vars: Some(pool), features: &mut self.features, depth: 0, loc_default: a.default.is_some() };
                let v = gen_value(rng, &a.ty, &mut ctx);
                self.global_vars.counter = pool.counter;
                out.push(Arg::new(&a.name, v));
            }
        }
        if out.len() >= 2 && rng.coin() {
            out.reverse();
        }
        out
    }

    pub fn gen_selset(&mut self, rng: &mut Rng, parent: &str, depth: usize, pool: &mut VarPool) -> Vec<Sel> {
        let kind = self.schema.kind_of(parent);
        let fields = self.fields_of(parent);
        let mut sels: Vec<Sel> = vec![];
        let n = 1 + rng.below(4);
        for _ in 0..n {
            let choice = rng.below(10);
            if kind == Some(TypeKind::Union) || (choice >= 7 && self.schema.is_composite(parent)) {
                // narrowing: inline fragment or fragment spread
                let poss = self.schema.possible_types(parent);
                let mut targets: Vec<String> = poss.clone();
                // abstract types that overlap
                for t in self.schema.types() {
                    if matches!(t.kind, TypeKind::Interface | TypeKind::Union) {
                        let p2 = self.schema.possible_types(&t.name);
                        if p2.iter().any(|x| poss.contains(x)) {
                            targets.push(t.name.clone());
                        }
                    }
                }
                if kind != Some(TypeKind::Union) {
                    targets.push(parent.to_string());
                }
                if targets.is_empty() {
                    continue;
                }
                let target = targets[rng.below(targets.len())].clone();
                if self.cfg.fragments && rng.chance(2, 5) && depth < self.cfg.max_depth {
                    let fname = self.gen_fragment(rng, &target, depth + 1);
                    // the spreading scope must declare the fragment's variables
                    if let Some(fv) = self.frag_vars.get(&fname).cloned() {
                        for v in fv.vars {
                            if !pool.vars.iter().any(|x| x.name == v.name) {
                                pool.vars.push(v);
                            }
                        }
                    }
                    let dirs = self.cond_dirs(rng, pool);
                    self.features.insert("fragment-spread".into());
                    sels.push(Sel::Spread { name: fname, name_pos: P::default(), dirs, pos: P::default() });
                } else {
                    let untyped = kind != Some(TypeKind::Union) && rng.chance(1, 5);
                    let inner_parent = if untyped { parent.to_string() } else { target.clone() };
                    let dirs = self.cond_dirs(rng, pool);
                    let sel = if depth < self.cfg.max_depth + 1 { self.gen_selset(rng, &inner_parent, depth + 1, pool) } else { vec![Sel::field("__typename")] };
                    self.features.insert(if untyped { "inline-fragment:untyped".into() } else { format!("inline-fragment:on-{:?}", self.schema.kind_of(&target).unwrap()) });
                    sels.push(Sel::Inline { cond: if untyped { None } else { Some((target, P::default())) }, dirs, sel, pos: P::default() });
                }
            } else if choice == 0 || fields.is_empty() {
                self.features.insert("__typename".into());
                let dirs = self.cond_dirs(rng, pool);
                let alias = if rng.chance(1, 8) {
                    self.alias_counter += 1;
                    self.features.insert("__typename:aliased".into());
                    Some((format!("t{}", self.alias_counter), P::default()))
                } else {
                    None
                };
                sels.push(Sel::Field { alias, name: "__typename".into(), name_pos: P::default(), args: vec![], dirs, sel: None });
            } else {
                let f = fields[rng.below(fields.len())].clone();
                let target = f.ty.unwrapped().to_string();
                let composite = self.schema.is_composite(&target);
                if composite && depth >= self.cfg.max_depth + 1 {
                    continue;
                }
                let args = self.gen_args(rng, &f.args, pool);
                let mut alias = None;
                if !args.is_empty() || rng.chance(1, 6) {
                    self.alias_counter += 1;
                    alias = Some((format!("a{}", self.alias_counter), P::default()));
                    self.features.insert("alias".into());
                }
                let dirs = self.cond_dirs(rng, pool);
                let sel = if composite { Some(self.gen_selset(rng, &target, depth + 1, pool)) } else { None };
                if matches!(f.ty, Ty::List(..)) || matches!(&f.ty, Ty::NonNull(i) if matches!(**i, Ty::List(..))) {
                    self.features.insert("list-field".into());
                }
                // merged duplicate: select the same (argument-less, alias-less) field twice
                if alias.is_none() && composite && rng.chance(1, 6) {
                    let sel2 = self.gen_selset(rng, &target, depth + 1, pool);
                    self.features.insert("merged-composite-field".into());
                    sels.push(Sel::Field { alias: None, name: f.name.clone(), name_pos: P::default(), args: vec![], dirs: vec![], sel: Some(sel2) });
                }
                sels.push(Sel::Field { alias, name: f.name.clone(), name_pos: P::default(), args, dirs, sel });
            }
        }
        if sels.is_empty() {
            sels.push(Sel::field("__typename"));
        }
        sels
    }

    fn gen_fragment(&mut self, rng: &mut Rng, on: &str, depth: usize) -> String {
        // reuse an existing fragment on the same type sometimes
        let existing: Vec<String> = self.frags.iter().filter(|f| f.cond == on).map(|f| f.name.clone()).collect();
        if !existing.is_empty() && rng.coin() {
            self.features.insert("fragment-reused".into());
            return existing[rng.below(existing.len())].clone();
        }
        self.frag_counter += 1;
        let name = format!("F{}", self.frag_counter);
        let mut pool = VarPool::default();
        let sel = self.gen_selset(rng, on, depth, &mut pool);
        let mut dirs = vec![];
        if self.cfg.directives && self.schema.directive_defs().any(|d| d.name == "tag") && rng.chance(1, 10) {
            dirs.push(Dir::new("tag", vec![]));
        }
        self.frag_vars.insert(name.clone(), pool);
        self.frags.push(FragDef { name: name.clone(), name_pos: P::default(), cond: on.to_string(), cond_pos: P::default(), dirs, sel, pos: P::default() });
        name
    }

    pub fn gen_operation(&mut self, rng: &mut Rng, kind: OpKind, name: Option<String>) -> OpDef {
        let root = self.schema.root(kind).expect("root type").to_string();
        let mut pool = VarPool::default();
        let mut sel = vec![];
        if kind != OpKind::Subscription {
            sel = self.gen_selset(rng, &root, 0, &mut pool);
        } else {
            // exactly one root field, no conditions, not __typename
            let fields = self.fields_of(&root);
            let f = fields[rng.below(fields.len())].clone();
            let target = f.ty.unwrapped().to_string();
            let args = self.gen_args(rng, &f.args, &mut pool);
            let sub = if self.schema.is_composite(&target) { Some(self.gen_selset(rng, &target, 1, &mut pool)) } else { None };
            let alias = if rng.chance(1, 3) {
                self.alias_counter += 1;
                self.features.insert("subscription:aliased-root".into());
                Some((format!("s{}", self.alias_counter), P::default()))
            } else {
                None
            };
            let one = Sel::Field { alias, name: f.name.clone(), name_pos: P::default(), args, dirs: vec![], sel: sub };
            sel = vec![one.clone()];
            // the same response key selected again (directly or through an inline fragment on the root type)
            // is still ONE root field (spec 5.2.3.1 counts the collected fields)
            if rng.chance(1, 3) {
                self.features.insert("subscription:repeated-root-field".into());
                if rng.coin() {
                    sel.push(one);
                } else {
                    sel.push(Sel::Inline { cond: Some((root.clone(), P::default())), dirs: vec![], sel: vec![one], pos: P::default() });
                }
            }
        }
        let mut dirs = vec![];
        if self.cfg.directives && self.schema.directive_defs().any(|d| d.name == "tag") && rng.chance(1, 8) {
            dirs.push(Dir::new("tag", vec![Arg::new("label", Val::Str("op".into(), P::default()))]));
        }
        // keep only variables that are really used (directly or through fragments)
        let used = self.used_vars(&sel);
        let vars: Vec<VarDef> = pool.vars.into_iter().filter(|v| used.contains(&v.name)).collect();
        if !vars.is_empty() {
            self.features.insert("variables".into());
        }
        OpDef { kind, name: name.map(|n| (n, P::default())), vars, dirs, sel, pos: P::default(), shorthand: false }
    }

    fn used_vars(&self, sel: &[Sel]) -> BTreeSet<String> {
        let mut out = BTreeSet::new();
        let mut seen = BTreeSet::new();
        self.used_vars_rec(sel, &mut out, &mut seen);
        out
    }
    fn used_vars_rec(&self, sel: &[Sel], out: &mut BTreeSet<String>, seen: &mut BTreeSet<String>) {
        let mut dir_vars = |dirs: &[Dir], out: &mut BTreeSet<String>| {
            for d in dirs {
                for a in &d.args {
                    let mut v = vec![];
                    a.value.vars(&mut v);
                    out.extend(v);
                }
            }
        };
        for s in sel {
            match s {
                Sel::Field { args, dirs, sel, .. } => {
                    for a in args {
                        let mut v = vec![];
                        a.value.vars(&mut v);
                        out.extend(v);
                    }
                    dir_vars(dirs, out);
                    if let Some(ss) = sel {
                        self.used_vars_rec(ss, out, seen);
                    }
                }
                Sel::Spread { name, dirs, .. } => {
                    dir_vars(dirs, out);
                    if seen.insert(name.clone()) {
                        if let Some(f) = self.frags.iter().find(|f| &f.name == name) {
                            self.used_vars_rec(&f.sel, out, seen);
                        }
                    }
                }
                Sel::Inline { dirs, sel, .. } => {
                    dir_vars(dirs, out);
                    self.used_vars_rec(sel, out, seen);
                }
            }
        }
    }
}

/// a whole valid document: 1–3 operations (unique names; a lone anonymous one sometimes) + the fragments they use
pub fn gen_doc(rng: &mut Rng, schema: &SchemaModel, cfg: &GenCfg) -> (Doc, BTreeSet<String>) {
    let mut g = DocGen::new(schema, cfg);
    let mut ops = vec![];
    let n_ops = 1 + rng.below(3);
    let anonymous = n_ops == 1 && rng.chance(1, 4);
    for i in 0..n_ops {
        let mut kinds = vec![OpKind::Query];
        if schema.mutation.is_some() {
            kinds.push(OpKind::Mutation);
        }
        if schema.subscription.is_some() {
            kinds.push(OpKind::Subscription);
        }
        let kind = kinds[rng.below(kinds.len()).min(rng.below(kinds.len()))];
        let name = if anonymous { None } else { Some(format!("{}{}", ["GetThings", "doIt", "Watch"][i], i)) };
        ops.push(g.gen_operation(rng, kind, name));
    }
    let mut defs: Vec<ExecDef> = ops.into_iter().map(ExecDef::Op).collect();
    for f in g.frags.iter().cloned() {
        let at = rng.below(defs.len() + 1);
        defs.insert(at, ExecDef::Frag(f));
    }
    let mut features = g.features;
    features.insert(format!("ops:{}", n_ops));
    if anonymous {
        features.insert("anonymous-operation".into());
    }
    (Doc { defs }, features)
}

// ---------------------------------------------------------------------------------------------
// configuration texts

#[derive(Clone, Debug, PartialEq, Eq)]
pub enum ScalarCfg {
    Single(String),
    SendReceive { send: String, receive: String },
    Separate { resolver_output: String, resolver_input: String, operation_output: String, operation_input: String },
}

#[derive(Clone, Debug)]
pub struct ProjectCfg {
    pub mode: &'static str,
    pub scalars: Vec<(String, ScalarCfg)>,
    pub allow_undefined_as_optional_input: Option<bool>,
    pub emit_schema_runtime: bool,
    /// extra lines under `extensions.nitrogql.generate` (already indented by 6 spaces)
    pub extra_generate_lines: Vec<String>,
}

pub const MODES: [&str; 3] = ["with-loader-ts-5.0", "with-loader-ts-4.0", "standalone-ts-4.0"];

/// scalar mapping for the custom scalars of a schema; `clash` makes a mapping mention an identifier that is
/// also the name of a schema type (the name-clash situation of the schema declaration file)
pub fn gen_project_cfg(rng: &mut Rng, schema: &SchemaModel, clash: bool) -> ProjectCfg {
    let texts = ["string", "number", "string | number", "Date", "bigint", "unknown", "Record<string, unknown>", "{ readonly raw: string }"];
    let mut scalars = vec![];
    for t in schema.types().filter(|t| t.kind == TypeKind::Scalar) {
        let mut pick = |rng: &mut Rng| -> String {
            if clash && rng.chance(1, 3) {
                // an identifier equal to some schema type name
                let names: Vec<&TypeDef> = schema.types().collect();
                return names[rng.below(names.len())].name.clone();
            }
            texts[rng.below(texts.len())].to_string()
        };
        let c = match rng.below(4) {
            0 | 1 => ScalarCfg::Single(pick(rng)),
            2 => ScalarCfg::SendReceive { send: pick(rng), receive: pick(rng) },
            _ => ScalarCfg::Separate { resolver_output: pick(rng), resolver_input: pick(rng), operation_output: pick(rng), operation_input: pick(rng) },
        };
        scalars.push((t.name.clone(), c));
    }
    // sometimes also remap a built-in scalar
    if rng.chance(1, 4) {
        scalars.push(("ID".into(), ScalarCfg::Single("string".into())));
    }
    ProjectCfg {
        mode: MODES[rng.below(3)],
        scalars,
        allow_undefined_as_optional_input: match rng.below(3) {
            0 => None,
            1 => Some(true),
            _ => Some(false),
        },
        emit_schema_runtime: false,
        extra_generate_lines: vec![],
    }
}

fn yaml_str(s: &str) -> String {
    format!("\"{}\"", s.replace('\\', "\\\\").replace('"', "\\\""))
}

impl ProjectCfg {
    /// `graphql.config.yaml` text; `schema`/`documents` globs are relative to the project directory
    pub fn yaml(&self, schema_glob: &str, documents_glob: &str, outputs: &[(&str, &str)]) -> String {
        let mut s = String::new();
        s.push_str(&format!("schema: {}\n", yaml_str(schema_glob)));
        s.push_str(&format!("documents: {}\n", yaml_str(documents_glob)));
        s.push_str("extensions:\n  nitrogql:\n    generate:\n");
        s.push_str(&format!("      mode: {}\n", self.mode));
        for (k, v) in outputs {
            s.push_str(&format!("      {k}: {}\n", yaml_str(v)));
        }
        if self.emit_schema_runtime {
            s.push_str("      emitSchemaRuntime: true\n");
        }
        for l in &self.extra_generate_lines {
            s.push_str(l);
            s.push('\n');
        }
        if !self.scalars.is_empty() || self.allow_undefined_as_optional_input.is_some() {
            s.push_str("      type:\n");
            if let Some(b) = self.allow_undefined_as_optional_input {
                s.push_str(&format!("        allowUndefinedAsOptionalInput: {b}\n"));
            }
            if !self.scalars.is_empty() {
                s.push_str("        scalarTypes:\n");
                for (n, c) in &self.scalars {
                    match c {
                        ScalarCfg::Single(t) => s.push_str(&format!("          {n}: {}\n", yaml_str(t))),
                        ScalarCfg::SendReceive { send, receive } => {
                            s.push_str(&format!("          {n}:\n            send: {}\n            receive: {}\n", yaml_str(send), yaml_str(receive)))
                        }
                        ScalarCfg::Separate { resolver_output, resolver_input, operation_output, operation_input } => s.push_str(&format!(
                            "          {n}:\n            resolverOutput: {}\n            resolverInput: {}\n            operationOutput: {}\n            operationInput: {}\n",
                            yaml_str(resolver_output),
                            yaml_str(resolver_input),
                            yaml_str(operation_output),
                            yaml_str(operation_input)
                        )),
                    }
                }
            }
        }
        s
    }
    pub fn to_sexp(&self) -> crate::sexp::Sexp {
        use crate::sexp::Sexp;
        let sc = self
            .scalars
            .iter()
            .map(|(n, c)| {
                let (ro, ri, oo, oi) = match c {
                    ScalarCfg::Single(t) => (t.clone(), t.clone(), t.clone(), t.clone()),
                    ScalarCfg::SendReceive { send, receive } => (send.clone(), receive.clone(), receive.clone(), send.clone()),
                    ScalarCfg::Separate { resolver_output, resolver_input, operation_output, operation_input } => {
                        (resolver_output.clone(), resolver_input.clone(), operation_output.clone(), operation_input.clone())
                    }
                };
                Sexp::call("scalar", vec![Sexp::str(n.as_str()), Sexp::str(ro), Sexp::str(ri), Sexp::str(oo), Sexp::str(oi)])
            })
            .collect();
        Sexp::call(
            "cfg",
            vec![
                Sexp::call("mode", vec![Sexp::str(self.mode)]),
                Sexp::call("scalars", sc),
                Sexp::call("allowUndefinedAsOptionalInput", vec![Sexp::bool(self.allow_undefined_as_optional_input.unwrap_or(true))]),
            ],
        )
    }
}
