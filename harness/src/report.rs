//! Command line of a property harness binary and the JSON result it hands to `./check`.
//!
//!   <bin> --tier quick|thorough --seed N --driver PATH --out FILE [--replay FILE] [--scratch DIR]
//!
//! The result file lists per-stream counters, the input distribution, samples, and failures.
//! A failure has a stream (`K` model-vs-code, `O` spec-vs-code), a *signature* (stable class computed
//! from the shrunk case, matched against /verif/known-findings.txt by `./check`), a human
//! description, and a self-contained replay case.
use serde_json::{json, Map, Value};
use std::collections::BTreeMap;

#[derive(Clone, Debug)]
pub struct Args {
    pub tier: String,
    pub seed: u64,
    pub driver: String,
    pub out: String,
    pub replay: Option<String>,
    pub scratch: String,
    pub extra: BTreeMap<String, String>,
}

impl Args {
    pub fn parse() -> Args {
        let mut a = Args {
            tier: "quick".into(),
            seed: 0,
            driver: String::new(),
            out: String::new(),
            replay: None,
            scratch: String::new(),
            extra: BTreeMap::new(),
        };
        let argv: Vec<String> = std::env::args().collect();
        let mut i = 1;
        while i < argv.len() {
            let k = argv[i].as_str();
            let v = argv.get(i + 1).cloned().unwrap_or_default();
            match k {
                "--tier" => a.tier = v,
                "--seed" => a.seed = v.parse().unwrap_or(0),
                "--driver" => a.driver = v,
                "--out" => a.out = v,
                "--replay" => a.replay = Some(v),
                "--scratch" => a.scratch = v,
                _ => {
                    a.extra.insert(k.trim_start_matches("--").to_string(), v);
                }
            }
            i += 2;
        }
        a
    }
    pub fn thorough(&self) -> bool {
        self.tier == "thorough"
    }
    /// pick a budget by tier
    pub fn budget(&self, quick: usize, thorough: usize) -> usize {
        if self.thorough() { thorough } else { quick }
    }
}

#[derive(Clone, Debug)]
pub struct Failure {
    pub stream: String,
    pub signature: String,
    pub what: String,
    pub case: Value,
}

#[derive(Default)]
pub struct Report {
    pub property: String,
    pub k_cases: u64,
    pub o_cases: u64,
    pub nontrivial: std::collections::BTreeSet<u64>,
    pub evaluations: u64,
    pub dist: BTreeMap<String, u64>,
    pub samples: Vec<Value>,
    pub failures: Vec<Failure>,
    pub rule: String,
    pub exhaustive: bool,
    pub notes: Vec<String>,
    pub extra: Map<String, Value>,
}

impl Report {
    pub fn new(property: &str, rule: &str) -> Report {
        Report { property: property.into(), rule: rule.into(), ..Default::default() }
    }
    pub fn count(&mut self, key: &str) {
        *self.dist.entry(key.to_string()).or_insert(0) += 1;
    }
    pub fn count_n(&mut self, key: &str, n: u64) {
        *self.dist.entry(key.to_string()).or_insert(0) += n;
    }
    /// register a distinct non-trivial case by a hash of its canonical text
    pub fn nontrivial(&mut self, canonical: &str) {
        self.nontrivial.insert(fnv(canonical));
    }
    pub fn sample(&mut self, v: Value) {
        if self.samples.len() < 6 {
            self.samples.push(v);
        }
    }
    pub fn fail(&mut self, stream: &str, signature: &str, what: &str, case: Value) {
        // keep one (the first = corpus/smallest) failure per signature and stream, count the rest
        self.count(&format!("fail:{stream}:{signature}"));
        if !self.failures.iter().any(|f| f.stream == stream && f.signature == signature) {
            self.failures.push(Failure {
                stream: stream.into(),
                signature: signature.into(),
                what: what.into(),
                case,
            });
        }
    }
    pub fn write(&self, args: &Args) {
        let v = json!({
            "property": self.property,
            "tier": args.tier,
            "seed": args.seed,
            "k_cases": self.k_cases,
            "o_cases": self.o_cases,
            "evaluations": self.evaluations,
            "distinct_nontrivial": self.nontrivial.len(),
            "rule": self.rule,
            "exhaustive": self.exhaustive,
            "distribution": self.dist,
            "samples": self.samples,
            "notes": self.notes,
            "extra": self.extra,
            "failures": self.failures.iter().map(|f| json!({
                "stream": f.stream, "signature": f.signature, "what": f.what, "case": f.case
            })).collect::<Vec<_>>(),
        });
        let text = serde_json::to_string_pretty(&v).unwrap();
        if args.out.is_empty() {
            println!("{text}");
        } else {
            std::fs::write(&args.out, text).expect("write result file");
        }
    }
}

pub fn fnv(s: &str) -> u64 {
    let mut h: u64 = 0xcbf29ce484222325;
    for b in s.as_bytes() {
        h ^= *b as u64;
        h = h.wrapping_mul(0x100000001b3);
    }
    h
}
