//! `gm` — the harness' own GraphQL model (abstract documents), mirroring lean/NitroVerif/Gql/Ast.lean:
//!   * `to_sexp` — wire format for the Lean drivers (see lean/NitroVerif/Gql/Codec.lean for the grammar)
//!   * `from_real_*` — conversion of the REAL nitrogql AST (crates/ast) into the model, positions included
//!   * `render` — canonical text rendering (positions of the rendered tokens are recorded into the model)
//! Positions: `P { line, col, known }`; unknown positions encode as `(p)`.
use crate::sexp::Sexp;
use nitrogql_ast::{
    base::{Ident, Pos},
    directive::Directive as RDirective,
    operation::{ExecutableDefinition, FragmentDefinition, OperationDefinition, OperationType},
    operation_ext::{ExecutableDefinitionExt, ImportTarget},
    r#type::Type as RType,
    selection_set::{Selection as RSelection, SelectionSet},
    type_system as rts,
    value::{Arguments, Value as RValue},
    variable::VariableDefinition,
    OperationDocument, OperationDocumentExt, TypeSystemDocument, TypeSystemOrExtensionDocument,
};

#[derive(Clone, Copy, Debug, Default, PartialEq, Eq, Hash)]
pub struct P {
    pub line: usize,
    pub col: usize,
    pub file: usize,
    pub builtin: bool,
    pub known: bool,
}

impl P {
    pub fn at(line: usize, col: usize) -> P {
        P { line, col, file: 0, builtin: false, known: true }
    }
    pub fn from_real(p: &Pos) -> P {
        P { line: p.line, col: p.column, file: p.file, builtin: p.builtin, known: true }
    }
    pub fn to_sexp(&self) -> Sexp {
        if !self.known {
            Sexp::call("p", vec![])
        } else if self.builtin {
            Sexp::call("pb", vec![])
        } else if self.file == 0 {
            Sexp::call("p", vec![Sexp::int(self.line as i128), Sexp::int(self.col as i128)])
        } else {
            Sexp::call("p", vec![Sexp::int(self.line as i128), Sexp::int(self.col as i128), Sexp::int(self.file as i128)])
        }
    }
}

/// replace every position by `(p)` — for comparisons "modulo positions"
pub fn strip_pos(s: &Sexp) -> Sexp {
    match s {
        Sexp::List(v) => {
            if let Some(Sexp::Atom(h)) = v.first() {
                if (h == "p" || h == "pb") && v.iter().skip(1).all(|x| x.as_atom().is_some()) {
                    return Sexp::call("p", vec![]);
                }
            }
            Sexp::List(v.iter().map(strip_pos).collect())
        }
        x => x.clone(),
    }
}

#[derive(Clone, Debug, PartialEq, Eq, Hash)]
pub enum Ty {
    Named(String, P),
    List(Box<Ty>, P),
    NonNull(Box<Ty>),
}

impl Ty {
    pub fn named(n: &str) -> Ty {
        Ty::Named(n.to_string(), P::default())
    }
    pub fn list(t: Ty) -> Ty {
        Ty::List(Box::new(t), P::default())
    }
    pub fn non_null(t: Ty) -> Ty {
        Ty::NonNull(Box::new(t))
    }
    pub fn unwrapped(&self) -> &str {
        match self {
            Ty::Named(n, _) => n,
            Ty::List(t, _) => t.unwrapped(),
            Ty::NonNull(t) => t.unwrapped(),
        }
    }
    pub fn is_non_null(&self) -> bool {
        matches!(self, Ty::NonNull(_))
    }
    pub fn text(&self) -> String {
        match self {
            Ty::Named(n, _) => n.clone(),
            Ty::List(t, _) => format!("[{}]", t.text()),
            Ty::NonNull(t) => format!("{}!", t.text()),
        }
    }
    pub fn to_sexp(&self) -> Sexp {
        match self {
            Ty::Named(n, p) => Sexp::call("named", vec![Sexp::str(n.as_str()), p.to_sexp()]),
            Ty::List(t, p) => Sexp::call("list", vec![t.to_sexp(), p.to_sexp()]),
            Ty::NonNull(t) => Sexp::call("nonnull", vec![t.to_sexp()]),
        }
    }
}

#[derive(Clone, Debug, PartialEq, Eq, Hash)]
pub enum Val {
    Var(String, P),
    Int(String, P),
    Float(String, P),
    Str(String, P),
    Bool(bool, P),
    Null(P),
    Enum(String, P),
    List(Vec<Val>, P),
    Obj(Vec<Arg>, P),
}

#[derive(Clone, Debug, PartialEq, Eq, Hash)]
pub struct Arg {
    pub name: String,
    pub pos: P,
    pub value: Val,
}

impl Arg {
    pub fn new(name: &str, value: Val) -> Arg {
        Arg { name: name.to_string(), pos: P::default(), value }
    }
    pub fn to_sexp(&self) -> Sexp {
        Sexp::call("arg", vec![Sexp::str(self.name.as_str()), self.pos.to_sexp(), self.value.to_sexp()])
    }
}

impl Val {
    pub fn to_sexp(&self) -> Sexp {
        match self {
            Val::Var(n, p) => Sexp::call("var", vec![Sexp::str(n.as_str()), p.to_sexp()]),
            Val::Int(n, p) => Sexp::call("int", vec![Sexp::str(n.as_str()), p.to_sexp()]),
            Val::Float(n, p) => Sexp::call("float", vec![Sexp::str(n.as_str()), p.to_sexp()]),
            Val::Str(n, p) => Sexp::call("str", vec![Sexp::str(n.as_str()), p.to_sexp()]),
            Val::Bool(b, p) => Sexp::call("bool", vec![Sexp::bool(*b), p.to_sexp()]),
            Val::Null(p) => Sexp::call("null", vec![p.to_sexp()]),
            Val::Enum(n, p) => Sexp::call("enum", vec![Sexp::str(n.as_str()), p.to_sexp()]),
            Val::List(vs, p) => Sexp::call("list", vec![Sexp::list(vs.iter().map(|v| v.to_sexp()).collect()), p.to_sexp()]),
            Val::Obj(fs, p) => Sexp::call("obj", vec![Sexp::list(fs.iter().map(|a| a.to_sexp()).collect()), p.to_sexp()]),
        }
    }
    pub fn vars(&self, out: &mut Vec<String>) {
        match self {
            Val::Var(n, _) => out.push(n.clone()),
            Val::List(vs, _) => vs.iter().for_each(|v| v.vars(out)),
            Val::Obj(fs, _) => fs.iter().for_each(|a| a.value.vars(out)),
            _ => {}
        }
    }
}

#[derive(Clone, Debug, PartialEq, Eq, Hash)]
pub struct Dir {
    pub name: String,
    pub name_pos: P,
    pub args: Vec<Arg>,
    pub pos: P,
}

impl Dir {
    pub fn new(name: &str, args: Vec<Arg>) -> Dir {
        Dir { name: name.to_string(), name_pos: P::default(), args, pos: P::default() }
    }
    pub fn to_sexp(&self) -> Sexp {
        Sexp::call("dir", vec![Sexp::str(self.name.as_str()), self.name_pos.to_sexp(), args_sexp(&self.args), self.pos.to_sexp()])
    }
}

fn args_sexp(a: &[Arg]) -> Sexp {
    Sexp::list(a.iter().map(|x| x.to_sexp()).collect())
}
fn dirs_sexp(d: &[Dir]) -> Sexp {
    Sexp::list(d.iter().map(|x| x.to_sexp()).collect())
}
fn opt_name(tag: &str, none: &str, v: &Option<(String, P)>) -> Sexp {
    match v {
        Some((n, p)) => Sexp::call(tag, vec![Sexp::str(n.as_str()), p.to_sexp()]),
        None => Sexp::call(none, vec![]),
    }
}

#[derive(Clone, Debug, PartialEq, Eq, Hash)]
pub enum Sel {
    Field { alias: Option<(String, P)>, name: String, name_pos: P, args: Vec<Arg>, dirs: Vec<Dir>, sel: Option<Vec<Sel>> },
    Spread { name: String, name_pos: P, dirs: Vec<Dir>, pos: P },
    Inline { cond: Option<(String, P)>, dirs: Vec<Dir>, sel: Vec<Sel>, pos: P },
}

impl Sel {
    pub fn field(name: &str) -> Sel {
        Sel::Field { alias: None, name: name.to_string(), name_pos: P::default(), args: vec![], dirs: vec![], sel: None }
    }
    pub fn to_sexp(&self) -> Sexp {
        match self {
            Sel::Field { alias, name, name_pos, args, dirs, sel } => Sexp::call(
                "field",
                vec![
                    opt_name("alias", "noalias", alias),
                    Sexp::str(name.as_str()),
                    name_pos.to_sexp(),
                    args_sexp(args),
                    dirs_sexp(dirs),
                    match sel {
                        Some(ss) => Sexp::call("sel", ss.iter().map(|s| s.to_sexp()).collect()),
                        None => Sexp::call("nosel", vec![]),
                    },
                ],
            ),
            Sel::Spread { name, name_pos, dirs, pos } => {
                Sexp::call("spread", vec![Sexp::str(name.as_str()), name_pos.to_sexp(), dirs_sexp(dirs), pos.to_sexp()])
            }
            Sel::Inline { cond, dirs, sel, pos } => Sexp::call(
                "inline",
                vec![opt_name("on", "noon", cond), dirs_sexp(dirs), Sexp::list(sel.iter().map(|s| s.to_sexp()).collect()), pos.to_sexp()],
            ),
        }
    }
    pub fn response_key(&self) -> Option<&str> {
        match self {
            Sel::Field { alias: Some((a, _)), .. } => Some(a),
            Sel::Field { name, .. } => Some(name),
            _ => None,
        }
    }
}

#[derive(Clone, Copy, Debug, PartialEq, Eq, Hash)]
pub enum OpKind {
    Query,
    Mutation,
    Subscription,
}

impl OpKind {
    pub fn as_str(&self) -> &'static str {
        match self {
            OpKind::Query => "query",
            OpKind::Mutation => "mutation",
            OpKind::Subscription => "subscription",
        }
    }
    pub fn from_real(k: OperationType) -> OpKind {
        match k {
            OperationType::Query => OpKind::Query,
            OperationType::Mutation => OpKind::Mutation,
            OperationType::Subscription => OpKind::Subscription,
        }
    }
}

#[derive(Clone, Debug, PartialEq, Eq, Hash)]
pub struct VarDef {
    pub name: String,
    pub pos: P,
    pub ty: Ty,
    pub default: Option<Val>,
    pub dirs: Vec<Dir>,
}

fn opt_val(v: &Option<Val>) -> Sexp {
    match v {
        Some(v) => Sexp::call("default", vec![v.to_sexp()]),
        None => Sexp::call("nodefault", vec![]),
    }
}

impl VarDef {
    pub fn to_sexp(&self) -> Sexp {
        Sexp::call("vardef", vec![Sexp::str(self.name.as_str()), self.pos.to_sexp(), self.ty.to_sexp(), opt_val(&self.default), dirs_sexp(&self.dirs)])
    }
}

#[derive(Clone, Debug, PartialEq, Eq, Hash)]
pub struct OpDef {
    pub kind: OpKind,
    pub name: Option<(String, P)>,
    pub vars: Vec<VarDef>,
    pub dirs: Vec<Dir>,
    pub sel: Vec<Sel>,
    pub pos: P,
    /// rendered with the anonymous-query shorthand `{ … }`
    pub shorthand: bool,
}

#[derive(Clone, Debug, PartialEq, Eq, Hash)]
pub struct FragDef {
    pub name: String,
    pub name_pos: P,
    pub cond: String,
    pub cond_pos: P,
    pub dirs: Vec<Dir>,
    pub sel: Vec<Sel>,
    pub pos: P,
}

#[derive(Clone, Debug, PartialEq, Eq, Hash)]
pub struct ImportDef {
    /// None = wildcard
    pub targets: Vec<Option<(String, P)>>,
    pub path: String,
    pub pos: P,
}

#[derive(Clone, Debug, PartialEq, Eq, Hash)]
pub enum ExecDef {
    Op(OpDef),
    Frag(FragDef),
    Import(ImportDef),
}

impl ExecDef {
    pub fn to_sexp(&self) -> Sexp {
        match self {
            ExecDef::Op(o) => Sexp::call(
                "op",
                vec![
                    Sexp::atom(o.kind.as_str()),
                    opt_name("name", "noname", &o.name),
                    Sexp::list(o.vars.iter().map(|v| v.to_sexp()).collect()),
                    dirs_sexp(&o.dirs),
                    Sexp::list(o.sel.iter().map(|s| s.to_sexp()).collect()),
                    o.pos.to_sexp(),
                ],
            ),
            ExecDef::Frag(f) => Sexp::call(
                "frag",
                vec![
                    Sexp::str(f.name.as_str()),
                    f.name_pos.to_sexp(),
                    Sexp::str(f.cond.as_str()),
                    f.cond_pos.to_sexp(),
                    dirs_sexp(&f.dirs),
                    Sexp::list(f.sel.iter().map(|s| s.to_sexp()).collect()),
                    f.pos.to_sexp(),
                ],
            ),
            ExecDef::Import(i) => Sexp::call(
                "import",
                vec![
                    Sexp::list(i.targets.iter().map(|t| opt_name("target", "wildcard", t)).collect()),
                    Sexp::str(i.path.as_str()),
                    i.pos.to_sexp(),
                ],
            ),
        }
    }
    pub fn name(&self) -> Option<&str> {
        match self {
            ExecDef::Op(o) => o.name.as_ref().map(|x| x.0.as_str()),
            ExecDef::Frag(f) => Some(&f.name),
            ExecDef::Import(_) => None,
        }
    }
}

#[derive(Clone, Debug, Default, PartialEq, Eq, Hash)]
pub struct Doc {
    pub defs: Vec<ExecDef>,
}

impl Doc {
    pub fn to_sexp(&self) -> Sexp {
        Sexp::call("doc", self.defs.iter().map(|d| d.to_sexp()).collect())
    }
}

// ---------------------------------------------------------------------------------------------
// type system

#[derive(Clone, Debug, PartialEq, Eq, Hash)]
pub struct InputValueDef {
    pub desc: Option<String>,
    pub name: String,
    pub pos: P,
    pub ty: Ty,
    pub default: Option<Val>,
    pub dirs: Vec<Dir>,
}

#[derive(Clone, Debug, PartialEq, Eq, Hash)]
pub struct FieldDef {
    pub desc: Option<String>,
    pub name: String,
    pub pos: P,
    pub args: Vec<InputValueDef>,
    pub ty: Ty,
    pub dirs: Vec<Dir>,
}

#[derive(Clone, Debug, PartialEq, Eq, Hash)]
pub struct EnumValueDef {
    pub desc: Option<String>,
    pub name: String,
    pub pos: P,
    pub dirs: Vec<Dir>,
}

#[derive(Clone, Copy, Debug, PartialEq, Eq, Hash, PartialOrd, Ord)]
pub enum TypeKind {
    Scalar,
    Object,
    Interface,
    Union,
    Enum,
    Input,
}

impl TypeKind {
    pub fn as_str(&self) -> &'static str {
        match self {
            TypeKind::Scalar => "scalar",
            TypeKind::Object => "object",
            TypeKind::Interface => "interface",
            TypeKind::Union => "union",
            TypeKind::Enum => "enum",
            TypeKind::Input => "input",
        }
    }
    /// SDL keyword
    pub fn keyword(&self) -> &'static str {
        match self {
            TypeKind::Scalar => "scalar",
            TypeKind::Object => "type",
            TypeKind::Interface => "interface",
            TypeKind::Union => "union",
            TypeKind::Enum => "enum",
            TypeKind::Input => "input",
        }
    }
}

#[derive(Clone, Debug, PartialEq, Eq, Hash)]
pub struct TypeDef {
    pub kind: TypeKind,
    pub desc: Option<String>,
    pub name: String,
    pub name_pos: P,
    pub implements: Vec<(String, P)>,
    pub dirs: Vec<Dir>,
    pub fields: Vec<FieldDef>,
    pub members: Vec<(String, P)>,
    pub values: Vec<EnumValueDef>,
    pub inputs: Vec<InputValueDef>,
    pub pos: P,
}

impl TypeDef {
    pub fn new(kind: TypeKind, name: &str) -> TypeDef {
        TypeDef {
            kind,
            desc: None,
            name: name.to_string(),
            name_pos: P::default(),
            implements: vec![],
            dirs: vec![],
            fields: vec![],
            members: vec![],
            values: vec![],
            inputs: vec![],
            pos: P::default(),
        }
    }
}

#[derive(Clone, Debug, PartialEq, Eq, Hash)]
pub struct DirectiveDef {
    pub desc: Option<String>,
    pub name: String,
    pub name_pos: P,
    pub args: Vec<InputValueDef>,
    pub repeatable: bool,
    pub locations: Vec<String>,
    pub pos: P,
}

#[derive(Clone, Debug, Default, PartialEq, Eq, Hash)]
pub struct SchemaDef {
    pub desc: Option<String>,
    pub dirs: Vec<Dir>,
    pub roots: Vec<(OpKind, String, P)>,
    pub pos: P,
}

#[derive(Clone, Debug, PartialEq, Eq, Hash)]
pub enum TsItem {
    SchemaDef(SchemaDef),
    TypeDef(TypeDef),
    DirectiveDef(DirectiveDef),
    SchemaExt(SchemaDef),
    TypeExt(TypeDef),
}

fn desc_sexp(d: &Option<String>) -> Sexp {
    match d {
        Some(s) => Sexp::call("desc", vec![Sexp::str(s.as_str())]),
        None => Sexp::call("nodesc", vec![]),
    }
}
fn names_sexp(v: &[(String, P)]) -> Sexp {
    Sexp::list(v.iter().map(|(n, p)| Sexp::list(vec![Sexp::str(n.as_str()), p.to_sexp()])).collect())
}

impl InputValueDef {
    pub fn to_sexp(&self) -> Sexp {
        Sexp::call(
            "ivdef",
            vec![desc_sexp(&self.desc), Sexp::str(self.name.as_str()), self.pos.to_sexp(), self.ty.to_sexp(), opt_val(&self.default), dirs_sexp(&self.dirs)],
        )
    }
}
impl FieldDef {
    pub fn to_sexp(&self) -> Sexp {
        Sexp::call(
            "fdef",
            vec![
                desc_sexp(&self.desc),
                Sexp::str(self.name.as_str()),
                self.pos.to_sexp(),
                Sexp::list(self.args.iter().map(|a| a.to_sexp()).collect()),
                self.ty.to_sexp(),
                dirs_sexp(&self.dirs),
            ],
        )
    }
}
impl EnumValueDef {
    pub fn to_sexp(&self) -> Sexp {
        Sexp::call("evdef", vec![desc_sexp(&self.desc), Sexp::str(self.name.as_str()), self.pos.to_sexp(), dirs_sexp(&self.dirs)])
    }
}
impl TypeDef {
    fn body(&self) -> Vec<Sexp> {
        vec![
            Sexp::atom(self.kind.as_str()),
            desc_sexp(&self.desc),
            Sexp::str(self.name.as_str()),
            self.name_pos.to_sexp(),
            names_sexp(&self.implements),
            dirs_sexp(&self.dirs),
            Sexp::list(self.fields.iter().map(|f| f.to_sexp()).collect()),
            names_sexp(&self.members),
            Sexp::list(self.values.iter().map(|f| f.to_sexp()).collect()),
            Sexp::list(self.inputs.iter().map(|f| f.to_sexp()).collect()),
            self.pos.to_sexp(),
        ]
    }
}
impl SchemaDef {
    fn body(&self) -> Vec<Sexp> {
        vec![
            desc_sexp(&self.desc),
            dirs_sexp(&self.dirs),
            Sexp::list(
                self.roots.iter().map(|(k, n, p)| Sexp::call("root", vec![Sexp::atom(k.as_str()), Sexp::str(n.as_str()), p.to_sexp()])).collect(),
            ),
            self.pos.to_sexp(),
        ]
    }
}
impl TsItem {
    pub fn to_sexp(&self) -> Sexp {
        match self {
            TsItem::TypeDef(t) => Sexp::call("typedef", t.body()),
            TsItem::TypeExt(t) => Sexp::call("typeext", t.body()),
            TsItem::SchemaDef(s) => Sexp::call("schemadef", s.body()),
            TsItem::SchemaExt(s) => Sexp::call("schemaext", s.body()),
            TsItem::DirectiveDef(d) => Sexp::call(
                "dirdef",
                vec![
                    desc_sexp(&d.desc),
                    Sexp::str(d.name.as_str()),
                    d.name_pos.to_sexp(),
                    Sexp::list(d.args.iter().map(|a| a.to_sexp()).collect()),
                    Sexp::bool(d.repeatable),
                    Sexp::list(d.locations.iter().map(|l| Sexp::str(l.as_str())).collect()),
                    d.pos.to_sexp(),
                ],
            ),
        }
    }
    pub fn name(&self) -> Option<&str> {
        match self {
            TsItem::TypeDef(t) | TsItem::TypeExt(t) => Some(&t.name),
            TsItem::DirectiveDef(d) => Some(&d.name),
            _ => None,
        }
    }
}

#[derive(Clone, Debug, Default, PartialEq, Eq, Hash)]
pub struct TsDoc {
    pub items: Vec<TsItem>,
}

impl TsDoc {
    pub fn to_sexp(&self) -> Sexp {
        Sexp::call("tsdoc", self.items.iter().map(|d| d.to_sexp()).collect())
    }
    pub fn type_def(&self, name: &str) -> Option<&TypeDef> {
        self.items.iter().find_map(|i| match i {
            TsItem::TypeDef(t) if t.name == name => Some(t),
            _ => None,
        })
    }
}

// ---------------------------------------------------------------------------------------------
// conversion from the real AST

fn id(i: &Ident) -> (String, P) {
    (i.name.to_string(), P::from_real(&i.position))
}

pub fn from_real_type(t: &RType) -> Ty {
    match t {
        RType::Named(n) => Ty::Named(n.name.name.to_string(), P::from_real(&n.name.position)),
        RType::List(l) => Ty::List(Box::new(from_real_type(&l.r#type)), P::from_real(&l.position)),
        RType::NonNull(n) => Ty::NonNull(Box::new(from_real_type(&n.r#type))),
    }
}

pub fn from_real_value(v: &RValue) -> Val {
    match v {
        RValue::Variable(x) => Val::Var(x.name.to_string(), P::from_real(&x.position)),
        RValue::IntValue(x) => Val::Int(x.value.to_string(), P::from_real(&x.position)),
        RValue::FloatValue(x) => Val::Float(x.value.to_string(), P::from_real(&x.position)),
        RValue::StringValue(x) => Val::Str(x.value.clone(), P::from_real(&x.position)),
        RValue::BooleanValue(x) => Val::Bool(x.value, P::from_real(&x.position)),
        RValue::NullValue(x) => Val::Null(P::from_real(&x.position)),
        RValue::EnumValue(x) => Val::Enum(x.value.to_string(), P::from_real(&x.position)),
        RValue::ListValue(x) => Val::List(x.values.iter().map(from_real_value).collect(), P::from_real(&x.position)),
        RValue::ObjectValue(x) => Val::Obj(
            x.fields.iter().map(|(k, v)| Arg { name: k.name.to_string(), pos: P::from_real(&k.position), value: from_real_value(v) }).collect(),
            P::from_real(&x.position),
        ),
    }
}

fn from_real_args(a: &Option<Arguments>) -> Vec<Arg> {
    match a {
        None => vec![],
        Some(a) => a.arguments.iter().map(|(k, v)| Arg { name: k.name.to_string(), pos: P::from_real(&k.position), value: from_real_value(v) }).collect(),
    }
}

pub fn from_real_dirs(ds: &[RDirective]) -> Vec<Dir> {
    ds.iter()
        .map(|d| Dir { name: d.name.name.to_string(), name_pos: P::from_real(&d.name.position), args: from_real_args(&d.arguments), pos: P::from_real(&d.position) })
        .collect()
}

pub fn from_real_selset(ss: &SelectionSet) -> Vec<Sel> {
    ss.selections.iter().map(from_real_sel).collect()
}

pub fn from_real_sel(s: &RSelection) -> Sel {
    match s {
        RSelection::Field(f) => Sel::Field {
            alias: f.alias.as_ref().map(id),
            name: f.name.name.to_string(),
            name_pos: P::from_real(&f.name.position),
            args: from_real_args(&f.arguments),
            dirs: from_real_dirs(&f.directives),
            sel: f.selection_set.as_ref().map(from_real_selset),
        },
        RSelection::FragmentSpread(f) => Sel::Spread {
            name: f.fragment_name.name.to_string(),
            name_pos: P::from_real(&f.fragment_name.position),
            dirs: from_real_dirs(&f.directives),
            pos: P::from_real(&f.position),
        },
        RSelection::InlineFragment(f) => Sel::Inline {
            cond: f.type_condition.as_ref().map(id),
            dirs: from_real_dirs(&f.directives),
            sel: from_real_selset(&f.selection_set),
            pos: P::from_real(&f.position),
        },
    }
}

fn from_real_vardef(v: &VariableDefinition) -> VarDef {
    VarDef {
        name: v.name.name.to_string(),
        pos: P::from_real(&v.pos),
        ty: from_real_type(&v.r#type),
        default: v.default_value.as_ref().map(from_real_value),
        dirs: from_real_dirs(&v.directives),
    }
}

pub fn from_real_op(o: &OperationDefinition) -> OpDef {
    OpDef {
        kind: OpKind::from_real(o.operation_type),
        name: o.name.as_ref().map(id),
        vars: o.variables_definition.as_ref().map(|v| v.definitions.iter().map(from_real_vardef).collect()).unwrap_or_default(),
        dirs: from_real_dirs(&o.directives),
        sel: from_real_selset(&o.selection_set),
        pos: P::from_real(&o.position),
        shorthand: false,
    }
}

pub fn from_real_frag(f: &FragmentDefinition) -> FragDef {
    FragDef {
        name: f.name.name.to_string(),
        name_pos: P::from_real(&f.name.position),
        cond: f.type_condition.name.to_string(),
        cond_pos: P::from_real(&f.type_condition.position),
        dirs: from_real_dirs(&f.directives),
        sel: from_real_selset(&f.selection_set),
        pos: P::from_real(&f.position),
    }
}

pub fn from_real_doc_ext(d: &OperationDocumentExt) -> Doc {
    Doc {
        defs: d
            .definitions
            .iter()
            .map(|d| match d {
                ExecutableDefinitionExt::OperationDefinition(o) => ExecDef::Op(from_real_op(o)),
                ExecutableDefinitionExt::FragmentDefinition(f) => ExecDef::Frag(from_real_frag(f)),
                ExecutableDefinitionExt::Import(i) => ExecDef::Import(ImportDef {
                    targets: i
                        .targets
                        .iter()
                        .map(|t| match t {
                            ImportTarget::Wildcard => None,
                            ImportTarget::Name(n) => Some(id(n)),
                        })
                        .collect(),
                    path: i.path.value.clone(),
                    pos: P::from_real(&i.position),
                }),
            })
            .collect(),
    }
}

pub fn from_real_doc(d: &OperationDocument) -> Doc {
    Doc {
        defs: d
            .definitions
            .iter()
            .map(|d| match d {
                ExecutableDefinition::OperationDefinition(o) => ExecDef::Op(from_real_op(o)),
                ExecutableDefinition::FragmentDefinition(f) => ExecDef::Frag(from_real_frag(f)),
            })
            .collect(),
    }
}

fn desc(d: &Option<nitrogql_ast::value::StringValue>) -> Option<String> {
    d.as_ref().map(|s| s.value.clone())
}

fn from_real_ivdef(v: &rts::InputValueDefinition) -> InputValueDef {
    InputValueDef {
        desc: desc(&v.description),
        name: v.name.name.to_string(),
        pos: P::from_real(&v.position),
        ty: from_real_type(&v.r#type),
        default: v.default_value.as_ref().map(from_real_value),
        dirs: from_real_dirs(&v.directives),
    }
}

fn from_real_fdef(f: &rts::FieldDefinition) -> FieldDef {
    FieldDef {
        desc: desc(&f.description),
        name: f.name.name.to_string(),
        pos: P::from_real(&f.name.position),
        args: f.arguments.as_ref().map(|a| a.input_values.iter().map(from_real_ivdef).collect()).unwrap_or_default(),
        ty: from_real_type(&f.r#type),
        dirs: from_real_dirs(&f.directives),
    }
}

fn from_real_evdef(f: &rts::EnumValueDefinition) -> EnumValueDef {
    EnumValueDef { desc: desc(&f.description), name: f.name.name.to_string(), pos: P::from_real(&f.name.position), dirs: from_real_dirs(&f.directives) }
}

pub fn from_real_typedef(t: &rts::TypeDefinition) -> TypeDef {
    match t {
        rts::TypeDefinition::Scalar(d) => TypeDef {
            desc: desc(&d.description),
            name_pos: P::from_real(&d.name.position),
            dirs: from_real_dirs(&d.directives),
            pos: P::from_real(&d.position),
            ..TypeDef::new(TypeKind::Scalar, d.name.name)
        },
        rts::TypeDefinition::Object(d) => TypeDef {
            desc: desc(&d.description),
            name_pos: P::from_real(&d.name.position),
            implements: d.implements.iter().map(id).collect(),
            dirs: from_real_dirs(&d.directives),
            fields: d.fields.iter().map(from_real_fdef).collect(),
            pos: P::from_real(&d.position),
            ..TypeDef::new(TypeKind::Object, d.name.name)
        },
        rts::TypeDefinition::Interface(d) => TypeDef {
            desc: desc(&d.description),
            name_pos: P::from_real(&d.name.position),
            implements: d.implements.iter().map(id).collect(),
            dirs: from_real_dirs(&d.directives),
            fields: d.fields.iter().map(from_real_fdef).collect(),
            pos: P::from_real(&d.position),
            ..TypeDef::new(TypeKind::Interface, d.name.name)
        },
        rts::TypeDefinition::Union(d) => TypeDef {
            desc: desc(&d.description),
            name_pos: P::from_real(&d.name.position),
            dirs: from_real_dirs(&d.directives),
            members: d.members.iter().map(id).collect(),
            pos: P::from_real(&d.position),
            ..TypeDef::new(TypeKind::Union, d.name.name)
        },
        rts::TypeDefinition::Enum(d) => TypeDef {
            desc: desc(&d.description),
            name_pos: P::from_real(&d.name.position),
            dirs: from_real_dirs(&d.directives),
            values: d.values.iter().map(from_real_evdef).collect(),
            pos: P::from_real(&d.position),
            ..TypeDef::new(TypeKind::Enum, d.name.name)
        },
        rts::TypeDefinition::InputObject(d) => TypeDef {
            desc: desc(&d.description),
            name_pos: P::from_real(&d.name.position),
            dirs: from_real_dirs(&d.directives),
            inputs: d.fields.iter().map(from_real_ivdef).collect(),
            pos: P::from_real(&d.position),
            ..TypeDef::new(TypeKind::Input, d.name.name)
        },
    }
}

pub fn from_real_typeext(t: &rts::TypeExtension) -> TypeDef {
    match t {
        rts::TypeExtension::Scalar(d) => TypeDef {
            name_pos: P::from_real(&d.name.position),
            dirs: from_real_dirs(&d.directives),
            pos: P::from_real(&d.position),
            ..TypeDef::new(TypeKind::Scalar, d.name.name)
        },
        rts::TypeExtension::Object(d) => TypeDef {
            name_pos: P::from_real(&d.name.position),
            implements: d.implements.iter().map(id).collect(),
            dirs: from_real_dirs(&d.directives),
            fields: d.fields.iter().map(from_real_fdef).collect(),
            pos: P::from_real(&d.position),
            ..TypeDef::new(TypeKind::Object, d.name.name)
        },
        rts::TypeExtension::Interface(d) => TypeDef {
            name_pos: P::from_real(&d.name.position),
            implements: d.implements.iter().map(id).collect(),
            dirs: from_real_dirs(&d.directives),
            fields: d.fields.iter().map(from_real_fdef).collect(),
            pos: P::from_real(&d.position),
            ..TypeDef::new(TypeKind::Interface, d.name.name)
        },
        rts::TypeExtension::Union(d) => TypeDef {
            name_pos: P::from_real(&d.name.position),
            dirs: from_real_dirs(&d.directives),
            members: d.members.iter().map(id).collect(),
            pos: P::from_real(&d.position),
            ..TypeDef::new(TypeKind::Union, d.name.name)
        },
        rts::TypeExtension::Enum(d) => TypeDef {
            name_pos: P::from_real(&d.name.position),
            dirs: from_real_dirs(&d.directives),
            values: d.values.iter().map(from_real_evdef).collect(),
            pos: P::from_real(&d.position),
            ..TypeDef::new(TypeKind::Enum, d.name.name)
        },
        rts::TypeExtension::InputObject(d) => TypeDef {
            name_pos: P::from_real(&d.name.position),
            dirs: from_real_dirs(&d.directives),
            inputs: d.fields.iter().map(from_real_ivdef).collect(),
            pos: P::from_real(&d.position),
            ..TypeDef::new(TypeKind::Input, d.name.name)
        },
    }
}

fn from_real_schemadef(d: &rts::SchemaDefinition) -> SchemaDef {
    SchemaDef {
        desc: desc(&d.description),
        dirs: from_real_dirs(&d.directives),
        roots: d.definitions.iter().map(|(k, n)| (OpKind::from_real(*k), n.name.to_string(), P::from_real(&n.position))).collect(),
        pos: P::from_real(&d.position),
    }
}

fn from_real_dirdef(d: &rts::DirectiveDefinition) -> DirectiveDef {
    DirectiveDef {
        desc: desc(&d.description),
        name: d.name.name.to_string(),
        name_pos: P::from_real(&d.name.position),
        args: d.arguments.as_ref().map(|a| a.input_values.iter().map(from_real_ivdef).collect()).unwrap_or_default(),
        repeatable: d.repeatable.is_some(),
        locations: d.locations.iter().map(|l| l.name.to_string()).collect(),
        pos: P::from_real(&d.position),
    }
}

pub fn from_real_tsdoc_ext(d: &TypeSystemOrExtensionDocument) -> TsDoc {
    TsDoc {
        items: d
            .definitions
            .iter()
            .map(|d| match d {
                rts::TypeSystemDefinitionOrExtension::SchemaDefinition(s) => TsItem::SchemaDef(from_real_schemadef(s)),
                rts::TypeSystemDefinitionOrExtension::TypeDefinition(t) => TsItem::TypeDef(from_real_typedef(t)),
                rts::TypeSystemDefinitionOrExtension::DirectiveDefinition(t) => TsItem::DirectiveDef(from_real_dirdef(t)),
                rts::TypeSystemDefinitionOrExtension::SchemaExtension(s) => TsItem::SchemaExt(SchemaDef {
                    desc: None,
                    dirs: from_real_dirs(&s.directives),
                    roots: s.definitions.iter().map(|(k, n)| (OpKind::from_real(*k), n.name.to_string(), P::from_real(&n.position))).collect(),
                    pos: P::from_real(&s.position),
                }),
                rts::TypeSystemDefinitionOrExtension::TypeExtension(t) => TsItem::TypeExt(from_real_typeext(t)),
            })
            .collect(),
    }
}

pub fn from_real_tsdoc(d: &TypeSystemDocument) -> TsDoc {
    TsDoc {
        items: d
            .definitions
            .iter()
            .map(|d| match d {
                rts::TypeSystemDefinition::SchemaDefinition(s) => TsItem::SchemaDef(from_real_schemadef(s)),
                rts::TypeSystemDefinition::TypeDefinition(t) => TsItem::TypeDef(from_real_typedef(t)),
                rts::TypeSystemDefinition::DirectiveDefinition(t) => TsItem::DirectiveDef(from_real_dirdef(t)),
            })
            .collect(),
    }
}
