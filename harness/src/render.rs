//! Text rendering of `gm` documents. The emitter records the position (0-based line, column counted in
//! code points — what `pest`'s `line_col` reports) of every token it writes back into the model, so a
//! rendered document is also the *expected* positioned AST. With a trivia source the renderer inserts
//! arbitrary legal insignificant text (spaces, tabs, newlines, commas, comments, BOM) between tokens.
use crate::gm::*;
use crate::prng::Rng;

pub struct Style {
    /// insert random legal trivia between tokens
    pub trivia: bool,
    /// write descriptions as block strings `"""…"""` when they are representable that way
    pub block_desc: bool,
    /// allow `\r` / `\r\n` line terminators in trivia
    pub exotic_newlines: bool,
    /// allow unicode in comments
    pub unicode_comments: bool,
}

impl Style {
    pub fn canonical() -> Style {
        Style { trivia: false, block_desc: false, exotic_newlines: false, unicode_comments: false }
    }
    pub fn noisy() -> Style {
        Style { trivia: true, block_desc: false, exotic_newlines: false, unicode_comments: true }
    }
}

pub struct Emitter {
    pub out: String,
    line: usize,
    col: usize,
    rng: Rng,
    style: Style,
    /// last emitted char was part of a name/number/keyword (needs a separator before the next such token)
    last_wordy: bool,
    fresh_line: bool,
    indent: usize,
    /// the last trivia emitted ended with a comment that has no newline yet (must not be the end of input)
    pub features: Vec<&'static str>,
    /// additional comment texts (each starts with `#`, no line terminator, not an `#import` statement) the
    /// trivia source may use; empty (default) = the built-in list only, no extra random choices are drawn
    pub extra_comments: Vec<String>,
    /// string VALUES may be written as block strings when representable (default off)
    pub block_values: bool,
    /// block strings may contain backslashes and line breaks as long as the raw text IS the denoted value
    /// (no `"""`, no trailing backslash/quote, no indented continuation line, no blank first/last line); default off
    pub block_rich: bool,
    /// exact control of the ignored text between tokens (default `None` = the style decides). With a plan, gap
    /// number g (0 = before the first token, `gaps` after `finish` = after the last token) gets exactly the planned
    /// text (which then also serves as the token separator); every other gap gets the minimal separator. Each gap is
    /// logged as (previous token, next token), "" standing for start / end of the text.
    pub gap_plan: Option<GapPlan>,
    pub gaps: usize,
    pub gap_log: Vec<(String, String)>,
    last_tok: String,
}

#[derive(Clone, Debug)]
pub enum GapPlan {
    /// only log the gaps
    Nowhere,
    At(usize, String),
    Everywhere(String),
}

fn is_wordy(c: char) -> bool {
    c.is_ascii_alphanumeric() || c == '_' || c == '.' || c == '-' || c == '+'
}

impl Emitter {
    pub fn new(style: Style, rng: Rng) -> Emitter {
        Emitter { out: String::new(), line: 0, col: 0, rng, style, last_wordy: false, fresh_line: true, indent: 0, features: vec![], extra_comments: vec![], block_values: false, block_rich: false, gap_plan: None, gaps: 0, gap_log: vec![], last_tok: String::new() }
    }
    fn raw(&mut self, s: &str) {
        let mut chars = s.chars().peekable();
        while let Some(c) = chars.next() {
            self.out.push(c);
            if c == '\n' {
                self.line += 1;
                self.col = 0;
            } else {
                self.col += 1;
            }
        }
    }
    fn feature(&mut self, f: &'static str) {
        if !self.features.contains(&f) {
            self.features.push(f);
        }
    }
    /// random insignificant text; `need_sep` forces at least one separating character
    fn trivia(&mut self, need_sep: bool) {
        if !self.style.trivia {
            if need_sep {
                self.raw(" ");
            }
            return;
        }
        let n = if need_sep { 1 + self.rng.below(3) } else { self.rng.below(3) };
        for _ in 0..n {
            match self.rng.below(12) {
                0..=4 => self.raw(" "),
                5 => {
                    self.feature("trivia:tab");
                    self.raw("\t")
                }
                6 | 7 => {
                    self.feature("trivia:newline");
                    self.raw("\n")
                }
                8 | 9 => {
                    self.feature("trivia:comma");
                    self.raw(",")
                }
                10 => {
                    self.feature("trivia:comment");
                    let texts = ["# a comment", "#", "#import is not an import here", "# \"quoted\" { } ( ) : $ @", "#\ttabbed", "# query Q { x }"];
                    let t = texts[self.rng.below(texts.len())];
                    // "#import …" directly after '#' would be parsed as an import statement at definition level; keep a space
                    let t = if t.starts_with("#import") { "# import-like comment" } else { t };
                    if !self.extra_comments.is_empty() && self.rng.chance(2, 3) {
                        self.feature("trivia:comment-lookalike");
                        let k = self.rng.below(self.extra_comments.len());
                        let c = self.extra_comments[k].clone();
                        self.raw(&c);
                    } else {
                        self.raw(t);
                    }
                    if self.style.unicode_comments && self.rng.chance(1, 3) {
                        self.feature("trivia:comment-unicode");
                        self.raw(" é😀");
                    }
                    self.raw("\n");
                }
                _ => {
                    if self.style.exotic_newlines {
                        self.feature("trivia:crlf");
                        self.raw("\r\n");
                    } else {
                        self.raw(" ");
                    }
                }
            }
        }
    }
    /// emit one token; returns its start position
    pub fn tok(&mut self, t: &str) -> P {
        let first = t.chars().next().unwrap_or(' ');
        let need_sep = self.last_wordy && (is_wordy(first) || first == '"');
        if self.gap_plan.is_some() {
            self.planned_gap(t, need_sep);
        } else if self.style.trivia {
            self.trivia(need_sep);
        } else {
            if self.fresh_line {
                let ind = "  ".repeat(self.indent);
                self.raw(&ind);
            } else if need_sep || (!self.out.is_empty() && !matches!(self.out.chars().last(), Some('(') | Some('[') | Some('$') | Some('@') | Some(' ') | Some('\n')) && !matches!(first, ')' | ']' | ':' | '!' | ',')) {
                self.raw(" ");
            }
        }
        self.fresh_line = false;
        let p = P::at(self.line, self.col);
        self.raw(t);
        let last = t.chars().last().unwrap_or(' ');
        self.last_wordy = is_wordy(last) || last == '"';
        p
    }
    /// a token glued to the previous one (no trivia in between), e.g. the name after `$` or `@`… in
    /// GraphQL `$ name` and `@ name` may in fact be separated by trivia, so this is used only for `...`.
    pub fn nl(&mut self) {
        if !self.style.trivia && self.gap_plan.is_none() {
            self.raw("\n");
            self.fresh_line = true;
            self.last_wordy = false;
        }
    }
    pub fn bom(&mut self) {
        self.out.push('\u{feff}');
        self.col += 1;
        self.feature("trivia:bom");
    }
    /// the gap before token `next` ("" = end of text) under a `gap_plan`
    fn planned_gap(&mut self, next: &str, need_sep: bool) {
        let g = self.gaps;
        self.gaps += 1;
        let prev = std::mem::replace(&mut self.last_tok, next.to_string());
        self.gap_log.push((prev, next.to_string()));
        let planned = match &self.gap_plan {
            Some(GapPlan::At(i, s)) if *i == g => Some(s.clone()),
            Some(GapPlan::Everywhere(s)) => Some(s.clone()),
            _ => None,
        };
        match planned {
            Some(s) if !s.is_empty() => self.raw(&s),
            _ => {
                if need_sep {
                    self.raw(" ");
                }
            }
        }
    }
    pub fn finish(mut self) -> (String, Vec<&'static str>) {
        if self.gap_plan.is_some() {
            self.planned_gap("", false);
        } else if self.style.trivia {
            self.trivia(false);
        }
        (self.out, self.features)
    }
    /// `finish` + the gap log of a `gap_plan` rendering
    pub fn finish_with_gaps(mut self) -> (String, Vec<(String, String)>) {
        self.planned_gap("", false);
        (self.out, self.gap_log)
    }
}

/// can `s` be written as the block string `"""s"""` such that the raw text is the denoted value?
fn block_representable(s: &str, rich: bool) -> bool {
    let plain = !s.is_empty()
        && !s.contains("\"\"\"")
        && !s.contains('\r')
        && !s.ends_with('"')
        && !s.starts_with(|c: char| c == ' ' || c == '\t' || c == '\n')
        && !s.ends_with(|c: char| c == ' ' || c == '\t' || c == '\n');
    if !rich {
        return plain && !s.contains('\\') && !s.contains('\n');
    }
    plain && !s.ends_with('\\') && s.split('\n').skip(1).all(|l| !l.starts_with(|c: char| c == ' ' || c == '\t'))
}

pub fn escape_string(s: &str) -> String {
    let mut o = String::from("\"");
    for c in s.chars() {
        match c {
            '"' => o.push_str("\\\""),
            '\\' => o.push_str("\\\\"),
            '\n' => o.push_str("\\n"),
            '\r' => o.push_str("\\r"),
            '\t' => o.push_str("\\t"),
            '\u{8}' => o.push_str("\\b"),
            '\u{c}' => o.push_str("\\f"),
            c if (c as u32) < 0x20 => o.push_str(&format!("\\u{:04X}", c as u32)),
            c => o.push(c),
        }
    }
    o.push('"');
    o
}

pub fn r_type(e: &mut Emitter, t: &mut Ty) {
    match t {
        Ty::Named(n, p) => *p = e.tok(n),
        Ty::List(inner, p) => {
            *p = e.tok("[");
            r_type(e, inner);
            e.tok("]");
        }
        Ty::NonNull(inner) => {
            r_type(e, inner);
            e.tok("!");
        }
    }
}

pub fn r_value(e: &mut Emitter, v: &mut Val) {
    match v {
        Val::Var(n, p) => {
            *p = e.tok("$");
            e.tok(n);
        }
        Val::Int(s, p) | Val::Float(s, p) | Val::Enum(s, p) => *p = e.tok(s),
        Val::Str(s, p) => {
            if e.block_values && block_representable(s, e.block_rich) && e.rng.coin() {
                e.feature("block-string-value");
                *p = e.tok(&format!("\"\"\"{s}\"\"\""));
            } else {
                *p = e.tok(&escape_string(s));
            }
        }
        Val::Bool(b, p) => *p = e.tok(if *b { "true" } else { "false" }),
        Val::Null(p) => *p = e.tok("null"),
        Val::List(vs, p) => {
            *p = e.tok("[");
            for v in vs.iter_mut() {
                r_value(e, v);
            }
            e.tok("]");
        }
        Val::Obj(fs, p) => {
            *p = e.tok("{");
            for a in fs.iter_mut() {
                a.pos = e.tok(&a.name);
                e.tok(":");
                r_value(e, &mut a.value);
            }
            e.tok("}");
        }
    }
}

pub fn r_args(e: &mut Emitter, args: &mut [Arg]) {
    if args.is_empty() {
        return;
    }
    e.tok("(");
    for a in args.iter_mut() {
        a.pos = e.tok(&a.name);
        e.tok(":");
        r_value(e, &mut a.value);
    }
    e.tok(")");
}

pub fn r_dirs(e: &mut Emitter, dirs: &mut [Dir]) {
    for d in dirs.iter_mut() {
        d.pos = e.tok("@");
        d.name_pos = e.tok(&d.name);
        r_args(e, &mut d.args);
    }
}

pub fn r_selset(e: &mut Emitter, sels: &mut [Sel]) -> P {
    let p = e.tok("{");
    e.indent += 1;
    e.nl();
    for s in sels.iter_mut() {
        match s {
            Sel::Field { alias, name, name_pos, args, dirs, sel } => {
                if let Some((a, ap)) = alias {
                    *ap = e.tok(a);
                    e.tok(":");
                }
                *name_pos = e.tok(name);
                r_args(e, args);
                r_dirs(e, dirs);
                if let Some(ss) = sel {
                    r_selset(e, ss);
                }
            }
            Sel::Spread { name, name_pos, dirs, pos } => {
                *pos = e.tok("...");
                *name_pos = e.tok(name);
                r_dirs(e, dirs);
            }
            Sel::Inline { cond, dirs, sel, pos } => {
                *pos = e.tok("...");
                if let Some((c, cp)) = cond {
                    e.tok("on");
                    *cp = e.tok(c);
                }
                r_dirs(e, dirs);
                r_selset(e, sel);
            }
        }
        e.nl();
    }
    e.indent -= 1;
    e.tok("}");
    p
}

pub fn r_execdef(e: &mut Emitter, d: &mut ExecDef) {
    match d {
        ExecDef::Op(o) => {
            if o.shorthand && o.kind == OpKind::Query && o.name.is_none() && o.vars.is_empty() && o.dirs.is_empty() {
                o.pos = r_selset(e, &mut o.sel);
            } else {
                o.pos = e.tok(o.kind.as_str());
                if let Some((n, p)) = &mut o.name {
                    *p = e.tok(n);
                }
                if !o.vars.is_empty() {
                    e.tok("(");
                    for v in o.vars.iter_mut() {
                        v.pos = e.tok("$");
                        e.tok(&v.name);
                        e.tok(":");
                        r_type(e, &mut v.ty);
                        if let Some(dv) = &mut v.default {
                            e.tok("=");
                            r_value(e, dv);
                        }
                        r_dirs(e, &mut v.dirs);
                    }
                    e.tok(")");
                }
                r_dirs(e, &mut o.dirs);
                r_selset(e, &mut o.sel);
            }
        }
        ExecDef::Frag(f) => {
            f.pos = e.tok("fragment");
            f.name_pos = e.tok(&f.name);
            e.tok("on");
            f.cond_pos = e.tok(&f.cond);
            r_dirs(e, &mut f.dirs);
            r_selset(e, &mut f.sel);
        }
        ExecDef::Import(i) => {
            // import statements are line-oriented: always rendered canonically on their own line
            if !e.out.is_empty() && !e.out.ends_with('\n') {
                e.raw("\n");
            }
            i.pos = P::at(e.line, e.col);
            let mut s = String::from("#import ");
            let mut col = e.col + s.chars().count();
            let n = i.targets.len();
            for (k, t) in i.targets.iter_mut().enumerate() {
                match t {
                    None => {
                        s.push('*');
                        col += 1;
                    }
                    Some((name, p)) => {
                        *p = P::at(e.line, col);
                        s.push_str(name);
                        col += name.chars().count();
                    }
                }
                if k + 1 < n {
                    s.push_str(", ");
                    col += 2;
                }
            }
            s.push_str(" from ");
            s.push_str(&escape_string(&i.path));
            s.push('\n');
            e.raw(&s);
            e.last_wordy = false;
            e.fresh_line = true;
            e.last_tok = String::from("#import-line");
        }
    }
    e.nl();
}

pub fn render_doc(doc: &mut Doc, style: Style, rng: Rng) -> (String, Vec<&'static str>) {
    let mut e = Emitter::new(style, rng);
    for d in doc.defs.iter_mut() {
        r_execdef(&mut e, d);
    }
    e.finish()
}

pub fn doc_text(doc: &Doc) -> String {
    let mut d = doc.clone();
    render_doc(&mut d, Style::canonical(), Rng::new(0)).0
}

// ---------------------------------------------------------------------------------------------

fn r_desc(e: &mut Emitter, d: &Option<String>) -> Option<P> {
    match d {
        None => None,
        Some(s) => {
            let block_ok = e.style.block_desc && block_representable(s, e.block_rich);
            let p = if block_ok { e.tok(&format!("\"\"\"{s}\"\"\"")) } else { e.tok(&escape_string(s)) };
            e.nl();
            Some(p)
        }
    }
}

fn r_ivdef(e: &mut Emitter, v: &mut InputValueDef) {
    r_desc(e, &v.desc);
    v.pos = e.tok(&v.name); // the Rust AST records the name position for input values
    e.tok(":");
    r_type(e, &mut v.ty);
    if let Some(dv) = &mut v.default {
        e.tok("=");
        r_value(e, dv);
    }
    r_dirs(e, &mut v.dirs);
}

fn r_argdefs(e: &mut Emitter, args: &mut [InputValueDef]) {
    if args.is_empty() {
        return;
    }
    e.tok("(");
    for a in args.iter_mut() {
        r_ivdef(e, a);
    }
    e.tok(")");
}

fn r_fields(e: &mut Emitter, fields: &mut [FieldDef]) {
    if fields.is_empty() {
        return;
    }
    e.tok("{");
    e.indent += 1;
    e.nl();
    for f in fields.iter_mut() {
        r_desc(e, &f.desc);
        f.pos = e.tok(&f.name);
        r_argdefs(e, &mut f.args);
        e.tok(":");
        r_type(e, &mut f.ty);
        r_dirs(e, &mut f.dirs);
        e.nl();
    }
    e.indent -= 1;
    e.tok("}");
}

fn r_typebody(e: &mut Emitter, t: &mut TypeDef, lead_sep: bool) {
    t.name_pos = e.tok(&t.name);
    if !t.implements.is_empty() {
        e.tok("implements");
        for (k, (n, p)) in t.implements.iter_mut().enumerate() {
            if k > 0 || lead_sep {
                e.tok("&");
            }
            *p = e.tok(n);
        }
    }
    r_dirs(e, &mut t.dirs);
    match t.kind {
        TypeKind::Object | TypeKind::Interface => r_fields(e, &mut t.fields),
        TypeKind::Union => {
            if !t.members.is_empty() {
                e.tok("=");
                for (k, (n, p)) in t.members.iter_mut().enumerate() {
                    if k > 0 || lead_sep {
                        e.tok("|");
                    }
                    *p = e.tok(n);
                }
            }
        }
        TypeKind::Enum => {
            if !t.values.is_empty() {
                e.tok("{");
                e.indent += 1;
                e.nl();
                for v in t.values.iter_mut() {
                    r_desc(e, &v.desc);
                    v.pos = e.tok(&v.name);
                    r_dirs(e, &mut v.dirs);
                    e.nl();
                }
                e.indent -= 1;
                e.tok("}");
            }
        }
        TypeKind::Input => {
            if !t.inputs.is_empty() {
                e.tok("{");
                e.indent += 1;
                e.nl();
                for v in t.inputs.iter_mut() {
                    r_ivdef(e, v);
                    e.nl();
                }
                e.indent -= 1;
                e.tok("}");
            }
        }
        TypeKind::Scalar => {}
    }
}

fn r_schema_body(e: &mut Emitter, s: &mut SchemaDef) {
    r_dirs(e, &mut s.dirs);
    if !s.roots.is_empty() {
        e.tok("{");
        e.indent += 1;
        e.nl();
        for (k, n, p) in s.roots.iter_mut() {
            e.tok(k.as_str());
            e.tok(":");
            *p = e.tok(n);
            e.nl();
        }
        e.indent -= 1;
        e.tok("}");
    }
}

pub fn r_tsitem(e: &mut Emitter, item: &mut TsItem, lead_sep: bool) {
    match item {
        TsItem::TypeDef(t) => {
            // the builder records the keyword position for type definitions (description excluded)
            r_desc(e, &t.desc);
            t.pos = e.tok(t.kind.keyword());
            r_typebody(e, t, lead_sep);
        }
        TsItem::TypeExt(t) => {
            t.pos = e.tok("extend");
            e.tok(t.kind.keyword());
            r_typebody(e, t, lead_sep);
        }
        TsItem::SchemaDef(s) => {
            let dp = r_desc(e, &s.desc);
            let kp = e.tok("schema");
            s.pos = dp.unwrap_or(kp);
            r_schema_body(e, s);
        }
        TsItem::SchemaExt(s) => {
            s.pos = e.tok("extend");
            e.tok("schema");
            r_schema_body(e, s);
        }
        TsItem::DirectiveDef(d) => {
            r_desc(e, &d.desc);
            d.pos = e.tok("directive");
            e.tok("@");
            d.name_pos = e.tok(&d.name);
            r_argdefs(e, &mut d.args);
            if d.repeatable {
                e.tok("repeatable");
            }
            e.tok("on");
            for (k, l) in d.locations.iter().enumerate() {
                if k > 0 || lead_sep {
                    e.tok("|");
                }
                e.tok(l);
            }
        }
    }
    e.nl();
    e.nl();
}

pub fn render_tsdoc(doc: &mut TsDoc, style: Style, rng: Rng) -> (String, Vec<&'static str>) {
    let mut e = Emitter::new(style, rng);
    for d in doc.items.iter_mut() {
        let lead = e.style.trivia && e.rng.chance(1, 4);
        r_tsitem(&mut e, d, lead);
    }
    e.finish()
}

pub fn tsdoc_text(doc: &TsDoc) -> String {
    let mut d = doc.clone();
    render_tsdoc(&mut d, Style::canonical(), Rng::new(0)).0
}
