//! Parser for the subset of TypeScript that nitrogql emits (declaration files, resolvers file, standalone
//! `.graphql.ts`). Part of the correspondence machinery: the emitted TEXT is parsed (so printing,
//! quoting, comments and the prelude are inside the checked path) and handed to the Lean side as trees.
//! A text that does not parse is itself a finding ("emitted files parse under the emitted-subset grammar").
//!
//! Type trees (S-expressions):
//!   (prim "string") (ref "Name") (qref "A" "B" …) (app T (T…)) (strlit "s") (numlit "1")
//!   (obj (field "key" readonly:bool optional:bool T)…) (arr T) (roarr T) (union T…) (inter T…)
//!   (fn ((param "name" T)…) R) (index T K) (tuple T…)
//! Statements:
//!   (import "module" type:bool (named ("a" "b")…)|(star "NS")|(default "X"))
//!   (type exported:bool "Name" (("T" constraint|(none))…) T)
//!   (rawtype exported:bool "Name" "text")             — prelude helper types with mapped/conditional types
//!   (namespace exported:bool "N" (stmt…))
//!   (exportlist type:bool (("local" "exported")…))
//!   (const exported:bool declared:bool "Name" T|(none) init-json|(none))
//!   (exportdefault "Name")
//!   (doc "comment text")                               — a /** … */ comment at statement level
use crate::sexp::Sexp;

#[derive(Clone, Debug, PartialEq)]
pub enum Tok {
    Ident(String),
    Str(String),
    Num(String),
    Punct(&'static str),
    Doc(String),
    Eof,
}

#[derive(Debug, Clone)]
pub struct TsError {
    pub msg: String,
    pub offset: usize,
    pub line: usize,
}

const PUNCTS: [&str; 24] = ["=>", "...", "{", "}", "(", ")", "[", "]", "<", ">", ";", ":", ",", ".", "|", "&", "=", "?", "*", "-", "+", "!", "`", "@"];
pub const PRIMS: [&str; 13] = ["string", "number", "boolean", "bigint", "any", "unknown", "never", "null", "undefined", "void", "object", "symbol", "true"];

pub fn lex(src: &str) -> Result<Vec<(Tok, usize)>, TsError> {
    let cs: Vec<char> = src.chars().collect();
    let mut i = 0;
    let mut out = vec![];
    let line_of = |i: usize| cs[..i.min(cs.len())].iter().filter(|c| **c == '\n').count();
    while i < cs.len() {
        let c = cs[i];
        if c.is_whitespace() || c == '\u{feff}' {
            i += 1;
            continue;
        }
        if c == '/' && cs.get(i + 1) == Some(&'/') {
            while i < cs.len() && cs[i] != '\n' {
                i += 1;
            }
            continue;
        }
        if c == '/' && cs.get(i + 1) == Some(&'*') {
            let start = i;
            let mut j = i + 2;
            loop {
                if j + 1 >= cs.len() {
                    return Err(TsError { msg: "unterminated comment".into(), offset: start, line: line_of(start) });
                }
                if cs[j] == '*' && cs[j + 1] == '/' {
                    break;
                }
                j += 1;
            }
            let text: String = cs[start + 2..j].iter().collect();
            if cs.get(start + 2) == Some(&'*') {
                out.push((Tok::Doc(text), start));
            }
            i = j + 2;
            continue;
        }
        if c == '"' || c == '\'' {
            let q = c;
            let start = i;
            i += 1;
            let mut s = String::new();
            loop {
                if i >= cs.len() || cs[i] == '\n' {
                    return Err(TsError { msg: "unterminated string literal".into(), offset: start, line: line_of(start) });
                }
                let d = cs[i];
                i += 1;
                if d == q {
                    break;
                }
                if d == '\\' {
                    let e = *cs.get(i).ok_or(TsError { msg: "bad escape".into(), offset: i, line: line_of(i) })?;
                    i += 1;
                    match e {
                        'n' => s.push('\n'),
                        'r' => s.push('\r'),
                        't' => s.push('\t'),
                        'b' => s.push('\u{8}'),
                        'f' => s.push('\u{c}'),
                        '0' => s.push('\0'),
                        'u' => {
                            let mut n = 0u32;
                            if cs.get(i) == Some(&'{') {
                                i += 1;
                                while i < cs.len() && cs[i] != '}' {
                                    n = n * 16 + cs[i].to_digit(16).ok_or(TsError { msg: "bad \\u".into(), offset: i, line: line_of(i) })?;
                                    i += 1;
                                }
                                i += 1;
                            } else {
                                for _ in 0..4 {
                                    n = n * 16 + cs.get(i).and_then(|c| c.to_digit(16)).ok_or(TsError { msg: "bad \\u".into(), offset: i, line: line_of(i) })?;
                                    i += 1;
                                }
                            }
                            s.push(char::from_u32(n).unwrap_or('\u{fffd}'));
                        }
                        other => s.push(other),
                    }
                } else {
                    s.push(d);
                }
            }
            out.push((Tok::Str(s), start));
            continue;
        }
        if c.is_ascii_digit() {
            let start = i;
            while i < cs.len() && (cs[i].is_ascii_alphanumeric() || cs[i] == '.' || cs[i] == '_') {
                i += 1;
            }
            out.push((Tok::Num(cs[start..i].iter().collect()), start));
            continue;
        }
        if c.is_alphabetic() || c == '_' || c == '$' {
            let start = i;
            while i < cs.len() && (cs[i].is_alphanumeric() || cs[i] == '_' || cs[i] == '$') {
                i += 1;
            }
            out.push((Tok::Ident(cs[start..i].iter().collect()), start));
            continue;
        }
        let mut matched = false;
        for p in PUNCTS.iter() {
            let pc: Vec<char> = p.chars().collect();
            if cs[i..].starts_with(&pc) {
                out.push((Tok::Punct(p), i));
                i += pc.len();
                matched = true;
                break;
            }
        }
        if !matched {
            return Err(TsError { msg: format!("unexpected character {c:?}"), offset: i, line: line_of(i) });
        }
    }
    out.push((Tok::Eof, cs.len()));
    Ok(out)
}

pub struct Parser<'a> {
    src: &'a str,
    toks: Vec<(Tok, usize)>,
    i: usize,
    /// names of helper types whose bodies are kept raw (mapped / conditional types of the prelude)
    pub raw_types: Vec<&'static str>,
}

type R<T> = Result<T, TsError>;

fn b(x: bool) -> Sexp {
    Sexp::bool(x)
}

impl<'a> Parser<'a> {
    pub fn new(src: &'a str) -> R<Parser<'a>> {
        Ok(Parser { src, toks: lex(src)?, i: 0, raw_types: vec!["__Beautify", "__SelectionSet", "__Resolver", "__TypeResolver"] })
    }
    fn peek(&self) -> &Tok {
        &self.toks[self.i].0
    }
    fn peek_at(&self, k: usize) -> &Tok {
        &self.toks[(self.i + k).min(self.toks.len() - 1)].0
    }
    fn offset(&self) -> usize {
        self.toks[self.i].1
    }
    fn err<T>(&self, msg: &str) -> R<T> {
        let off = self.offset();
        let line = self.src.chars().take(off).filter(|c| *c == '\n').count();
        Err(TsError { msg: format!("{msg}, found {:?}", self.peek()), offset: off, line })
    }
    fn next(&mut self) -> Tok {
        let t = self.toks[self.i].0.clone();
        if self.i + 1 < self.toks.len() {
            self.i += 1;
        }
        t
    }
    fn is_punct(&self, p: &str) -> bool {
        matches!(self.peek(), Tok::Punct(q) if *q == p)
    }
    fn is_ident(&self, s: &str) -> bool {
        matches!(self.peek(), Tok::Ident(q) if q == s)
    }
    fn eat_punct(&mut self, p: &str) -> bool {
        if self.is_punct(p) {
            self.next();
            true
        } else {
            false
        }
    }
    fn eat_ident(&mut self, s: &str) -> bool {
        if self.is_ident(s) {
            self.next();
            true
        } else {
            false
        }
    }
    fn expect_punct(&mut self, p: &str) -> R<()> {
        if self.eat_punct(p) {
            Ok(())
        } else {
            self.err(&format!("expected '{p}'"))
        }
    }
    fn ident(&mut self) -> R<String> {
        match self.next() {
            Tok::Ident(s) => Ok(s),
            _ => {
                self.i -= 1;
                self.err("expected identifier")
            }
        }
    }
    fn skip_docs(&mut self) {
        while matches!(self.peek(), Tok::Doc(_)) {
            self.next();
        }
    }

    // ---- types ----
    pub fn ty(&mut self) -> R<Sexp> {
        self.skip_docs();
        // function type?
        if self.is_punct("(") && self.looks_like_fn() {
            return self.fn_type();
        }
        self.union()
    }
    fn looks_like_fn(&self) -> bool {
        // "(" ")" "=>"  or "(" ident ":" …
        match (self.peek_at(1), self.peek_at(2)) {
            (Tok::Punct(")"), Tok::Punct("=>")) => true,
            (Tok::Ident(_), Tok::Punct(":")) => true,
            (Tok::Ident(_), Tok::Punct("?")) => true,
            _ => false,
        }
    }
    fn fn_type(&mut self) -> R<Sexp> {
        self.expect_punct("(")?;
        let mut params = vec![];
        while !self.is_punct(")") {
            let n = self.ident()?;
            self.eat_punct("?");
            self.expect_punct(":")?;
            let t = self.ty()?;
            params.push(Sexp::call("param", vec![Sexp::str(n), t]));
            if !self.eat_punct(",") {
                break;
            }
        }
        self.expect_punct(")")?;
        self.expect_punct("=>")?;
        let r = self.ty()?;
        Ok(Sexp::call("fn", vec![Sexp::list(params), r]))
    }
    fn union(&mut self) -> R<Sexp> {
        self.eat_punct("|");
        let mut parts = vec![self.inter()?];
        while self.eat_punct("|") {
            parts.push(self.inter()?);
        }
        Ok(if parts.len() == 1 { parts.pop().unwrap() } else { Sexp::call("union", parts) })
    }
    fn inter(&mut self) -> R<Sexp> {
        self.eat_punct("&");
        let mut parts = vec![self.postfix()?];
        while self.eat_punct("&") {
            parts.push(self.postfix()?);
        }
        Ok(if parts.len() == 1 { parts.pop().unwrap() } else { Sexp::call("inter", parts) })
    }
    fn postfix(&mut self) -> R<Sexp> {
        self.skip_docs();
        if self.is_ident("readonly") && !matches!(self.peek_at(1), Tok::Punct(":") | Tok::Punct("?")) {
            self.next();
            let inner = self.postfix()?;
            return Ok(match inner {
                Sexp::List(v) if v.first().and_then(|h| h.as_atom()) == Some("arr") => Sexp::call("roarr", v[1..].to_vec()),
                other => Sexp::call("readonly", vec![other]),
            });
        }
        if self.is_ident("keyof") {
            self.next();
            let inner = self.postfix()?;
            return Ok(Sexp::call("keyof", vec![inner]));
        }
        let mut t = self.primary()?;
        loop {
            if self.is_punct("[") {
                if matches!(self.peek_at(1), Tok::Punct("]")) {
                    self.next();
                    self.next();
                    t = Sexp::call("arr", vec![t]);
                } else {
                    self.next();
                    let k = self.ty()?;
                    self.expect_punct("]")?;
                    t = Sexp::call("index", vec![t, k]);
                }
            } else {
                break;
            }
        }
        Ok(t)
    }
    fn primary(&mut self) -> R<Sexp> {
        match self.peek().clone() {
            Tok::Punct("(") => {
                self.next();
                let t = self.ty()?;
                self.expect_punct(")")?;
                Ok(t)
            }
            Tok::Punct("{") => self.obj_type(),
            Tok::Punct("[") => {
                self.next();
                let mut items = vec![];
                while !self.is_punct("]") {
                    items.push(self.ty()?);
                    if !self.eat_punct(",") {
                        break;
                    }
                }
                self.expect_punct("]")?;
                Ok(Sexp::call("tuple", items))
            }
            Tok::Str(s) => {
                self.next();
                Ok(Sexp::call("strlit", vec![Sexp::str(s)]))
            }
            Tok::Num(n) => {
                self.next();
                Ok(Sexp::call("numlit", vec![Sexp::str(n)]))
            }
            Tok::Punct("-") => {
                self.next();
                match self.next() {
                    Tok::Num(n) => Ok(Sexp::call("numlit", vec![Sexp::str(format!("-{n}"))])),
                    _ => self.err("expected number"),
                }
            }
            Tok::Ident(name) => {
                self.next();
                if name == "import" && self.is_punct("(") {
                    // import("module").A.B
                    self.next();
                    let m = match self.next() {
                        Tok::Str(s) => s,
                        _ => return self.err("expected module string"),
                    };
                    self.expect_punct(")")?;
                    let mut path = vec![Sexp::str(m)];
                    while self.eat_punct(".") {
                        path.push(Sexp::str(self.ident()?));
                    }
                    let mut t = Sexp::call("importtype", path);
                    if self.is_punct("<") {
                        let args = self.type_args()?;
                        t = Sexp::call("app", vec![t, Sexp::list(args)]);
                    }
                    return Ok(t);
                }
                if name == "typeof" {
                    let mut path = vec![Sexp::str(self.ident()?)];
                    while self.eat_punct(".") {
                        path.push(Sexp::str(self.ident()?));
                    }
                    return Ok(Sexp::call("typeof", path));
                }
                let mut path = vec![name];
                while self.is_punct(".") {
                    self.next();
                    path.push(self.ident()?);
                }
                let mut t = if path.len() == 1 {
                    if PRIMS.contains(&path[0].as_str()) || path[0] == "false" {
                        Sexp::call("prim", vec![Sexp::str(path[0].clone())])
                    } else {
                        Sexp::call("ref", vec![Sexp::str(path[0].clone())])
                    }
                } else {
                    Sexp::call("qref", path.into_iter().map(Sexp::str).collect())
                };
                if self.is_punct("<") {
                    let args = self.type_args()?;
                    t = Sexp::call("app", vec![t, Sexp::list(args)]);
                }
                Ok(t)
            }
            _ => self.err("expected a type"),
        }
    }
    fn type_args(&mut self) -> R<Vec<Sexp>> {
        self.expect_punct("<")?;
        let mut args = vec![];
        while !self.is_punct(">") {
            args.push(self.ty()?);
            if !self.eat_punct(",") {
                break;
            }
        }
        self.expect_punct(">")?;
        Ok(args)
    }
    fn obj_type(&mut self) -> R<Sexp> {
        self.expect_punct("{")?;
        let mut fields = vec![];
        loop {
            self.skip_docs();
            if self.eat_punct("}") {
                break;
            }
            let mut readonly = false;
            if self.is_ident("readonly") && !matches!(self.peek_at(1), Tok::Punct(":") | Tok::Punct("?")) {
                self.next();
                readonly = true;
            }
            let key = match self.next() {
                Tok::Ident(s) => s,
                Tok::Str(s) => s,
                Tok::Punct("[") => {
                    // index signature [k: string]: T
                    let n = self.ident()?;
                    self.expect_punct(":")?;
                    let kt = self.ty()?;
                    self.expect_punct("]")?;
                    self.expect_punct(":")?;
                    let vt = self.ty()?;
                    let _ = n;
                    fields.push(Sexp::call("indexsig", vec![kt, vt]));
                    if !self.eat_punct(";") {
                        self.eat_punct(",");
                    }
                    continue;
                }
                _ => {
                    self.i -= 1;
                    return self.err("expected property name");
                }
            };
            let optional = self.eat_punct("?");
            self.expect_punct(":")?;
            let t = self.ty()?;
            fields.push(Sexp::call("field", vec![Sexp::str(key), b(readonly), b(optional), t]));
            if !self.eat_punct(";") && !self.eat_punct(",") {
                self.skip_docs();
                if !self.is_punct("}") {
                    return self.err("expected ';' or '}' in object type");
                }
            }
        }
        Ok(Sexp::call("obj", fields))
    }

    // ---- JSON-compatible expressions (runtime documents) ----
    pub fn json(&mut self) -> R<Sexp> {
        match self.next() {
            Tok::Punct("{") => {
                let mut kvs = vec![];
                while !self.is_punct("}") {
                    let k = match self.next() {
                        Tok::Str(s) | Tok::Ident(s) => s,
                        _ => return self.err("expected key"),
                    };
                    self.expect_punct(":")?;
                    let v = self.json()?;
                    kvs.push(Sexp::list(vec![Sexp::str(k), v]));
                    if !self.eat_punct(",") {
                        break;
                    }
                }
                self.expect_punct("}")?;
                Ok(Sexp::call("obj", kvs))
            }
            Tok::Punct("[") => {
                let mut vs = vec![];
                while !self.is_punct("]") {
                    vs.push(self.json()?);
                    if !self.eat_punct(",") {
                        break;
                    }
                }
                self.expect_punct("]")?;
                Ok(Sexp::call("arr", vs))
            }
            Tok::Str(s) => Ok(Sexp::call("str", vec![Sexp::str(s)])),
            Tok::Num(n) => Ok(Sexp::call("num", vec![Sexp::str(n)])),
            Tok::Punct("-") => match self.next() {
                Tok::Num(n) => Ok(Sexp::call("num", vec![Sexp::str(format!("-{n}"))])),
                _ => self.err("expected number"),
            },
            Tok::Ident(s) if s == "true" || s == "false" => Ok(Sexp::call("bool", vec![Sexp::atom(s)])),
            Tok::Ident(s) if s == "null" => Ok(Sexp::call("null", vec![])),
            Tok::Ident(s) => Ok(Sexp::call("ident", vec![Sexp::str(s)])),
            _ => {
                self.i -= 1;
                self.err("expected a JSON value")
            }
        }
    }

    // ---- statements ----
    fn type_params(&mut self) -> R<Vec<Sexp>> {
        let mut ps = vec![];
        if self.eat_punct("<") {
            while !self.is_punct(">") {
                let n = self.ident()?;
                let c = if self.eat_ident("extends") { self.ty()? } else { Sexp::call("none", vec![]) };
                ps.push(Sexp::list(vec![Sexp::str(n), c]));
                if !self.eat_punct(",") {
                    break;
                }
            }
            self.expect_punct(">")?;
        }
        Ok(ps)
    }
    fn raw_until_semicolon(&mut self) -> R<String> {
        let start = self.offset();
        let mut depth = 0i32;
        loop {
            match self.peek() {
                Tok::Eof => return self.err("unterminated raw type"),
                Tok::Punct("{") | Tok::Punct("(") | Tok::Punct("[") => depth += 1,
                Tok::Punct("}") | Tok::Punct(")") | Tok::Punct("]") => depth -= 1,
                Tok::Punct(";") if depth == 0 => break,
                _ => {}
            }
            self.next();
        }
        let end = self.offset();
        self.next();
        let text: String = self.src.chars().skip(start).take(end - start).collect();
        Ok(text.split_whitespace().collect::<Vec<_>>().join(" "))
    }
    fn export_list(&mut self, is_type: bool) -> R<Sexp> {
        self.expect_punct("{")?;
        let mut items = vec![];
        while !self.is_punct("}") {
            let a = self.ident()?;
            let bname = if self.eat_ident("as") { self.ident()? } else { a.clone() };
            items.push(Sexp::list(vec![Sexp::str(a), Sexp::str(bname)]));
            if !self.eat_punct(",") {
                break;
            }
        }
        self.expect_punct("}")?;
        self.eat_punct(";");
        Ok(Sexp::call("exportlist", vec![b(is_type), Sexp::list(items)]))
    }
    pub fn stmt(&mut self) -> R<Sexp> {
        if let Tok::Doc(d) = self.peek().clone() {
            self.next();
            return Ok(Sexp::call("doc", vec![Sexp::str(d)]));
        }
        if self.eat_ident("import") {
            let is_type = self.eat_ident("type");
            let what = if self.eat_punct("*") {
                if !self.eat_ident("as") {
                    return self.err("expected 'as'");
                }
                Sexp::call("star", vec![Sexp::str(self.ident()?)])
            } else if self.is_punct("{") {
                self.next();
                let mut items = vec![];
                while !self.is_punct("}") {
                    self.eat_ident("type");
                    let a = self.ident()?;
                    let bname = if self.eat_ident("as") { self.ident()? } else { a.clone() };
                    items.push(Sexp::list(vec![Sexp::str(a), Sexp::str(bname)]));
                    if !self.eat_punct(",") {
                        break;
                    }
                }
                self.expect_punct("}")?;
                Sexp::call("named", items)
            } else {
                Sexp::call("default", vec![Sexp::str(self.ident()?)])
            };
            if !self.eat_ident("from") {
                return self.err("expected 'from'");
            }
            let m = match self.next() {
                Tok::Str(s) => s,
                _ => return self.err("expected module string"),
            };
            self.eat_punct(";");
            return Ok(Sexp::call("import", vec![Sexp::str(m), b(is_type), what]));
        }
        let mut exported = false;
        let mut declared = false;
        if self.eat_ident("export") {
            exported = true;
            if self.eat_ident("default") {
                let n = self.ident()?;
                self.eat_punct(";");
                return Ok(Sexp::call("exportdefault", vec![Sexp::str(n)]));
            }
            if self.is_punct("{") {
                return self.export_list(false);
            }
            if self.is_ident("type") && matches!(self.peek_at(1), Tok::Punct("{")) {
                self.next();
                return self.export_list(true);
            }
        }
        if self.eat_ident("declare") {
            declared = true;
        }
        if self.eat_ident("namespace") {
            let n = self.ident()?;
            self.expect_punct("{")?;
            let mut body = vec![];
            while !self.is_punct("}") {
                if matches!(self.peek(), Tok::Eof) {
                    return self.err("unterminated namespace");
                }
                body.push(self.stmt()?);
            }
            self.expect_punct("}")?;
            return Ok(Sexp::call("namespace", vec![b(exported), Sexp::str(n), Sexp::list(body)]));
        }
        if self.eat_ident("type") {
            let n = self.ident()?;
            if self.raw_types.contains(&n.as_str()) {
                let text = self.raw_until_semicolon()?;
                return Ok(Sexp::call("rawtype", vec![b(exported), Sexp::str(n), Sexp::str(text)]));
            }
            let ps = self.type_params()?;
            self.expect_punct("=")?;
            let t = self.ty()?;
            self.expect_punct(";")?;
            return Ok(Sexp::call("type", vec![b(exported), Sexp::str(n), Sexp::list(ps), t]));
        }
        if self.eat_ident("const") {
            let n = self.ident()?;
            let mut t = Sexp::call("none", vec![]);
            let mut init = Sexp::call("none", vec![]);
            if self.eat_punct(":") {
                t = self.ty()?;
            }
            if self.eat_punct("=") {
                init = self.json()?;
                while self.eat_ident("as") {
                    t = self.ty()?;
                }
            }
            self.eat_punct(";");
            return Ok(Sexp::call("const", vec![b(exported), b(declared), Sexp::str(n), t, init]));
        }
        self.err("expected a statement")
    }
    pub fn file(&mut self) -> R<Vec<Sexp>> {
        let mut out = vec![];
        while !matches!(self.peek(), Tok::Eof) {
            out.push(self.stmt()?);
        }
        Ok(out)
    }
}

/// parse a whole emitted file into `(tsfile stmt…)`
pub fn parse_file(src: &str) -> Result<Sexp, TsError> {
    let mut p = Parser::new(src)?;
    Ok(Sexp::call("tsfile", p.file()?))
}

/// parse a single type expression (e.g. a configured scalar type text)
pub fn parse_type(src: &str) -> Result<Sexp, TsError> {
    let mut p = Parser::new(src)?;
    let t = p.ty()?;
    if !matches!(p.peek(), Tok::Eof) {
        return p.err("trailing tokens after type");
    }
    Ok(t)
}
