//! Helpers that run the REAL nitrogql pipeline stages on texts (parse → merge → builtins → extension
//! resolution → schema check → type system → operation check), the way `crates/cli` composes them.
use crate::catch;
use graphql_type_system::Schema;
use nitrogql_ast::{base::Pos, set_current_file_of_pos, OperationDocument, TypeSystemDocument, TypeSystemOrExtensionDocument};
use nitrogql_checker::{check_operation_document, check_type_system_document, CheckError, OperationCheckContext};
use nitrogql_error::PositionedError;
use nitrogql_parser::{parse_operation_document, parse_type_system_document};
use nitrogql_semantics::{ast_to_type_system, resolve_operation_extensions, resolve_schema_extensions};
use std::borrow::Cow;

/// the nitrogql-only built-in of crates/cli/src/builtins.rs, as SDL (the CLI builds the same AST by hand)
pub const NITROGQL_BUILTINS_SDL: &str =
    "directive @nitrogql_ts_type(resolverInput: String!, resolverOutput: String!, operationInput: String!, operationOutput: String!) on SCALAR\n";

/// one diagnostic, canonicalised: kind = variant name of `CheckErrorMessage` (or a stage tag)
#[derive(Clone, Debug, PartialEq, Eq, PartialOrd, Ord, Hash)]
pub struct Diag {
    pub stage: &'static str,
    pub kind: String,
    pub line: usize,
    pub col: usize,
    pub file: usize,
    pub builtin: bool,
    pub message: String,
}

pub fn kind_of_message(m: &impl std::fmt::Debug) -> String {
    let s = format!("{m:?}");
    s.split(|c: char| !(c.is_alphanumeric() || c == '_')).next().unwrap_or("").to_string()
}

pub fn diag_of_check(stage: &'static str, e: &CheckError) -> Diag {
    Diag {
        stage,
        kind: kind_of_message(&e.message),
        line: e.position.line,
        col: e.position.column,
        file: e.position.file,
        builtin: e.position.builtin,
        message: e.message.to_string(),
    }
}

pub fn diag_of_positioned(stage: &'static str, kind: &str, e: PositionedError) -> Diag {
    let p = e.position();
    let message = format!("{}", e.into_inner());
    Diag {
        stage,
        kind: kind.to_string(),
        line: p.map_or(0, |p| p.line),
        col: p.map_or(0, |p| p.column),
        file: p.map_or(0, |p| p.file),
        builtin: p.map_or(true, |p| p.builtin),
        message,
    }
}

#[derive(Debug)]
pub enum Stage {
    /// a stage panicked: (stage name, panic message)
    Panic(&'static str, String),
    /// diagnostics of the first failing stage
    Diags(Vec<Diag>),
}

/// Run the schema stages on `texts` (one per schema file) and, if the schema is accepted, call `f` with
/// the resolved document and the type system built from it.
pub fn with_schema<R>(
    texts: &[String],
    f: impl FnOnce(&TypeSystemDocument, &Schema<Cow<str>, Pos>) -> R,
) -> Result<R, Stage> {
    let texts: Vec<String> = texts.to_vec();
    let nb_text = NITROGQL_BUILTINS_SDL.to_string();
    let r = catch(std::panic::AssertUnwindSafe(|| {
        let mut docs: Vec<TypeSystemOrExtensionDocument> = vec![];
        for (i, t) in texts.iter().enumerate() {
            set_current_file_of_pos(i);
            match parse_type_system_document(t) {
                Ok(d) => docs.push(d),
                Err(e) => return Err(Stage::Diags(vec![diag_of_positioned("parse-schema", "ParseError", e.into())])),
            }
        }
        let mut merged = TypeSystemOrExtensionDocument::merge(docs);
        merged.extend(graphql_builtins::generate_builtins());
        let nb = parse_type_system_document(&nb_text).expect("builtin sdl");
        merged.extend(nb.definitions);
        let resolved = match resolve_schema_extensions(merged) {
            Ok(r) => r,
            Err(e) => {
                let kind = kind_of_message(&e);
                return Err(Stage::Diags(vec![diag_of_positioned("resolve-schema", &kind, e.into())]));
            }
        };
        let errs = check_type_system_document(&resolved);
        if !errs.is_empty() {
            return Err(Stage::Diags(errs.iter().map(|e| diag_of_check("check-schema", e)).collect()));
        }
        let schema = ast_to_type_system(&resolved);
        match catch(std::panic::AssertUnwindSafe(|| f(&resolved, &schema))) {
            Ok(v) => Ok(v),
            Err(p) => Err(Stage::Panic("after-schema", p)),
        }
    }));
    match r {
        Err(p) => Err(Stage::Panic("schema", p)),
        Ok(x) => x,
    }
}

/// The schema stages of the CLI for a schema given as an INTROSPECTION RESULT (`schema: x.json`): the real reader
/// `schema_from_introspection_json`, the built-in scalars added as `extend_loaded_schema` (crates/cli/src/main.rs) does,
/// and `type_system_to_ast` — the document `generate` hands to the schema / resolver type printers (every position in it
/// is `Pos::default()`). `f` sees that document and the schema the operations are checked against.
pub fn with_schema_json<R>(text: &str, f: impl FnOnce(&TypeSystemDocument, &Schema<Cow<str>, Pos>) -> R) -> Result<R, Stage> {
    use graphql_type_system::{Node, ScalarDefinition, TypeDefinition};
    let r = catch(std::panic::AssertUnwindSafe(|| {
        let mut schema = match nitrogql_introspection::schema_from_introspection_json::<Pos>(text) {
            Ok(s) => s,
            Err(e) => {
                return Err(Stage::Diags(vec![Diag { stage: "read-introspection", kind: "IntrospectionError".into(), line: 0, col: 0, file: 0, builtin: true, message: e.to_string() }]));
            }
        };
        schema.extend(["Int", "Float", "String", "Boolean", "ID"].map(|name| {
            (name.into(), Node::from(TypeDefinition::Scalar(ScalarDefinition { name: Node::from(name, Pos::builtin()), description: None }), Pos::builtin()))
        }));
        let ast = nitrogql_semantics::type_system_to_ast(&schema);
        match catch(std::panic::AssertUnwindSafe(|| f(&ast, &schema))) {
            Ok(v) => Ok(v),
            Err(p) => Err(Stage::Panic("after-schema", p)),
        }
    }));
    match r {
        Err(p) => Err(Stage::Panic("schema-json", p)),
        Ok(x) => x,
    }
}

/// parse + resolve extensions (imports must be empty) + check one operation document text
pub fn check_operation_text(schema: &Schema<Cow<str>, Pos>, text: &str, file: usize) -> Result<Vec<Diag>, Stage> {
    with_operation(schema, text, file, |_, diags| diags)
}

/// like `check_operation_text` but also hands the resolved document to `f`
pub fn with_operation<R>(
    schema: &Schema<Cow<str>, Pos>,
    text: &str,
    file: usize,
    f: impl FnOnce(&OperationDocument, Vec<Diag>) -> R,
) -> Result<R, Stage> {
    let r = catch(std::panic::AssertUnwindSafe(|| {
        set_current_file_of_pos(file);
        let doc = match parse_operation_document(text) {
            Ok(d) => d,
            Err(e) => return Err(Stage::Diags(vec![diag_of_positioned("parse-operation", "ParseError", e.into())])),
        };
        let (doc, _ext) = match resolve_operation_extensions(doc) {
            Ok(x) => x,
            Err(e) => {
                let kind = kind_of_message(&e);
                return Err(Stage::Diags(vec![diag_of_positioned("resolve-operation", &kind, e.into())]));
            }
        };
        let ctx = OperationCheckContext::new(schema);
        let errs = check_operation_document(&doc, &ctx);
        let diags: Vec<Diag> = errs.iter().map(|e| diag_of_check("check-operation", e)).collect();
        Ok((doc, diags))
    }));
    match r {
        Err(p) => Err(Stage::Panic("operation", p)),
        Ok(Err(s)) => Err(s),
        Ok(Ok((doc, diags))) => match catch(std::panic::AssertUnwindSafe(|| f(&doc, diags))) {
            Ok(v) => Ok(v),
            Err(p) => Err(Stage::Panic("after-operation-check", p)),
        },
    }
}

// ---------------------------------------------------------------------------------------------
// printers (library entry points, composed as crates/cli/src/generate.rs does)

use nitrogql_config_file::Config;
use nitrogql_printer::{
    print_js_for_operation_document, print_types_for_operation_document, OperationJSPrinterOptions, OperationTypePrinterOptions, ResolverTypePrinter,
    ResolverTypePrinterOptions, SchemaTypePrinter, SchemaTypePrinterOptions,
};
use sourcemap_writer::JustWriter;

/// parse a YAML/JSON config text (the real `parse_config`); panics are caught
pub fn parse_config_text(text: &str) -> Result<Option<Config>, String> {
    let t = text.to_string();
    catch(move || nitrogql_config_file::parse_config(&t))
}

/// the schema declaration file text (`schemaOutput`)
pub fn print_schema_types(resolved: &TypeSystemDocument, config: &Config) -> Result<String, String> {
    catch(std::panic::AssertUnwindSafe(|| {
        let mut result = String::new();
        let mut writer = JustWriter::new(&mut result);
        let options = SchemaTypePrinterOptions::from_config(config);
        let mut printer = SchemaTypePrinter::new(options, &mut writer);
        match printer.print_document(resolved) {
            Ok(()) => Ok(result),
            Err(e) => Err(format!("SchemaTypePrinter error: {e}")),
        }
    }))
    .and_then(|x| x)
}

/// the resolvers declaration file text (`resolversOutput`), without plugins
pub fn print_resolver_types(resolved: &TypeSystemDocument, config: &Config) -> Result<String, String> {
    catch(std::panic::AssertUnwindSafe(|| {
        let mut result = String::new();
        let mut writer = JustWriter::new(&mut result);
        let options = ResolverTypePrinterOptions::from_config(config);
        let mut printer = ResolverTypePrinter::new(options, &mut writer);
        let plugins: Vec<nitrogql_plugin::Plugin> = vec![];
        match printer.print_document(resolved, &plugins) {
            Ok(()) => Ok(result),
            Err(e) => Err(format!("ResolverTypePrinter error: {e}")),
        }
    }))
    .and_then(|x| x)
}

/// the operation declaration file text for one (import-resolved) operation document
pub fn print_operation_types(schema: &Schema<Cow<str>, Pos>, doc: &OperationDocument, config: &Config) -> Result<String, String> {
    catch(std::panic::AssertUnwindSafe(|| {
        let mut result = String::new();
        let mut writer = JustWriter::new(&mut result);
        let options = OperationTypePrinterOptions::from_config(config);
        print_types_for_operation_document(options, schema, doc, &mut writer);
        result
    }))
}

/// the JavaScript module text the loaders produce for one operation document
pub fn print_operation_js(doc: &OperationDocument, config: &Config) -> Result<String, String> {
    catch(std::panic::AssertUnwindSafe(|| {
        let mut result = String::new();
        let mut writer = JustWriter::new(&mut result);
        let options = OperationJSPrinterOptions::from_config(config);
        print_js_for_operation_document(options, doc, &mut writer);
        result
    }))
}
