//! C13, CLI leg — the import graphs of the library streams written as operation-file PROJECTS and run through the
//! REAL built `nitrogql-cli check generate` (cli/src/check.rs `resolve_operations`: every configured document is a
//! root, all of them are registered with the shared `Operations` resolver).
//!
//! A project case is a `Case` whose `root` is irrelevant. File `/p/x.graphql` of the graph becomes
//! `<project>/ops/p/x.graphql`; the schema is trivial (`type Query { id: ID t: T } type T { id: ID }`). So that a
//! project whose imports are all satisfiable is CLEAN for the later checker stage, the CLI rendering names fragment
//! `N<k>` of file number `t` `F<t>n<k>` (an import line names what its target file would have to define — the import
//! structure is exactly that of the graph), and every file gets an operation `U<i>` that spreads every fragment its
//! import lines bring into its scope (so a fragment that was NOT brought in shows as an unknown-fragment error and a
//! fragment brought in twice shows as a duplicate-name error).
//!
//! Oracle (O, by the property's wording; computed here with lexical path normalisation, independent of the code under
//! test, and cross-checked against the Lean reference asked once per root):
//!   * every document is a root, so an import error must be reported (check fails, ≥ 1 import diagnostic) IFF some
//!     import line of some document is dangling (its file is not among the documents) or names a fragment its
//!     target does not define;
//!   * every import diagnostic is positioned at such a line (file, line, kind; the column of a missing name) and is
//!     the error the library resolver reports for some root;
//!   * no such line ⇒ no import diagnostic, the check succeeds (the project is clean by construction) and `generate`
//!     writes a type file for EVERY document (no document silently vanishes);
//!   * `*` combined with another target for one path literal (ill-formed) ⇒ an extension error in such a file.
use super::*;
use nvh::cli::{fresh_dir, lexical_normalize, run_cli};
use std::time::Duration;

pub const GLOBS: [&str; 2] = ["./ops/**/*.graphql", "ops/**/*.graphql"];
const SCHEMA: &str = "type Query { id: ID t: T }\ntype T { id: ID }\n";
/// a leaf document every error-family project has: the target of the missing-name lines
const LEAF: usize = 7;

pub struct CliEnv {
    pub cli: String,
    pub scratch: String,
    pub seq: usize,
    pub runs: usize,
    pub shrunk: BTreeMap<String, usize>,
}

#[derive(Clone, Debug)]
struct Diag {
    kind: &'static str,
    file: Option<usize>,
    line: usize,
    col: usize,
    msg: String,
}

#[derive(Clone, Debug)]
struct ProjOut {
    code: Option<i32>,
    timed_out: bool,
    json_ok: bool,
    /// command named by the top-level `error` object
    failed_command: Option<String>,
    diags: Vec<Diag>,
    /// documents for which `generate` reports a type definition file
    generated: BTreeSet<usize>,
    raw: String,
}

/// what the wording of the property says about a project
struct ProjSpec {
    /// (file, line) → kind ("notfound" | "nofrag"), for nofrag the target indices of the missing names
    broken: BTreeMap<(usize, usize), (&'static str, Vec<usize>)>,
    ill_formed: Vec<bool>,
    inner_dups: bool,
    cyclic: bool,
}

fn norm(p: &str) -> String {
    lexical_normalize(Path::new(p)).to_string_lossy().to_string()
}

/// resolved target file of every line, by lexical normalisation (independent of nitrogql_utils)
fn lexical_targets(case: &Case) -> Vec<Vec<Option<usize>>> {
    let by_path: HashMap<String, usize> = case.files.iter().enumerate().map(|(i, f)| (norm(&f.path), i)).collect();
    case.files.iter().map(|f| {
        let dir = Path::new(&f.path).parent().unwrap_or(Path::new("/")).to_path_buf();
        f.lines.iter().map(|l| by_path.get(&lexical_normalize(&dir.join(&l.rel)).to_string_lossy().to_string()).copied()).collect()
    }).collect()
}

fn proj_spec(case: &Case) -> ProjSpec {
    let targets = lexical_targets(case);
    let mut broken = BTreeMap::new();
    for (i, f) in case.files.iter().enumerate() {
        for (j, l) in f.lines.iter().enumerate() {
            match targets[i][j] {
                None => {
                    broken.insert((i, j), ("notfound", vec![]));
                }
                Some(t) => {
                    let missing: Vec<usize> = l.targets.iter().enumerate()
                        .filter(|(_, x)| matches!(x, Some(k) if !case.files[t].defs.contains(&Some(*k))))
                        .map(|(ti, _)| ti).collect();
                    if !missing.is_empty() {
                        broken.insert((i, j), ("nofrag", missing));
                    }
                }
            }
        }
    }
    let ill_formed = case.files.iter().map(|f| {
        let mut by_lit: BTreeMap<&str, (usize, usize)> = BTreeMap::new();
        for l in &f.lines {
            let e = by_lit.entry(l.rel.as_str()).or_default();
            e.0 += l.targets.len();
            e.1 += l.targets.iter().filter(|t| t.is_none()).count();
        }
        by_lit.values().any(|(n, w)| *w >= 1 && *n >= 2)
    }).collect();
    let inner_dups = case.files.iter().any(|f| {
        let mut seen = BTreeSet::new();
        f.defs.iter().flatten().any(|k| !seen.insert(*k))
    });
    // a directed cycle (self-imports included) among the documents
    let n = case.files.len();
    let mut cyclic = false;
    for s in 0..n {
        let mut seen = BTreeSet::new();
        let mut todo: Vec<usize> = targets[s].iter().flatten().copied().collect();
        while let Some(q) = todo.pop() {
            if q == s {
                cyclic = true;
                break;
            }
            if seen.insert(q) {
                todo.extend(targets[q].iter().flatten().copied());
            }
        }
    }
    ProjSpec { broken, ill_formed, inner_dups, cyclic }
}

/// text of document `i` in the project rendering; also the column of every target of every import line
fn project_text(case: &Case, i: usize, targets: &[Vec<Option<usize>>]) -> (String, Vec<Vec<usize>>) {
    let f = &case.files[i];
    let mut s = String::new();
    let mut cols = vec![];
    let mut brought: Vec<String> = vec![];
    for (j, l) in f.lines.iter().enumerate() {
        let mut line = String::from("#import ");
        let mut c = vec![];
        for (ti, t) in l.targets.iter().enumerate() {
            if ti > 0 {
                line.push_str(", ");
            }
            c.push(line.len());
            match (t, targets[i][j]) {
                (None, Some(tf)) => {
                    line.push('*');
                    for k in case.files[tf].defs.iter().flatten() {
                        brought.push(format!("F{tf}n{k}"));
                    }
                }
                (None, None) => line.push('*'),
                (Some(k), Some(tf)) => {
                    line.push_str(&format!("F{tf}n{k}"));
                    if case.files[tf].defs.contains(&Some(*k)) {
                        brought.push(format!("F{tf}n{k}"));
                    }
                }
                (Some(k), None) => line.push_str(&format!("X{k}")),
            }
        }
        line.push_str(&format!(" from \"{}\"\n", l.rel));
        s.push_str(&line);
        cols.push(c);
    }
    for (k, d) in f.defs.iter().enumerate() {
        match d {
            None => s.push_str(&format!("query Q{i}x{k} {{ id }}\n")),
            Some(n) => s.push_str(&format!("fragment F{i}n{n} on T {{ id }}\n")),
        }
    }
    let mut seen = BTreeSet::new();
    brought.retain(|b| seen.insert(b.clone()));
    if !brought.is_empty() {
        s.push_str(&format!("query U{i} {{ t {{ {} }} }}\n", brought.iter().map(|b| format!("...{b}")).collect::<Vec<_>>().join(" ")));
    }
    (s, cols)
}

/// a graph as a project case: every document registered, normalised paths
pub fn as_project(case: &Case) -> Case {
    let mut c = case.clone();
    c.root_registered = true;
    c.root = 0;
    for f in c.files.iter_mut() {
        f.path = norm(&f.path);
    }
    c
}

fn run_project(env: &mut CliEnv, case: &Case, glob: usize) -> (ProjOut, Vec<Vec<Vec<usize>>>) {
    env.seq += 1;
    env.runs += 1;
    let dir = fresh_dir(&env.scratch, &format!("c13cli/p{}", env.seq));
    let targets = lexical_targets(case);
    let mut all_cols = vec![];
    std::fs::write(dir.join("schema.graphql"), SCHEMA).expect("write schema");
    std::fs::write(dir.join("graphql.config.yaml"), format!("schema: ./schema.graphql\ndocuments: \"{}\"\nextensions:\n  nitrogql:\n    generate:\n      schemaOutput: ./gen/schema.d.ts\n", GLOBS[glob % GLOBS.len()])).expect("write config");
    for i in 0..case.files.len() {
        let (text, cols) = project_text(case, i, &targets);
        all_cols.push(cols);
        let full = dir.join(format!("ops{}", case.files[i].path));
        std::fs::create_dir_all(full.parent().unwrap()).expect("mkdir");
        std::fs::write(&full, text).expect("write document");
    }
    let r = run_cli(&env.cli, &dir, &["--output-format", "json", "check", "generate"], &[], Duration::from_secs(30));
    let by_path: HashMap<String, usize> = case.files.iter().enumerate().map(|(i, f)| (f.path.clone(), i)).collect();
    let ops_root = lexical_normalize(&dir.join("ops")).to_string_lossy().to_string();
    let file_of = |p: &str, strip: &str| -> Option<usize> {
        let n = lexical_normalize(Path::new(p)).to_string_lossy().to_string();
        let rel = n.strip_prefix(&ops_root)?;
        let rel = match rel.strip_suffix(strip) {
            Some(stem) if !strip.is_empty() => format!("{stem}.graphql"),
            _ => rel.to_string(),
        };
        by_path.get(&rel).copied()
    };
    let mut out = ProjOut { code: r.code, timed_out: r.timed_out, json_ok: false, failed_command: None, diags: vec![], generated: BTreeSet::new(), raw: format!("{} {}", r.stdout.trim(), r.stderr.trim()) };
    if let Ok(v) = serde_json::from_str::<Value>(r.stdout.trim()) {
        out.json_ok = v.get("check").is_some();
        out.failed_command = v["error"]["command"].as_str().map(|s| s.to_string());
        for e in v["check"]["errors"].as_array().cloned().unwrap_or_default() {
            let msg = e["message"].as_str().unwrap_or("").to_string();
            out.diags.push(Diag {
                kind: classify_message(&msg),
                file: e["file"]["path"].as_str().and_then(|p| file_of(p, "")),
                line: e["file"]["line"].as_u64().unwrap_or(u64::MAX) as usize,
                col: e["file"]["column"].as_u64().unwrap_or(u64::MAX) as usize,
                msg,
            });
        }
        for g in v["generate"]["files"].as_array().cloned().unwrap_or_default() {
            if g["fileType"].as_str() == Some("operationTypeDefinition") {
                if let Some(i) = g["path"].as_str().and_then(|p| file_of(p, ".d.graphql.ts")) {
                    // the file must really be there
                    if g["path"].as_str().map_or(false, |p| Path::new(p).exists()) {
                        out.generated.insert(i);
                    }
                }
            }
        }
    }
    let _ = std::fs::remove_dir_all(&dir);
    (out, all_cols)
}

/// (kind, document, line, target index or -1) of a library answer `(err …)`
fn lib_error(real: &Sexp) -> Option<(String, String, i128, i128)> {
    if real.head() != Some("err") {
        return None;
    }
    let a = real.args();
    let kind = a.first()?.to_line();
    let doc = match a.get(1)? {
        Sexp::Str(s) => s.clone(),
        x => x.to_line(),
    };
    let line: i128 = a.get(2)?.to_line().parse().ok()?;
    let col: i128 = a.get(3).and_then(|c| c.to_line().parse().ok()).unwrap_or(-1);
    Some((kind, doc, line, col))
}

/// verdict of one project run: None = agrees with the property, Some((class, description))
fn judge(case: &Case, spec: &ProjSpec, out: &ProjOut, cols: &[Vec<Vec<usize>>], lib: &[Sexp]) -> Option<(String, String)> {
    let show = |out: &ProjOut| -> String {
        let d: Vec<String> = out.diags.iter().map(|d| format!("{}@{}:{}:{} «{}»", d.kind, d.file.map_or("?".to_string(), |i| case.files[i].path.clone()), d.line, d.col, trunc(&d.msg, 80))).collect();
        format!("exit {:?}, failed command {:?}, diagnostics [{}], type files for {}/{} documents", out.code, out.failed_command, d.join("; "), out.generated.len(), case.files.len())
    };
    if out.timed_out || out.code.is_none() || !out.json_ok || !matches!(out.code, Some(0) | Some(1)) {
        return Some(("crash".into(), format!("the CLI crashed / timed out / printed no JSON: exit {:?} {}", out.code, trunc(&out.raw, 400))));
    }
    let check_failed = out.code != Some(0) && out.failed_command.as_deref() == Some("check");
    let imp: Vec<&Diag> = out.diags.iter().filter(|d| d.kind == "notfound" || d.kind == "nofrag").collect();
    let ext: Vec<&Diag> = out.diags.iter().filter(|d| d.kind == "once" || d.kind == "combined").collect();
    if spec.ill_formed.iter().any(|b| *b) {
        if !check_failed || ext.is_empty() {
            return Some(("ext-err-missing".into(), format!("`*` is combined with other targets for one path literal, but no extension error is reported: {}", show(out))));
        }
        if let Some(d) = ext.iter().find(|d| !d.file.map_or(false, |i| spec.ill_formed[i])) {
            return Some(("ext-err-misplaced".into(), format!("extension error «{}» is not positioned in an ill-formed document: {}", d.msg, show(out))));
        }
        return None;
    }
    if !ext.is_empty() {
        return Some(("ext-err-unexpected".into(), format!("import lines are well-formed but an extension error is reported: {}", show(out))));
    }
    if !spec.broken.is_empty() {
        let lines: Vec<String> = spec.broken.iter().map(|((i, j), (k, _))| format!("{} line {j} ({k})", case.files[*i].path)).collect();
        if !check_failed || imp.is_empty() {
            return Some(("err-missing".into(), format!("import lines [{}] are dangling / name a missing fragment (every document is a root), but no import error is reported: {}", lines.join(", "), show(out))));
        }
        let lib_errs: BTreeSet<(String, String, i128, i128)> = lib.iter().filter_map(lib_error).collect();
        for d in &imp {
            let Some(i) = d.file else {
                return Some(("err-misplaced".into(), format!("import error positioned outside the documents: {}", show(out))));
            };
            let ok = match spec.broken.get(&(i, d.line)) {
                Some((kind, missing)) if *kind == d.kind => d.kind == "notfound" || missing.iter().any(|ti| cols[i][d.line].get(*ti) == Some(&d.col)),
                _ => false,
            };
            if !ok {
                return Some(("err-misplaced".into(), format!("an import error is not positioned at a dangling line / missing name of that kind (those are [{}]): {}", lines.join(", "), show(out))));
            }
            let ti: i128 = if d.kind == "nofrag" { cols[i][d.line].iter().position(|c| *c == d.col).map_or(-1, |x| x as i128) } else { -1 };
            if !lib_errs.contains(&(d.kind.to_string(), case.files[i].path.clone(), d.line as i128, ti)) {
                return Some(("err-not-library".into(), format!("import error {}@{}:{} is the library resolver's error for no root (library: {:?}): {}", d.kind, case.files[i].path, d.line, lib_errs, show(out))));
            }
        }
        return None;
    }
    if !imp.is_empty() {
        return Some(("err-unexpected".into(), format!("no import line is dangling or names a missing fragment, but an import error is reported: {}", show(out))));
    }
    if check_failed {
        if spec.inner_dups {
            return None; // a document defines one name twice: the checker's business
        }
        if out.diags.iter().any(|d| d.msg.contains("Duplicate fragment name")) {
            return Some(("dup-import".into(), format!("fragment names are unique per document, yet a duplicate is reported (a definition was brought in more than once): {}", show(out))));
        }
        return Some(("check-fails".into(), format!("every import is satisfiable and every document only uses what its import lines bring in, but the check fails: {}", show(out))));
    }
    if out.code == Some(0) && out.generated.len() != case.files.len() {
        let lost: Vec<&str> = (0..case.files.len()).filter(|i| !out.generated.contains(i)).map(|i| case.files[i].path.as_str()).collect();
        return Some(("docs-dropped".into(), format!("the check succeeds but documents {lost:?} got no type file: {}", show(out))));
    }
    None
}

impl<'a> Ctx<'a> {
    /// run the CLI on the project; returns the verdict and whether the run was an observation of a clean success
    fn eval_project(&mut self, case: &Case, glob: usize, feed_streams: bool) -> Option<(String, String)> {
        let spec = proj_spec(case);
        // library + Lean reference, once per root
        let roots: Vec<Case> = (0..case.files.len()).map(|i| Case { files: case.files.clone(), root: i, root_registered: true }).collect();
        let reqs: Vec<Sexp> = roots.iter().map(request).collect();
        let answers = self.drv.batch(&reqs);
        let mut lib = vec![];
        let mut spec_err = false;
        let mut spec_ill = false;
        for (c, ans) in roots.iter().zip(answers) {
            let (real, own) = self.real.run(c);
            let a = ans.args();
            let model = a.get(if self.legacy { 1 } else { 0 }).cloned().unwrap_or(Sexp::atom("none"));
            let sp = a.get(2).cloned().unwrap_or(Sexp::atom("none"));
            spec_err |= sp.head() == Some("err");
            spec_ill |= sp.head() == Some("ill-formed");
            lib.push(real.clone());
            if feed_streams {
                self.check_one(c, false, real, own, model, sp);
            }
        }
        // the oracle written here and the Lean reference must tell the same story about the project
        let here_ill = spec.ill_formed.iter().any(|b| *b);
        if here_ill != spec_ill || (!here_ill && spec_err != !spec.broken.is_empty()) {
            self.rep.fail("K", "cli-oracle-vs-reference", &format!("project oracle (ill-formed {here_ill}, broken lines {:?}) ≠ Lean reference over all roots (ill-formed {spec_ill}, error {spec_err})", spec.broken.keys().collect::<Vec<_>>()), json!({"cli_project": case.to_json(), "glob": glob}));
            return None;
        }
        let env = self.cli.as_mut().expect("cli leg without --cli");
        let (out, cols) = run_project(env, case, glob);
        judge(case, &spec, &out, &cols, &lib)
    }

    pub fn check_project(&mut self, case: &Case, glob: usize) {
        if self.cli.is_none() {
            return;
        }
        let spec = proj_spec(case);
        self.rep.o_cases += 1;
        self.rep.count("cli:projects");
        self.rep.count(&format!("cli:documents:{}", case.files.len()));
        self.rep.count(if spec.cyclic { "cli:feature:cycle" } else { "cli:feature:acyclic" });
        let kinds: BTreeSet<&str> = spec.broken.values().map(|b| b.0).collect();
        let expect = if spec.ill_formed.iter().any(|b| *b) { "ill-formed" } else if spec.broken.is_empty() { "clean" } else { "import-error" };
        self.rep.count(&format!("cli:expect:{expect}"));
        if expect == "import-error" {
            self.rep.count(&format!("cli:broken-lines:{}", spec.broken.len().min(4)));
            let files: BTreeSet<usize> = spec.broken.keys().map(|k| k.0).collect();
            self.rep.count(&format!("cli:documents-with-broken-line:{}", files.len().min(4)));
            for k in kinds {
                self.rep.count(&format!("cli:feature:{k}"));
            }
            if spec.cyclic && files.len() >= 2 {
                self.rep.count("cli:feature:cycle-with-several-broken-documents");
            }
        }
        if case.files.len() >= 2 {
            self.rep.nontrivial(&format!("cli {}", case.text_key()));
        }
        let Some((class, what)) = self.eval_project(case, glob, true) else { return };
        self.rep.count(&format!("o-fail-unshrunk:cli:{class}"));
        let n = self.cli.as_ref().map_or(0, |e| *e.shrunk.get(&class).unwrap_or(&0));
        if n >= 3 {
            return;
        }
        self.cli.as_mut().unwrap().shrunk.insert(class.clone(), n + 1);
        let small = self.shrink(case, &Pred::Cli(class.clone(), glob));
        let what2 = match self.eval_project(&small, glob, false) {
            Some((c2, w2)) if c2 == class => w2,
            _ => what,
        };
        let sp = proj_spec(&small);
        let sig = format!("cli:{class}:{}", if sp.cyclic { "cycle" } else { "acyclic" });
        self.rep.fail("O", &sig, &what2, json!({"cli_project": small.to_json(), "glob": glob}));
    }

    pub fn holds_cli(&mut self, class: &str, glob: usize, c: &Case) -> bool {
        matches!(self.eval_project(c, glob, false), Some((k, _)) if k == class)
    }
}

// ------------------------------------------------------------------------------------------------ generators

/// skeleton × error placement: `edges` between the first n files, and per file one of
/// 0 none, 1 dangling first, 2 dangling last, 3 missing name first, 4 missing name last
fn family_case(n: usize, edges: &[(usize, usize)], placement: &[usize], rng: &mut Rng) -> Case {
    let mut files: Vec<FileG> = (0..n).map(|i| base_file(i, 2, true)).collect();
    files.push(FileG { path: PATHS[LEAF].to_string(), lines: vec![], defs: vec![Some(0)] });
    for (a, b) in edges {
        let style = if rng.chance(1, 5) { 1 + rng.below(4) } else { 0 };
        files[*a].lines.push(Line { rel: rel_spelling(PATHS[*a], PATHS[*b], style), targets: option_targets(rng.below(4)) });
    }
    for i in 0..n {
        let line = match placement[i] {
            1 | 2 => Line { rel: "./nowhere.graphql".into(), targets: option_targets(rng.below(4)) },
            3 | 4 => Line { rel: rel_spelling(PATHS[i], PATHS[LEAF], 0), targets: if rng.coin() { vec![Some(5)] } else { vec![Some(0), Some(5)] } },
            _ => continue,
        };
        if placement[i] % 2 == 1 {
            files[i].lines.insert(0, line);
        } else {
            files[i].lines.push(line);
        }
    }
    Case { files, root: 0, root_registered: true }
}

const SKEL2: [&[(usize, usize)]; 3] = [&[(0, 1)], &[(0, 1), (1, 0)], &[(0, 0), (0, 1)]];
const SKEL3: [&[(usize, usize)]; 6] = [
    &[(0, 1), (1, 2)],
    &[(0, 1), (1, 2), (2, 0)],
    &[(0, 1), (0, 2), (1, 2)],
    &[(0, 1), (1, 2), (2, 1)],
    &[(0, 2), (1, 2)],
    &[(0, 1), (1, 0), (1, 2), (2, 1)],
];

fn placements(n: usize) -> Vec<Vec<usize>> {
    let mut out = vec![vec![]];
    for _ in 0..n {
        out = out.into_iter().flat_map(|p: Vec<usize>| (0..5).map(move |x| { let mut q = p.clone(); q.push(x); q })).collect();
    }
    out
}

/// a random graph with broken import lines sprinkled over its documents
fn error_rich(rng: &mut Rng) -> Case {
    let mut c = as_project(&random_case(rng));
    let p = [1u32, 2, 4][rng.below(3)];
    let policy = rng.below(3);
    for i in 0..c.files.len() {
        if !rng.chance(p, 4) {
            continue;
        }
        let nl = c.files[i].lines.len();
        let line = if rng.coin() || c.files.len() < 2 {
            Line { rel: "./nowhere.graphql".into(), targets: option_targets(rng.below(4)) }
        } else {
            let t = rng.below(c.files.len());
            let (from, to) = (c.files[i].path.clone(), c.files[t].path.clone());
            Line { rel: rel_spelling(&from, &to, 4), targets: vec![Some(9)] }
        };
        let at = match policy { 0 => 0, 1 => nl, _ => rng.below(nl + 1) };
        c.files[i].lines.insert(at, line);
    }
    c
}

pub fn run_leg(ctx: &mut Ctx, rng: &mut Rng, thorough: bool) {
    if ctx.cli.is_none() {
        return;
    }
    let mut g = 0usize;
    let mut next_glob = || { g += 1; if g % 5 == 0 { 1 } else { 0 } };
    // 1. skeleton × placement families
    for sk in SKEL2 {
        for pl in placements(2) {
            let c = family_case(2, sk, &pl, rng);
            ctx.check_project(&c, next_glob());
        }
    }
    let all3: Vec<(usize, Vec<usize>)> = (0..SKEL3.len()).flat_map(|s| placements(3).into_iter().map(move |p| (s, p))).collect();
    let n3 = if thorough { all3.len() } else { 60 };
    let mut idx: Vec<usize> = (0..all3.len()).collect();
    rng.shuffle(&mut idx);
    for &k in idx.iter().take(n3) {
        let (s, pl) = &all3[k];
        let c = family_case(3, SKEL3[*s], pl, rng);
        ctx.check_project(&c, next_glob());
    }
    // 2. a sample of the bounded-exhaustive ≤3-file family, plain and decorated
    let mut cases = vec![];
    for (n, e, nf) in [(2usize, 4usize, vec![2usize, 2]), (3, 3, vec![1, 2, 0]), (3, 3, vec![2, 2, 2])] {
        enumerate(n, e, &nf, &mut |c| cases.push(c));
    }
    let nex = if thorough { 400 } else { 44 };
    for k in 0..nex {
        let c = &cases[rng.below(cases.len())];
        let c = if k % 2 == 0 { as_project(c) } else { as_project(&decorate(c, rng)) };
        ctx.check_project(&c, next_glob());
    }
    // 3. random graphs up to 8 files, plain and with broken lines sprinkled in
    let nr = if thorough { 400 } else { 36 };
    for k in 0..nr {
        let c = if k % 3 == 0 { as_project(&random_case(rng)) } else { error_rich(rng) };
        ctx.check_project(&c, next_glob());
    }
    let runs = ctx.cli.as_ref().map_or(0, |e| e.runs);
    ctx.rep.count_n("cli:runs-including-shrinking", runs as u64);
}

/// the CLI binary named by `--cli`; built into its own target directory if it is not there yet
pub fn locate_cli(args: &Args, rep: &mut Report) -> Option<CliEnv> {
    let cli = args.extra.get("cli").cloned().unwrap_or_default();
    if cli.is_empty() {
        rep.notes.push("CLI leg skipped: no --cli".into());
        return None;
    }
    if !Path::new(&cli).exists() {
        if let Some(target) = Path::new(&cli).parent().and_then(|p| p.parent()) {
            let _ = std::process::Command::new("cargo").args(["build", "--offline", "-p", "nitrogql-cli", "--target-dir"]).arg(target)
                .current_dir("/repo").stdout(std::process::Stdio::null()).stderr(std::process::Stdio::null()).status();
        }
    }
    if !Path::new(&cli).exists() {
        rep.notes.push(format!("CLI leg skipped: {cli} does not exist and could not be built"));
        return None;
    }
    let scratch = if args.scratch.is_empty() { std::env::temp_dir().to_string_lossy().to_string() } else { args.scratch.clone() };
    Some(CliEnv { cli, scratch, seq: 0, runs: 0, shrunk: BTreeMap::new() })
}
