//! Self-test of the shared vocabulary: render (canonical + noisy) → REAL parser → from_real → same model (with positions).
use nvh::gm::*;
use nvh::render::*;
use nvh::*;

fn main() {
    let op_src = r#"
#import F1, F2 from "./frags.graphql"
#import * from "../x.graphql"
query Q($a: Int! = 3 @d, $b: [String!]) @live(x: {k: [1, 2.5, "s\n\"q", true, null, E, $a]}) {
  me { id alias: name(first: 10) @skip(if: $a) ...F ... on User @x { id } ... { z } }
}
mutation { a }
subscription S { s }
fragment F on User @fd { id friends { ...F } }
"#;
    let doc = nitrogql_parser::parse_operation_document(op_src).expect("parse");
    let m = from_real_doc_ext(&doc);
    let mut m2 = m.clone();
    let (text, _) = render_doc(&mut m2, Style::canonical(), Rng::new(1));
    println!("{text}");
    let doc2 = nitrogql_parser::parse_operation_document(&text).expect("reparse");
    let m3 = from_real_doc_ext(&doc2);
    assert_eq!(strip_pos(&m.to_sexp()), strip_pos(&m3.to_sexp()), "roundtrip modulo positions");
    assert_eq!(m2.to_sexp().to_line(), m3.to_sexp().to_line(), "positions recorded by the renderer = positions reported by the parser");
    for seed in 0..200 {
        let mut m4 = m.clone();
        let (text, _) = render_doc(&mut m4, Style::noisy(), Rng::new(seed));
        let doc4 = match nitrogql_parser::parse_operation_document(&text) { Ok(d) => d, Err(e) => { println!("---\n{text}\n---"); panic!("noisy parse {seed}: {e:?}") } };
        let m5 = from_real_doc_ext(&doc4);
        if m4.to_sexp() != m5.to_sexp() {
            println!("---\n{text}\n---\nexpected {}\ngot      {}", m4.to_sexp(), m5.to_sexp());
            panic!("noisy positions seed {seed}");
        }
    }
    let ts_src = r#"
"schema desc"
schema @sd { query: Q mutation: M }
extend schema @x { subscription: S }
"""
block desc
"""
type Q implements I & J @d(a: 1) { "fd" f(a: Int = 1 @ad, "argdesc" b: [In!]!): String! @deprecated(reason: "x") g: Q }
interface I implements J { f: String }
interface J { f: String }
union U @u = | A | B
enum E @e { "vd" A @deprecated B }
input In @i { a: Int = 1 @x b: In }
scalar Date @specifiedBy(url: "u")
directive @d(a: Int) repeatable on OBJECT | FIELD_DEFINITION
extend type Q implements K @e { h: Int }
extend interface I @e { h: Int }
extend union U @e = C
extend enum E @e { C }
extend input In @e { c: Int }
extend scalar Date @e
"#;
    let doc = nitrogql_parser::parse_type_system_document(ts_src).expect("parse ts");
    let m = from_real_tsdoc_ext(&doc);
    let mut m2 = m.clone();
    let (text, _) = render_tsdoc(&mut m2, Style::canonical(), Rng::new(1));
    println!("{text}");
    let doc2 = nitrogql_parser::parse_type_system_document(&text).expect("reparse ts");
    let m3 = from_real_tsdoc_ext(&doc2);
    // block-string description is returned raw by the pinned parser; compare after re-rendering
    assert_eq!(strip_pos(&m.to_sexp()), strip_pos(&m3.to_sexp()), "ts roundtrip modulo positions");
    if m2.to_sexp() != m3.to_sexp() {
        println!("expected {}\ngot      {}", m2.to_sexp(), m3.to_sexp());
        panic!("ts positions");
    }
    for seed in 0..200 {
        let mut m4 = m.clone();
        let (text, _) = render_tsdoc(&mut m4, Style::noisy(), Rng::new(seed));
        let doc4 = match nitrogql_parser::parse_type_system_document(&text) { Ok(d) => d, Err(e) => { println!("---\n{text}\n---"); panic!("noisy ts parse {seed}: {e:?}") } };
        let m5 = from_real_tsdoc_ext(&doc4);
        if m4.to_sexp() != m5.to_sexp() {
            println!("---\n{text}\n---\nexpected {}\ngot      {}", m4.to_sexp(), m5.to_sexp());
            panic!("noisy ts positions seed {seed}");
        }
    }
    println!("vocab selftest ok");
}
