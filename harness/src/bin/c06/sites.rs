//! K stream `sites:*` of C06 — the printers' CALL SITES on the `SourceMapWriter` trait.
//!
//! `SourceMapWriter` is a trait and every printer is generic in it, so no hook is needed: `Rec` implements the
//! trait and logs every call with its arguments (`write(text)`, `write_for(text, node.position(), node.name())`,
//! `indent`, `dedent`; `write_fmt` is the trait's default = one `write`). The REAL printers
//! (`SchemaTypePrinter`, `ResolverTypePrinter`, `print_types_for_operation_document`,
//! `print_js_for_operation_document`) are run on `Rec` and the log is compared with the Lean model
//! (`Model/PrintMap.lean`, driver requests `sites.*`):
//!
//!   sites:schema     the FULL call sequence of the schema type printer (or its `ScalarTypeNotProvided` error)
//!   sites:resolvers  the FULL call sequence of the resolver type printer (no plugins)
//!   sites:optype     the projection of the operation type printer's sequence onto `write_for` calls whose node
//!                    position is not built in (every other `write_for` there is treated as `write` by `SourceWriter`)
//!   sites:opjs       the same projection for the JavaScript module printer
//!   sites:replay     the log, replayed call by call on the real `SourceWriter`, reproduces byte for byte what the
//!                    printer produces when it is run on the real `SourceWriter` directly (buffer, mappings, names) —
//!                    i.e. the log is complete; a few of these sequences are also fed to the `ops` stream
//!                    (real `SourceWriter` vs its Lean model, and the O judgement of the output)
//!
//! Inputs: `nvh::gen` schemas (noisy trivia, descriptions, one or two schema files, `extend` items, name clashes
//! that force `__tmp_` local names, `emitSchemaRuntime`, scalars without a type), `nvh::gen` documents (several
//! operations, anonymous operations, fragments; some fragments moved to a second file and appended the way
//! `resolve_operation_imports` appends imported definitions), random name options and modes.
use super::{Op, RealOut, N};
use graphql_type_system::Schema;
use nitrogql_ast::base::{HasPos, Pos};
use nitrogql_ast::operation::ExecutableDefinition;
use nitrogql_ast::{set_current_file_of_pos, OperationDocument, TypeSystemDocument};
use nitrogql_config_file::Config;
use nitrogql_parser::parse_operation_document;
use nitrogql_printer::{
    print_js_for_operation_document, print_types_for_operation_document, OperationJSPrinterOptions, OperationTypePrinterOptions, ResolverTypePrinter,
    ResolverTypePrinterOptions, SchemaTypePrinter, SchemaTypePrinterOptions,
};
use nitrogql_semantics::resolve_operation_extensions;
use nvh::gen::{gen_doc, gen_project_cfg, gen_schema, split_into_extensions, GenCfg, ProjectCfg, ScalarCfg, MODES};
use nvh::gm::{self, ExecDef, TsDoc, TsItem, TypeKind, P};
use nvh::real::{parse_config_text, with_schema};
use nvh::render::{render_doc, render_tsdoc, Style};
use nvh::*;
use serde_json::{json, Value};
use sourcemap_writer::{SourceMapWriter, SourceWriter};
use std::borrow::Cow;
use std::panic::AssertUnwindSafe;

// ------------------------------------------------------------------------------------- recording writer

#[derive(Clone, Debug, PartialEq)]
pub enum ROp {
    W(String),
    Wf { text: String, pos: Pos, name: Option<String> },
    In,
    De,
}

#[derive(Default)]
pub struct Rec {
    pub ops: Vec<ROp>,
}

impl SourceMapWriter for Rec {
    fn write(&mut self, chunk: &str) {
        self.ops.push(ROp::W(chunk.to_string()));
    }
    fn write_for(&mut self, chunk: &str, node: &impl HasPos) {
        self.ops.push(ROp::Wf { text: chunk.to_string(), pos: *node.position(), name: node.name().map(|s| s.to_string()) });
    }
    fn indent(&mut self) {
        self.ops.push(ROp::In);
    }
    fn dedent(&mut self) {
        self.ops.push(ROp::De);
    }
}

fn rop_to_sexp(op: &ROp) -> Sexp {
    match op {
        ROp::W(t) => Sexp::call("w", vec![Sexp::str(t.as_str())]),
        ROp::Wf { text, pos, name } => Sexp::call(
            "wf",
            vec![
                Sexp::str(text.as_str()),
                P::from_real(pos).to_sexp(),
                match name {
                    Some(n) => Sexp::str(n.as_str()),
                    None => Sexp::call("noname", vec![]),
                },
            ],
        ),
        ROp::In => Sexp::call("in", vec![]),
        ROp::De => Sexp::call("de", vec![]),
    }
}

fn is_mapped(op: &ROp) -> bool {
    matches!(op, ROp::Wf { pos, .. } if !pos.builtin)
}

fn to_writer_op(op: &ROp) -> Op {
    match op {
        ROp::W(t) => Op::W(t.clone()),
        ROp::Wf { text, pos, name } => Op::Wf { chunk: text.clone(), line: pos.line as u64, col: pos.column as u64, file: pos.file as u64, builtin: pos.builtin, name: name.clone() },
        ROp::In => Op::In,
        ROp::De => Op::De,
    }
}

/// the log replayed on the real `SourceWriter`
fn replay_on_real(ops: &[ROp]) -> Result<RealOut, String> {
    let ops: Vec<ROp> = ops.to_vec();
    catch(AssertUnwindSafe(move || {
        let mut w = SourceWriter::new();
        for op in &ops {
            match op {
                ROp::W(t) => w.write(t),
                ROp::Wf { text, pos, name } => w.write_for(text, &N { pos: *pos, name: name.clone() }),
                ROp::In => w.indent(),
                ROp::De => w.dedent(),
            }
        }
        let b = w.into_buffers();
        RealOut { buffer: b.buffer, mappings: b.source_map, names: b.names }
    }))
}

fn same_out(a: &Result<RealOut, String>, b: &Result<RealOut, String>) -> bool {
    match (a, b) {
        (Ok(x), Ok(y)) => x.buffer == y.buffer && x.mappings == y.mappings && x.names == y.names,
        (Err(_), Err(_)) => true,
        _ => false,
    }
}

// ------------------------------------------------------------------------------------------------ cases

#[derive(Clone, Debug)]
pub struct SCfg {
    pub scalars: Vec<(String, ScalarCfg)>,
    pub optional: Option<bool>,
    pub runtime: bool,
    pub mode: String,
    /// capitalize, query, mutation, subscription, fragment variable, result, variables, fragment type (None = not configured)
    pub capitalize: Option<bool>,
    pub suffixes: [Option<String>; 7],
    pub default_export: Option<bool>,
    /// `generate.export.operationResultType` / `variablesType` (None = not configured)
    pub export_result: Option<bool>,
    pub export_vars: Option<bool>,
    /// `OperationTypePrinterOptions::schema_source` (the CLI sets it after `from_config`; so does this harness)
    pub schema_source: String,
}

const SUFFIX_KEYS: [&str; 7] =
    ["queryVariableSuffix", "mutationVariableSuffix", "subscriptionVariableSuffix", "fragmentVariableSuffix", "operationResultTypeSuffix", "variablesTypeSuffix", "fragmentTypeSuffix"];
const SUFFIX_DEFAULTS: [&str; 7] = ["Query", "Mutation", "Subscription", "", "Result", "Variables", ""];

fn scalar_to_json(c: &ScalarCfg) -> Value {
    match c {
        ScalarCfg::Single(t) => json!({"single": t}),
        ScalarCfg::SendReceive { send, receive } => json!({"send": send, "receive": receive}),
        ScalarCfg::Separate { resolver_output, resolver_input, operation_output, operation_input } => json!({"ro": resolver_output, "ri": resolver_input, "oo": operation_output, "oi": operation_input}),
    }
}
fn scalar_from_json(v: &Value) -> ScalarCfg {
    let s = |k: &str| v[k].as_str().unwrap_or("").to_string();
    if v.get("single").is_some() {
        ScalarCfg::Single(s("single"))
    } else if v.get("send").is_some() {
        ScalarCfg::SendReceive { send: s("send"), receive: s("receive") }
    } else {
        ScalarCfg::Separate { resolver_output: s("ro"), resolver_input: s("ri"), operation_output: s("oo"), operation_input: s("oi") }
    }
}

impl SCfg {
    fn to_json(&self) -> Value {
        json!({
            "scalars": self.scalars.iter().map(|(n, c)| json!([n, scalar_to_json(c)])).collect::<Vec<_>>(),
            "optional": self.optional, "runtime": self.runtime, "mode": self.mode, "capitalize": self.capitalize,
            "suffixes": self.suffixes.iter().map(|s| json!(s)).collect::<Vec<_>>(), "default_export": self.default_export,
            "export_result": self.export_result, "export_vars": self.export_vars, "schema_source": self.schema_source,
        })
    }
    fn from_json(v: &Value) -> SCfg {
        let mut suffixes: [Option<String>; 7] = Default::default();
        if let Some(a) = v["suffixes"].as_array() {
            for (i, x) in a.iter().enumerate().take(7) {
                suffixes[i] = x.as_str().map(|s| s.to_string());
            }
        }
        SCfg {
            scalars: v["scalars"].as_array().map(|a| a.iter().map(|p| (p[0].as_str().unwrap_or("").to_string(), scalar_from_json(&p[1]))).collect()).unwrap_or_default(),
            optional: v["optional"].as_bool(),
            runtime: v["runtime"].as_bool().unwrap_or(false),
            mode: v["mode"].as_str().unwrap_or(MODES[0]).to_string(),
            capitalize: v["capitalize"].as_bool(),
            suffixes,
            default_export: v["default_export"].as_bool(),
            export_result: v["export_result"].as_bool(),
            export_vars: v["export_vars"].as_bool(),
            schema_source: v["schema_source"].as_str().unwrap_or("").to_string(),
        }
    }
    fn yaml(&self) -> String {
        let mode: &'static str = MODES.iter().copied().find(|m| *m == self.mode).unwrap_or(MODES[0]);
        let mut extra = vec![];
        if self.capitalize.is_some() || self.suffixes.iter().any(|s| s.is_some()) {
            extra.push("      name:".to_string());
            if let Some(b) = self.capitalize {
                extra.push(format!("        capitalizeOperationNames: {b}"));
            }
            for (k, s) in SUFFIX_KEYS.iter().zip(self.suffixes.iter()) {
                if let Some(s) = s {
                    extra.push(format!("        {k}: \"{s}\""));
                }
            }
        }
        if self.default_export.is_some() || self.export_result.is_some() || self.export_vars.is_some() {
            extra.push("      export:".to_string());
            if let Some(b) = self.default_export {
                extra.push(format!("        defaultExportForOperation: {b}"));
            }
            if let Some(b) = self.export_result {
                extra.push(format!("        operationResultType: {b}"));
            }
            if let Some(b) = self.export_vars {
                extra.push(format!("        variablesType: {b}"));
            }
        }
        let pc = ProjectCfg { mode, scalars: self.scalars.clone(), allow_undefined_as_optional_input: self.optional, emit_schema_runtime: self.runtime, extra_generate_lines: extra };
        pc.yaml("schema/*.graphql", "ops/*.graphql", &[("schemaOutput", "out/schema.d.ts")])
    }
    fn cfg_sexp(&self) -> Sexp {
        let sc: Vec<Sexp> = self
            .scalars
            .iter()
            .map(|(n, c)| match c {
                ScalarCfg::Single(t) => Sexp::call("single", vec![Sexp::str(n.as_str()), Sexp::str(t.as_str())]),
                ScalarCfg::SendReceive { send, receive } => Sexp::call("sendrecv", vec![Sexp::str(n.as_str()), Sexp::str(send.as_str()), Sexp::str(receive.as_str())]),
                ScalarCfg::Separate { resolver_output, resolver_input, operation_output, operation_input } => Sexp::call(
                    "separate",
                    vec![Sexp::str(n.as_str()), Sexp::str(resolver_output.as_str()), Sexp::str(resolver_input.as_str()), Sexp::str(operation_output.as_str()), Sexp::str(operation_input.as_str())],
                ),
            })
            .collect();
        Sexp::call("cfg", vec![Sexp::call("scalars", sc), Sexp::call("optional", vec![Sexp::bool(self.optional.unwrap_or(true))]), Sexp::call("runtime", vec![Sexp::bool(self.runtime)])])
    }
    fn opts_sexp(&self) -> Sexp {
        let mut v = vec![Sexp::bool(self.capitalize.unwrap_or(true))];
        for (s, d) in self.suffixes.iter().zip(SUFFIX_DEFAULTS.iter()) {
            v.push(Sexp::str(s.clone().unwrap_or_else(|| d.to_string())));
        }
        v.push(Sexp::bool(self.mode == "standalone-ts-4.0"));
        Sexp::call("opts", v)
    }
    /// the options of the FULL call-sequence model: what `OperationTypePrinterOptions::from_config` /
    /// `OperationBasePrinterOptions::from_config` compute from the configuration, computed here from the case
    fn fopts_sexp(&self) -> Sexp {
        let de = self.default_export.unwrap_or(true);
        Sexp::call(
            "fopts",
            vec![
                self.opts_sexp(),
                Sexp::bool(de),
                Sexp::bool(!de),
                Sexp::bool(self.export_vars.unwrap_or(false)),
                Sexp::bool(self.export_result.unwrap_or(false)),
                Sexp::str("Schema"),
                Sexp::str(self.schema_source.as_str()),
                Sexp::str("@graphql-typed-document-node/core"),
                Sexp::bool(self.optional.unwrap_or(true)),
            ],
        )
    }
}

#[derive(Clone, Debug)]
pub struct SitesCase {
    /// schema files, in file-store order (file index = position)
    pub schema: Vec<String>,
    /// the operation file (file index = schema.len()) and, optionally, a file of fragments (next index) whose
    /// fragment definitions are appended to the document as `resolve_operation_imports` does
    pub main: Option<String>,
    pub imported: Option<String>,
    pub cfg: SCfg,
    pub origin: String,
}

impl SitesCase {
    pub fn to_json(&self) -> Value {
        json!({"kind": "sites", "schema": self.schema, "main": self.main, "imported": self.imported, "cfg": self.cfg.to_json(), "origin": self.origin})
    }
    pub fn from_json(v: &Value) -> SitesCase {
        SitesCase {
            schema: v["schema"].as_array().map(|a| a.iter().map(|x| x.as_str().unwrap_or("").to_string()).collect()).unwrap_or_default(),
            main: v["main"].as_str().map(|s| s.to_string()),
            imported: v["imported"].as_str().map(|s| s.to_string()),
            cfg: SCfg::from_json(&v["cfg"]),
            origin: v["origin"].as_str().unwrap_or("replay").to_string(),
        }
    }
}

fn plain_cfg() -> SCfg {
    SCfg {
        scalars: vec![],
        optional: None,
        runtime: false,
        mode: MODES[0].to_string(),
        capitalize: None,
        suffixes: Default::default(),
        default_export: None,
        export_result: None,
        export_vars: None,
        schema_source: String::new(),
    }
}

pub fn corpus() -> Vec<SitesCase> {
    let mut out = vec![];
    // every kind, descriptions, a deprecated field, a union, an interface, an explicit schema definition
    out.push(SitesCase {
        schema: vec![
            "\"\"\"\nroot\n\"\"\"\nschema { query: Q mutation: M }\nscalar Date\n\"an object\"\ntype Q implements Node {\n  id: ID!\n  \"when\"\n  at(zone: String = \"utc\", n: [Int!]): Date @deprecated(reason: \"old\")\n  any: [Any]\n  c: Color!\n}\ntype M { set(f: Filter!): Q }\ninterface Node { id: ID! }\nunion Any = Q | M\nenum Color { RED GREEN }\ninput Filter { q: String tags: [String!]! = [] sub: Filter }\n"
                .into(),
        ],
        main: Some("query getIt($f: Filter!) { ...F any { __typename } }\nfragment F on Q { id c }\nmutation { set(f: {tags: []}) { id } }\n".into()),
        imported: None,
        cfg: SCfg { scalars: vec![("Date".into(), ScalarCfg::Single("string".into()))], ..plain_cfg() },
        origin: "corpus:all-kinds".into(),
    });
    // a scalar type text that mentions schema type names: `Q` and `Color` get `__tmp_` local names; runtime enums;
    // two schema files; default root type names; an `extend`; an imported fragment file; names not capitalised
    out.push(SitesCase {
        schema: vec![
            "scalar Date\ntype Query { q: Q c: Color d: Date u: U }\ntype Q { a: Int }\nextend type Q { b: [Q!] }\n".into(),
            "enum Color { RED\n GREEN }\nunion U = Q | Query\ntype Subscription { tick: Int }\n".into(),
        ],
        main: Some("query a { q { ...Imp } }\nsubscription b { tick }\n".into()),
        imported: Some("\n\n  fragment Imp on Q { a b { a } }\n".into()),
        cfg: SCfg {
            scalars: vec![("Date".into(), ScalarCfg::SendReceive { send: "Q | Color".into(), receive: "string".into() })],
            runtime: true,
            optional: Some(false),
            mode: "standalone-ts-4.0".into(),
            capitalize: Some(false),
            suffixes: [Some("Doc".into()), None, Some("".into()), Some("Frag".into()), Some("R".into()), Some("V".into()), Some("T".into())],
            default_export: Some(false),
            export_result: Some(true),
            export_vars: Some(true),
            schema_source: "../out/schema".into(),
        },
        origin: "corpus:renamed-runtime-two-files-import".into(),
    });
    // a scalar without a TypeScript type: the schema printer stops with ScalarTypeNotProvided
    out.push(SitesCase { schema: vec!["scalar Date\ntype Query { d: Date }\n".into()], main: None, imported: None, cfg: plain_cfg(), origin: "corpus:scalar-without-type".into() });
    // standalone mode: runtime JSON with every class of the json-writer escape table (quote, backslash, slash, \b \f \n \r \t,
    // other control characters, DEL and non-ASCII are NOT escaped), a block string, variables with defaults and directives;
    // result and variables types exported; one operation only (default export unless configured otherwise)
    out.push(SitesCase {
        schema: vec!["type Query { greeting(text: String, n: [Int!]): String me: Query }\n".into()],
        main: Some(
            "query q($v: String = \"x/y\", $n: [Int!]! = [1, 2], $b: Boolean! = false) {\n  greeting(text: \"a\\\"b\\\\c/d\\n\\t\\r\\b\\f\\u0001\\u001f\\u007f é😀\")\n  b: greeting(text: \"\"\"\n    blk \"q\" \\ line\n      two\n  \"\"\", n: $n) @skip(if: $b)\n  me { ...F me { greeting(text: $v) } }\n}\nfragment F on Query { g: greeting __typename }\n"
                .into(),
        ),
        imported: None,
        cfg: SCfg { mode: "standalone-ts-4.0".into(), export_result: Some(true), export_vars: Some(true), schema_source: "./schema".into(), ..plain_cfg() },
        origin: "corpus:standalone-json-escapes".into(),
    });
    // the anonymous shorthand query
    out.push(SitesCase { schema: vec!["type Query { a: Int }\n".into()], main: Some("  { a }\n".into()), imported: None, cfg: plain_cfg(), origin: "corpus:shorthand".into() });
    out
}

pub fn generated(rng: &mut Rng, i: usize) -> SitesCase {
    let gcfg = GenCfg { hostile_text: i % 4 == 3, ts_type_directive: i % 3 == 0, ..GenCfg::default() };
    let schema = gen_schema(rng, &gcfg);
    let pc = gen_project_cfg(rng, &schema, i % 2 == 0);
    let mut origin = format!("generated:{i}");
    let mut cfg = SCfg {
        scalars: pc.scalars.clone(),
        optional: pc.allow_undefined_as_optional_input,
        runtime: i % 3 == 1,
        mode: pc.mode.to_string(),
        capitalize: match rng.below(3) {
            0 => None,
            1 => Some(true),
            _ => Some(false),
        },
        suffixes: Default::default(),
        default_export: match rng.below(3) {
            0 => None,
            1 => Some(true),
            _ => Some(false),
        },
        export_result: None,
        export_vars: None,
        schema_source: String::new(),
    };
    for k in 0..7 {
        if rng.chance(1, 3) {
            cfg.suffixes[k] = Some(["", "Query", "Doc", "_x", "Type", "Q1"][rng.below(6)].to_string());
        }
    }
    // sometimes one custom scalar loses its configured type (error path unless a directive supplies it)
    let customs: Vec<String> = schema.types().filter(|t| t.kind == TypeKind::Scalar).map(|t| t.name.clone()).collect();
    if !customs.is_empty() && i % 11 == 5 {
        let n = customs[rng.below(customs.len())].clone();
        cfg.scalars.retain(|(m, _)| *m != n);
        origin.push_str(":scalar-type-dropped");
    }
    // the documents are generated against the merged schema
    let (mut doc, _features) = gen_doc(rng, &schema, &gcfg);
    // schema text: noisy trivia; a third of the cases with `extend` items; a third in two files
    let mut written: TsDoc = if i % 3 == 2 {
        origin.push_str(":extensions");
        split_into_extensions(rng, &schema)
    } else {
        schema.doc.clone()
    };
    let noisy = i % 5 != 0;
    let style = || if noisy { Style::noisy() } else { Style::canonical() };
    let schema_texts = if i % 3 == 1 && written.items.len() >= 2 {
        origin.push_str(":two-schema-files");
        let k = 1 + rng.below(written.items.len() - 1);
        let mut b = TsDoc { items: written.items.split_off(k) };
        // a schema definition must stay unique; extensions may live in either file
        vec![render_tsdoc(&mut written, style(), rng.fork()).0, render_tsdoc(&mut b, style(), rng.fork()).0]
    } else {
        vec![render_tsdoc(&mut written, style(), rng.fork()).0]
    };
    // operation text; half of the cases move a non-empty subset of the fragments to a second file
    let mut imported_doc = gm::Doc { defs: vec![] };
    if i % 2 == 1 {
        let mut keep = vec![];
        for d in doc.defs.drain(..) {
            if matches!(d, ExecDef::Frag(_)) && rng.coin() {
                imported_doc.defs.push(d);
            } else {
                keep.push(d);
            }
        }
        doc.defs = keep;
    }
    let main = render_doc(&mut doc, style(), rng.fork()).0;
    let imported = if imported_doc.defs.is_empty() {
        None
    } else {
        origin.push_str(":imported-fragments");
        Some(render_doc(&mut imported_doc, style(), rng.fork()).0)
    };
    // options that only the FULL call-sequence comparison sees (drawn last: the cases above stay what they were)
    let tri = |rng: &mut Rng| match rng.below(3) {
        0 => None,
        1 => Some(true),
        _ => Some(false),
    };
    cfg.export_result = tri(rng);
    cfg.export_vars = tri(rng);
    cfg.schema_source = ["", "./schema", "../generated/schema.d", "@/gql/schema"][rng.below(4)].to_string();
    SitesCase { schema: schema_texts, main: Some(main), imported, cfg, origin }
}

// ------------------------------------------------------------------------------------------- the stream

pub struct Sites<'a> {
    pub rep: &'a mut Report,
    pub drv: &'a mut Driver,
    /// recorded sequences handed to the `ops` stream afterwards (real SourceWriter vs its model)
    pub for_ops_stream: Vec<Vec<Op>>,
    pub ops_stream_budget: usize,
}

fn first_diff(real: &[Sexp], model: &[Sexp]) -> String {
    let n = real.len().min(model.len());
    for i in 0..n {
        if real[i] != model[i] {
            let ctx = |v: &[Sexp]| v[i.saturating_sub(2)..(i + 2).min(v.len())].iter().map(|s| s.to_string()).collect::<Vec<_>>().join(" ");
            return format!("first difference at call {i}: code {} model {} (code around: {}; model around: {})", real[i], model[i], ctx(real), ctx(model));
        }
    }
    format!("lengths differ: code {} calls, model {} calls; next: code {:?} model {:?}", real.len(), model.len(), real.get(n).map(|s| s.to_string()), model.get(n).map(|s| s.to_string()))
}

struct SchemaSide {
    tsdoc: TsDoc,
    schema_rec: Result<Result<Vec<ROp>, String>, String>,
    schema_direct: Result<RealOut, String>,
    resolvers_rec: Result<Vec<ROp>, String>,
    resolvers_direct: Result<RealOut, String>,
    ops_side: Option<OpsSide>,
}

struct OpsSide {
    doc: gm::Doc,
    sel_pos: Vec<P>,
    /// `document.position.file`
    doc_file: usize,
    ty_rec: Result<Vec<ROp>, String>,
    ty_direct: Result<RealOut, String>,
    js_rec: Result<Vec<ROp>, String>,
    js_direct: Result<RealOut, String>,
}

fn direct<F: FnOnce(&mut SourceWriter)>(f: F) -> Result<RealOut, String> {
    catch(AssertUnwindSafe(move || {
        let mut w = SourceWriter::new();
        f(&mut w);
        let b = w.into_buffers();
        RealOut { buffer: b.buffer, mappings: b.source_map, names: b.names }
    }))
}

fn run_schema_printers(resolved: &TypeSystemDocument, config: &Config) -> (Result<Result<Vec<ROp>, String>, String>, Result<RealOut, String>, Result<Vec<ROp>, String>, Result<RealOut, String>) {
    let schema_rec = catch(AssertUnwindSafe(|| {
        let mut rec = Rec::default();
        let mut printer = SchemaTypePrinter::new(SchemaTypePrinterOptions::from_config(config), &mut rec);
        match printer.print_document(resolved) {
            Ok(()) => Ok(rec.ops),
            Err(e) => Err(format!("{e:?}")),
        }
    }));
    let schema_direct = direct(|w| {
        let mut printer = SchemaTypePrinter::new(SchemaTypePrinterOptions::from_config(config), w);
        let _ = printer.print_document(resolved);
    });
    let plugins: Vec<nitrogql_plugin::Plugin> = vec![];
    let resolvers_rec = catch(AssertUnwindSafe(|| {
        let mut rec = Rec::default();
        let mut printer = ResolverTypePrinter::new(ResolverTypePrinterOptions::from_config(config), &mut rec);
        printer.print_document(resolved, &plugins).map_err(|e| format!("{e:?}")).expect("resolver printer error");
        rec.ops
    }));
    let resolvers_direct = direct(|w| {
        let mut printer = ResolverTypePrinter::new(ResolverTypePrinterOptions::from_config(config), w);
        let _ = printer.print_document(resolved, &plugins);
    });
    (schema_rec, schema_direct, resolvers_rec, resolvers_direct)
}

fn run_operation_printers(schema: &Schema<Cow<str>, Pos>, config: &Config, schema_source: &str, main: &str, imported: Option<&str>, first_file: usize) -> Result<OpsSide, String> {
    set_current_file_of_pos(first_file);
    let d = parse_operation_document(main).map_err(|e| format!("operation file does not parse: {e:?}"))?;
    let (mut doc, _ext): (OperationDocument, _) = resolve_operation_extensions(d).map_err(|e| format!("operation file: {e:?}"))?;
    let imported_doc;
    if let Some(t) = imported {
        set_current_file_of_pos(first_file + 1);
        let d = parse_operation_document(t).map_err(|e| format!("imported file does not parse: {e:?}"))?;
        imported_doc = resolve_operation_extensions(d).map_err(|e| format!("imported file: {e:?}"))?.0;
        // what `resolve_operation_imports` does with the requested definitions of an imported file
        doc.definitions.extend(imported_doc.definitions.iter().cloned());
    }
    let sel_pos: Vec<P> = doc
        .definitions
        .iter()
        .filter_map(|d| match d {
            ExecutableDefinition::OperationDefinition(o) => Some(P::from_real(&o.selection_set.position)),
            _ => None,
        })
        .collect();
    let model_doc = gm::from_real_doc(&doc);
    // as cli/src/generate.rs: `from_config`, then `schema_source` is filled in
    let type_options = || {
        let mut o = OperationTypePrinterOptions::from_config(config);
        o.schema_source = schema_source.to_string();
        o
    };
    let ty_rec = catch(AssertUnwindSafe(|| {
        let mut rec = Rec::default();
        print_types_for_operation_document(type_options(), schema, &doc, &mut rec);
        rec.ops
    }));
    let ty_direct = direct(|w| print_types_for_operation_document(type_options(), schema, &doc, w));
    let js_rec = catch(AssertUnwindSafe(|| {
        let mut rec = Rec::default();
        print_js_for_operation_document(OperationJSPrinterOptions::from_config(config), &doc, &mut rec);
        rec.ops
    }));
    let js_direct = direct(|w| print_js_for_operation_document(OperationJSPrinterOptions::from_config(config), &doc, w));
    Ok(OpsSide { doc: model_doc, sel_pos, doc_file: doc.position.file, ty_rec, ty_direct, js_rec, js_direct })
}

impl<'a> Sites<'a> {
    pub fn run(&mut self, case: &SitesCase) {
        self.rep.evaluations += 1;
        let cj = case.to_json();
        let yaml = case.cfg.yaml();
        let config = match parse_config_text(&yaml) {
            Ok(Some(c)) => c,
            other => {
                self.rep.fail("K", "sites:config-rejected", &format!("the generated config text is rejected: {other:?}\n{yaml}"), cj);
                return;
            }
        };
        let n_schema = case.schema.len();
        let main = case.main.clone();
        let imported = case.imported.clone();
        let schema_source = case.cfg.schema_source.clone();
        let r = with_schema(&case.schema, |resolved, schema| {
            let (schema_rec, schema_direct, resolvers_rec, resolvers_direct) = run_schema_printers(resolved, &config);
            let ops_side = main.as_ref().map(|m| run_operation_printers(schema, &config, &schema_source, m, imported.as_deref(), n_schema));
            (gm::from_real_tsdoc(resolved), schema_rec, schema_direct, resolvers_rec, resolvers_direct, ops_side)
        });
        let side = match r {
            Ok((tsdoc, schema_rec, schema_direct, resolvers_rec, resolvers_direct, ops_side)) => {
                let ops_side = match ops_side {
                    None => None,
                    Some(Ok(o)) => Some(o),
                    Some(Err(e)) => {
                        self.rep.count("sites:operation-file-rejected");
                        self.rep.notes.push(format!("{}: {e}", case.origin));
                        None
                    }
                };
                SchemaSide { tsdoc, schema_rec, schema_direct, resolvers_rec, resolvers_direct, ops_side }
            }
            Err(e) => {
                self.rep.count("sites:schema-rejected");
                if self.rep.notes.len() < 20 {
                    self.rep.notes.push(format!("{}: schema rejected: {e:?}", case.origin));
                }
                return;
            }
        };
        // ---- model
        let tsdoc_s = side.tsdoc.to_sexp();
        let mut reqs = vec![Sexp::call("sites.schema", vec![case.cfg.cfg_sexp(), tsdoc_s.clone()]), Sexp::call("sites.resolvers", vec![tsdoc_s])];
        if let Some(o) = &side.ops_side {
            reqs.push(Sexp::call("sites.optype", vec![case.cfg.opts_sexp(), o.doc.to_sexp(), Sexp::list(o.sel_pos.iter().map(|p| p.to_sexp()).collect())]));
            reqs.push(Sexp::call("sites.opjs", vec![case.cfg.opts_sexp(), o.doc.to_sexp()]));
            reqs.push(Sexp::call(
                "sites.optype.full",
                vec![case.cfg.fopts_sexp(), side.tsdoc.to_sexp(), o.doc.to_sexp(), Sexp::list(o.sel_pos.iter().map(|p| p.to_sexp()).collect()), Sexp::int(o.doc_file as i128)],
            ));
            reqs.push(Sexp::call("sites.opjs.full", vec![case.cfg.fopts_sexp(), o.doc.to_sexp(), Sexp::int(o.doc_file as i128)]));
        }
        let ans = self.drv.batch(&reqs);

        // ---- sites:schema (full sequence)
        self.rep.k_cases += 1;
        match &side.schema_rec {
            Err(p) => {
                self.rep.fail("K", "sites:schema:printer-panics", &format!("SchemaTypePrinter panics: {p}"), cj.clone());
            }
            Ok(Err(e)) => {
                self.rep.count("sites:schema:ScalarTypeNotProvided");
                let ok = ans[0].head() == Some("err") && ans[0].args().get(1).and_then(|x| x.as_str()).map_or(false, |n| e.contains(&format!("{n:?}")));
                if !ok {
                    self.rep.fail("K", "sites:schema:error-differs", &format!("code stops with {e}, model answers {}", trunc(&ans[0].to_string())), cj.clone());
                }
            }
            Ok(Ok(ops)) => {
                let real: Vec<Sexp> = ops.iter().map(rop_to_sexp).collect();
                self.compare("schema", &real, &ans[0], &cj);
                self.count_features("schema", ops, &side.tsdoc);
                self.check_replay("schema", ops, &side.schema_direct, &cj);
                self.rep.count_n("sites:schema:calls", ops.len() as u64);
                self.rep.count_n("sites:schema:mapped-calls", ops.iter().filter(|o| is_mapped(o)).count() as u64);
                if ops.iter().any(is_mapped) {
                    self.rep.nontrivial(&format!("schema{:?}", ops.iter().filter(|o| is_mapped(o)).collect::<Vec<_>>()));
                }
            }
        }
        // ---- sites:resolvers (full sequence)
        self.rep.k_cases += 1;
        match &side.resolvers_rec {
            Err(p) => self.rep.fail("K", "sites:resolvers:printer-panics", &format!("ResolverTypePrinter panics: {p}"), cj.clone()),
            Ok(ops) => {
                let real: Vec<Sexp> = ops.iter().map(rop_to_sexp).collect();
                self.compare("resolvers", &real, &ans[1], &cj);
                self.check_replay("resolvers", ops, &side.resolvers_direct, &cj);
                self.rep.count_n("sites:resolvers:calls", ops.len() as u64);
                self.rep.count_n("sites:resolvers:mapped-calls", ops.iter().filter(|o| is_mapped(o)).count() as u64);
            }
        }
        // ---- sites:optype / sites:opjs (projection onto mapped calls)
        if let Some(o) = &side.ops_side {
            for (which, rec, dir, a) in [("optype", &o.ty_rec, &o.ty_direct, &ans[2]), ("opjs", &o.js_rec, &o.js_direct, &ans[3])] {
                self.rep.k_cases += 1;
                match rec {
                    Err(p) => {
                        // the operation type printer has known panics on odd inputs (other properties); not this stream's business
                        self.rep.count(&format!("sites:{which}:printer-panics"));
                        if self.rep.notes.len() < 20 {
                            self.rep.notes.push(format!("{}: {which} printer panics: {p}", case.origin));
                        }
                    }
                    Ok(ops) => {
                        let real: Vec<Sexp> = ops.iter().filter(|x| is_mapped(x)).map(rop_to_sexp).collect();
                        self.compare(which, &real, a, &cj);
                        self.check_replay(which, ops, dir, &cj);
                        self.rep.count_n(&format!("sites:{which}:calls"), ops.len() as u64);
                        self.rep.count_n(&format!("sites:{which}:mapped-calls"), real.len() as u64);
                        self.rep.count_n(&format!("sites:{which}:write_for-with-builtin-position(treated-as-write)"), ops.iter().filter(|x| matches!(x, ROp::Wf { pos, .. } if pos.builtin)).count() as u64);
                        if !real.is_empty() {
                            self.rep.nontrivial(&format!("{which}{real:?}"));
                        }
                    }
                }
            }
            // ---- sites:optype:calls / sites:opjs:calls (the FULL sequence, call by call; a panic of the printer = (err …) of the model)
            for (which, rec, a) in [("optype", &o.ty_rec, &ans[4]), ("opjs", &o.js_rec, &ans[5])] {
                self.rep.k_cases += 1;
                match rec {
                    Err(p) => {
                        self.rep.count(&format!("sites:{which}:calls:printer-panics"));
                        if a.head() != Some("err") {
                            self.rep.fail("K", &format!("sites:{which}:calls:panic-differs"), &format!("the printer panics ({p}); the model answers {}", trunc(&a.to_string())), cj.clone());
                        }
                    }
                    Ok(ops) => {
                        let real: Vec<Sexp> = ops.iter().map(rop_to_sexp).collect();
                        self.compare(&format!("{which}:calls"), &real, a, &cj);
                        self.rep.count_n(&format!("sites:{which}:calls:compared-call-by-call"), ops.len() as u64);
                        self.count_op_features(which, ops, case);
                    }
                }
            }
            for d in &o.doc.defs {
                match d {
                    ExecDef::Op(op) if op.name.is_none() => self.rep.count("sites:feature:anonymous-operation"),
                    ExecDef::Op(_) => self.rep.count("sites:feature:named-operation"),
                    ExecDef::Frag(f) if f.pos.file != n_schema => self.rep.count("sites:feature:imported-fragment"),
                    ExecDef::Frag(_) => self.rep.count("sites:feature:own-fragment"),
                    _ => {}
                }
            }
        }
    }

    fn compare(&mut self, which: &str, real: &[Sexp], ans: &Sexp, cj: &Value) {
        if ans.head() != Some("ok") {
            self.rep.fail("K", &format!("sites:{which}:model-answer"), &format!("model answers {} where the code performs {} calls", trunc(&ans.to_string()), real.len()), cj.clone());
            return;
        }
        if ans.args() != real {
            self.rep.fail("K", &format!("sites:{which}:calls-differ"), &first_diff(real, ans.args()), cj.clone());
        }
    }

    /// the log is complete: replayed on the real SourceWriter it reproduces the direct run
    fn check_replay(&mut self, which: &str, ops: &[ROp], direct: &Result<RealOut, String>, cj: &Value) {
        self.rep.k_cases += 1;
        let replayed = replay_on_real(ops);
        if !same_out(&replayed, direct) {
            self.rep.fail("K", &format!("sites:replay:{which}"), "the recorded call sequence replayed on the real SourceWriter does not reproduce the printer's direct output", cj.clone());
        }
        if self.for_ops_stream.len() < self.ops_stream_budget && ops.len() <= 1500 && direct.is_ok() {
            self.for_ops_stream.push(ops.iter().map(to_writer_op).collect());
        }
    }

    fn count_op_features(&mut self, which: &str, ops: &[ROp], case: &SitesCase) {
        let has = |t: &str| ops.iter().any(|o| matches!(o, ROp::W(x) if x == t));
        for (t, f) in [
            ("export ", "export-keyword"),
            ("declare ", "declare-keyword"),
            (" as default };\n\n", "default-export"),
            (" as unknown as TypedDocumentNode<", "runtime-value(JSON)"),
            ("{}", "empty-object-type"),
            (" | ", "union"),
            (")[]", "array"),
            ("?", "optional-property"),
            ("readonly ", "readonly-property"),
            ("never", "never"),
            ("undefined", "undefined"),
        ] {
            if has(t) {
                self.rep.count(&format!("sites:{which}:calls:feature:{f}"));
            }
        }
        if ops.iter().any(|o| matches!(o, ROp::W(x) if x.starts_with("{\"kind\":\"Document\"") && (x.contains("\\\"") || x.contains("\\n") || x.contains("\\/") || x.contains("\\u00")))) {
            self.rep.count(&format!("sites:{which}:calls:feature:JSON-with-escapes"));
        }
        if case.cfg.export_result == Some(true) {
            self.rep.count(&format!("sites:{which}:calls:feature:export.operationResultType"));
        }
        if case.cfg.export_vars == Some(true) {
            self.rep.count(&format!("sites:{which}:calls:feature:export.variablesType"));
        }
        if !case.cfg.schema_source.is_empty() {
            self.rep.count(&format!("sites:{which}:calls:feature:schema-source-set"));
        }
    }

    fn count_features(&mut self, which: &str, ops: &[ROp], tsdoc: &TsDoc) {
        if ops.iter().any(|o| matches!(o, ROp::Wf { text, name: Some(n), pos, .. } if !pos.builtin && text.starts_with("__tmp_") && text[6..] == **n)) {
            self.rep.count(&format!("sites:{which}:feature:renamed-local-name(__tmp_)"));
        }
        if ops.iter().any(|o| matches!(o, ROp::Wf { text, .. } if text == "export const ")) {
            self.rep.count(&format!("sites:{which}:feature:enum-runtime"));
        }
        if ops.iter().any(|o| matches!(o, ROp::Wf { pos, .. } if !pos.builtin && pos.file > 0)) {
            self.rep.count(&format!("sites:{which}:feature:second-schema-file"));
        }
        if tsdoc.items.iter().any(|i| matches!(i, TsItem::SchemaDef(_))) {
            self.rep.count(&format!("sites:{which}:feature:explicit-schema-definition"));
        }
        for k in [TypeKind::Scalar, TypeKind::Object, TypeKind::Interface, TypeKind::Union, TypeKind::Enum, TypeKind::Input] {
            if tsdoc.items.iter().any(|i| matches!(i, TsItem::TypeDef(t) if t.kind == k && !t.pos.builtin)) {
                self.rep.count(&format!("sites:{which}:feature:kind:{k:?}"));
            }
        }
    }
}

fn trunc(s: &str) -> String {
    if s.chars().count() > 400 {
        format!("{}…", s.chars().take(400).collect::<String>())
    } else {
        s.to_string()
    }
}
