//! `generate` histories: the maps on disk must be a function of the project's CURRENT state, not of what was generated before.
//!
//! One history = 2–3 runs of the real `nitrogql-cli generate` in ONE project directory with edits of the sources in between:
//!   (a) edits that only MOVE tokens (comment / blank lines inserted or removed, re-indentation, trailing commas, byte order
//!       mark, CRLF <-> LF) — the generated declaration text stays the same, every original position changes;
//!   (b) source files renamed / moved / added (the `sources` lists and file indices change);
//!   (c) names changed (operation names, aliases, generate mode) — generated text changes;
//!   (d) modification times of inputs / outputs moved backwards or forwards.
//! After the LAST run
//!   * every map the final configuration asks for is judged by ALL clauses of the property against the CURRENT sources
//!     (`Ctx::judge`, the same judgement a single run gets: the `e2e:*` signatures);
//!   * the directory is wiped, the final state is written into the SAME path and `generate` runs once: every declaration file and
//!     map of that fresh run must exist byte-for-byte after the history (`history:stale-output:<kind>`).
//! Maps left over from earlier states (renamed / removed operation files, another mode's extension) are tolerated and counted:
//! the unchanged CLI never deletes anything and they are not outputs of the final configuration.
use super::*;
use std::time::{Duration, SystemTime};

#[derive(Clone, Debug)]
pub struct Step {
    pub label: String,
    pub state: Project,
    /// applied after the edit, before the run: (which files: "inputs" | "outputs" | "all", seconds relative to now)
    pub touch: Option<(String, i64)>,
}

#[derive(Clone, Debug)]
pub struct History {
    pub first: Project,
    pub steps: Vec<Step>,
}

impl History {
    pub fn to_json(&self) -> Value {
        json!({
            "kind": "history",
            "first": project_to_json(&self.first),
            "steps": self.steps.iter().map(|s| json!({"label": s.label, "state": project_to_json(&s.state), "touch": s.touch.as_ref().map(|(k, d)| json!([k, d]))})).collect::<Vec<_>>(),
        })
    }
    pub fn from_json(v: &Value) -> History {
        History {
            first: project_from_json(&v["first"]),
            steps: v["steps"].as_array().map(|a| a.iter().map(|s| Step {
                label: s["label"].as_str().unwrap_or("").to_string(),
                state: project_from_json(&s["state"]),
                touch: s["touch"].as_array().map(|t| (t[0].as_str().unwrap_or("all").to_string(), t[1].as_i64().unwrap_or(0))),
            }).collect()).unwrap_or_default(),
        }
    }
}

// ------------------------------------------------------------------------------------------------ edits

fn inputs_of(p: &Project) -> Vec<String> {
    p.schema_files.iter().chain(p.op_files.iter()).cloned().collect()
}

fn eol_of(text: &str) -> &'static str {
    if text.contains("\r\n") { "\r\n" } else { "\n" }
}

/// lines without their terminators + the terminator in use + whether the text ends with one
fn split_lines(text: &str) -> (Vec<String>, &'static str, bool) {
    let eol = eol_of(text);
    let ends = text.ends_with('\n');
    let mut v: Vec<String> = text.split('\n').map(|l| l.trim_end_matches('\r').to_string()).collect();
    if ends {
        v.pop();
    }
    (v, eol, ends)
}
fn join_lines(v: &[String], eol: &str, ends: bool) -> String {
    let mut s = v.join(eol);
    if ends {
        s.push_str(eol);
    }
    s
}

/// is line i inside a block string (between `"""` lines)?
fn in_block_string(lines: &[String]) -> Vec<bool> {
    let mut inside = false;
    let mut out = vec![];
    for l in lines {
        let n = l.matches("\"\"\"").count();
        out.push(inside || n > 0);
        if n % 2 == 1 {
            inside = !inside;
        }
    }
    out
}

/// (a) insert comment / blank lines at a line boundary outside block strings
fn ed_insert_lines(rng: &mut Rng, p: &mut Project) -> Option<String> {
    let f = rng.pick(&inputs_of(p)).clone();
    let (mut lines, eol, ends) = split_lines(&p.files[&f]);
    let blk = in_block_string(&lines);
    let k = 1 + rng.below(3);
    let at = if rng.chance(1, 3) { 0 } else { rng.below(lines.len() + 1) };
    if at < lines.len() && at > 0 && blk[at] && blk[at - 1] {
        return None;
    }
    // (the line of the byte order mark stays the first line)
    let at = if at == 0 && lines.first().map_or(false, |l| l.starts_with('\u{feff}')) { 1 } else { at };
    for _ in 0..k {
        let l = *rng.pick(&["# moved", "", "  # a note 😀 é", "#", "   ", "# query Q { n }"]);
        lines.insert(at.min(lines.len()), l.to_string());
    }
    p.files.insert(f.clone(), join_lines(&lines, eol, ends));
    Some(format!("insert {k} comment/blank line(s) at line {at} of {f}"))
}

/// (a) remove comment lines (not `#import`) and blank lines outside block strings
fn ed_remove_lines(rng: &mut Rng, p: &mut Project) -> Option<String> {
    let f = rng.pick(&inputs_of(p)).clone();
    let (lines, eol, ends) = split_lines(&p.files[&f]);
    let blk = in_block_string(&lines);
    let cand: Vec<usize> = (0..lines.len()).filter(|i| {
        let t = lines[*i].trim();
        !blk[*i] && (t.is_empty() || (t.starts_with('#') && !t.starts_with("#import")))
    }).collect();
    if cand.is_empty() {
        return None;
    }
    let all = rng.coin();
    let one = *rng.pick(&cand);
    let kept: Vec<String> = lines.iter().enumerate().filter(|(i, _)| !(if all { cand.contains(i) } else { *i == one })).map(|(_, l)| l.clone()).collect();
    if kept.is_empty() {
        return None;
    }
    p.files.insert(f.clone(), join_lines(&kept, eol, ends));
    Some(format!("remove {} comment/blank line(s) of {f}", if all { cand.len() } else { 1 }))
}

/// (a) indent every line of a file (block string lines too: their common indentation is not part of the value)
fn ed_indent(rng: &mut Rng, p: &mut Project) -> Option<String> {
    let f = rng.pick(&inputs_of(p)).clone();
    let (lines, eol, ends) = split_lines(&p.files[&f]);
    let pad = *rng.pick(&["  ", " ", "\t", "      "]);
    let remove = rng.chance(1, 4);
    let out: Vec<String> = lines.iter().map(|l| {
        let (bom, rest) = match l.strip_prefix('\u{feff}') { Some(r) => ("\u{feff}", r), None => ("", l.as_str()) };
        if remove {
            format!("{bom}{}", rest.strip_prefix(' ').unwrap_or(rest))
        } else if rest.is_empty() {
            l.clone()
        } else {
            format!("{bom}{pad}{rest}")
        }
    }).collect();
    p.files.insert(f.clone(), join_lines(&out, eol, ends));
    Some(format!("{} {f}", if remove { "remove one leading blank of every line of".to_string() } else { format!("indent every line by {pad:?} in") }))
}

/// (a) trailing commas after field lines (commas are insignificant)
fn ed_commas(rng: &mut Rng, p: &mut Project) -> Option<String> {
    let f = rng.pick(&inputs_of(p)).clone();
    let (lines, eol, ends) = split_lines(&p.files[&f]);
    let blk = in_block_string(&lines);
    let mut n = 0;
    let out: Vec<String> = lines.iter().enumerate().map(|(i, l)| {
        let t = l.trim();
        let field = !blk[i] && t.chars().next().map_or(false, |c| c.is_ascii_alphabetic() || c == '_' || c == '.') && !t.ends_with('{') && !t.ends_with(',') && !t.contains('}')
            && !["type ", "query", "mutation", "subscription", "fragment ", "directive ", "enum ", "scalar "].iter().any(|k| t.starts_with(k));
        if field && rng.chance(2, 3) {
            n += 1;
            format!("{l}{}", rng.pick(&[",", " ,", ",,"]))
        } else if t.ends_with(',') && rng.chance(1, 2) {
            n += 1;
            l.trim_end().trim_end_matches(',').trim_end().to_string()
        } else {
            l.clone()
        }
    }).collect();
    if n == 0 {
        return None;
    }
    p.files.insert(f.clone(), join_lines(&out, eol, ends));
    Some(format!("add/remove trailing commas on {n} line(s) of {f}"))
}

/// (a) byte order mark in front of the first token
fn ed_bom(rng: &mut Rng, p: &mut Project) -> Option<String> {
    let f = rng.pick(&inputs_of(p)).clone();
    let t = p.files[&f].clone();
    let (nt, what) = match t.strip_prefix('\u{feff}') {
        Some(r) => (r.to_string(), "remove the byte order mark of"),
        None => (format!("\u{feff}{t}"), "put a byte order mark in front of"),
    };
    p.files.insert(f.clone(), nt);
    Some(format!("{what} {f}"))
}

/// (a) line terminators
fn ed_eol(rng: &mut Rng, p: &mut Project) -> Option<String> {
    let f = rng.pick(&inputs_of(p)).clone();
    let t = p.files[&f].clone();
    let (nt, what) = if t.contains("\r\n") { (t.replace("\r\n", "\n"), "CRLF -> LF") } else { (t.replace('\n', "\r\n"), "LF -> CRLF") };
    p.files.insert(f.clone(), nt);
    Some(format!("{what} in {f}"))
}

/// (b) rename / move an operation file that no other file imports (its own imports are re-based)
fn ed_move_op_file(rng: &mut Rng, p: &mut Project) -> Option<String> {
    let imported: Vec<String> = p.op_files.iter().flat_map(|f| import_closure(p, f).into_iter().skip(1)).collect();
    let cand: Vec<String> = p.op_files.iter().filter(|f| !imported.contains(f)).cloned().collect();
    if cand.is_empty() {
        return None;
    }
    let old = rng.pick(&cand).clone();
    let (dir, name) = match old.rfind('/') { Some(i) => (&old[..i], &old[i + 1..]), None => ("", old.as_str()) };
    // stays under the same documents glob: same directory or a sub-directory of it
    let new_dir = match rng.below(3) {
        0 => format!("{dir}/moved"),
        1 => format!("{dir}/graphql/deep"),
        _ => dir.to_string(),
    };
    let new_name = if rng.coin() { format!("r_{name}") } else { format!("{}_v2.graphql", name.trim_end_matches(".graphql")) };
    let new = if new_dir.is_empty() { new_name } else { format!("{new_dir}/{new_name}") };
    if p.files.contains_key(&new) {
        return None;
    }
    let text = p.files.remove(&old)?;
    let (lines, eol, ends) = split_lines(&text);
    let out: Vec<String> = lines.iter().map(|l| {
        let t = l.trim_start_matches('\u{feff}').trim_start();
        if let Some(rest) = t.strip_prefix("#import ") {
            if let Some(q) = rest.split('"').nth(1) {
                let target = normalize(&Path::new(&old).parent().unwrap_or(Path::new("")).join(q)).to_string_lossy().to_string();
                return l.replace(&format!("\"{q}\""), &format!("\"{}\"", rel_import(&new, &target)));
            }
        }
        l.clone()
    }).collect();
    p.files.insert(new.clone(), join_lines(&out, eol, ends));
    for f in p.op_files.iter_mut() {
        if *f == old {
            *f = new.clone();
        }
    }
    Some(format!("move {old} -> {new}"))
}

/// (b) rename a schema file inside its directory (the order of the schema files in the file store may change); an explicit
/// `schema:` list in the config follows
fn ed_rename_schema_file(rng: &mut Rng, p: &mut Project) -> Option<String> {
    let old = rng.pick(&p.schema_files).clone();
    let (dir, name) = match old.rfind('/') { Some(i) => (&old[..i + 1], &old[i + 1..]), None => ("", old.as_str()) };
    let new = format!("{dir}{}{name}", rng.pick(&["a_", "zz_", "M", "0"]));
    if p.files.contains_key(&new) {
        return None;
    }
    let text = p.files.remove(&old)?;
    p.files.insert(new.clone(), text);
    for f in p.schema_files.iter_mut() {
        if *f == old {
            *f = new.clone();
        }
    }
    if let Some(cfg) = p.files.get_mut("graphql.config.yaml") {
        // (schema entries are written contiguously: `./<path>` or `<path>`)
        let mut out = String::new();
        for l in cfg.lines() {
            let key_line = l.starts_with("schema:") || l.starts_with("  - ");
            if key_line && (l.ends_with(&format!("/{old}\"")) || l.ends_with(&format!("\"{old}\"")) || l.ends_with(&format!(" {old}"))) {
                out.push_str(&l.replace(&old, &new));
            } else {
                out.push_str(l);
            }
            out.push('\n');
        }
        *cfg = out;
    }
    Some(format!("rename schema file {old} -> {new}"))
}

/// (b) a new operation file next to an existing one
fn ed_add_op_file(rng: &mut Rng, p: &mut Project) -> Option<String> {
    let near = rng.pick(&p.op_files).clone();
    let dir = match near.rfind('/') { Some(i) => &near[..i + 1], None => "" };
    let new = format!("{dir}extra{}.graphql", rng.below(1000));
    if p.files.contains_key(&new) {
        return None;
    }
    let text = *rng.pick(&["query Extra {\n  n\n}\n", "{\n  n\n}\n", "# new\nquery Extra2 { n }\n"]);
    p.files.insert(new.clone(), text.to_string());
    p.op_files.push(new.clone());
    Some(format!("add operation file {new}"))
}

/// (c) rename an operation / a local fragment-free alias: the generated text of that file changes
fn ed_rename(rng: &mut Rng, p: &mut Project) -> Option<String> {
    let f = rng.pick(&p.op_files).clone();
    let t = p.files[&f].clone();
    for (from, to) in [("query Q", "query Renamed"), ("mutation M", "mutation RenamedM"), ("subscription S", "subscription RenamedS"), ("al: ", "al2: "), ("hello: ", "hi: ")] {
        if t.contains(from) && rng.chance(2, 3) {
            p.files.insert(f.clone(), t.replacen(from, to, 1));
            return Some(format!("rename {from:?} -> {to:?} in {f}"));
        }
    }
    None
}

/// (c) another generate mode (the extension of the operation outputs changes; the old ones stay on disk)
fn ed_mode(rng: &mut Rng, p: &mut Project) -> Option<String> {
    let cfg = p.files.get("graphql.config.yaml")?.clone();
    let modes = ["with-loader-ts-5.0", "with-loader-ts-4.0", "standalone-ts-4.0"];
    let cur = modes.iter().find(|m| cfg.contains(&format!("mode: {m}")))?;
    let new = *rng.pick(&modes);
    if new == *cur {
        return None;
    }
    p.files.insert("graphql.config.yaml".to_string(), cfg.replace(&format!("mode: {cur}"), &format!("mode: {new}")));
    Some(format!("mode {cur} -> {new}"))
}

pub fn gen_history(rng: &mut Rng) -> History {
    let first = gen_project(rng);
    let nsteps = 1 + rng.below(2);
    let mut steps = vec![];
    let mut cur = first.clone();
    for _ in 0..nsteps {
        let mut labels = vec![];
        // mostly edits that move tokens and leave the generated text alone; sometimes mixed with the other kinds
        let only_moves = rng.chance(1, 2);
        let nedits = 1 + rng.below(3);
        let mut guard = 0;
        while labels.len() < nedits && guard < 20 {
            guard += 1;
            let k = if only_moves { rng.below(6) } else { rng.below(12) };
            let r = match k {
                0 | 6 => ed_insert_lines(rng, &mut cur),
                1 => ed_remove_lines(rng, &mut cur),
                2 => ed_indent(rng, &mut cur),
                3 => ed_commas(rng, &mut cur),
                4 => ed_bom(rng, &mut cur),
                5 => ed_eol(rng, &mut cur),
                7 => ed_move_op_file(rng, &mut cur),
                8 => ed_rename_schema_file(rng, &mut cur),
                9 => ed_add_op_file(rng, &mut cur),
                10 => ed_rename(rng, &mut cur),
                _ => ed_mode(rng, &mut cur),
            };
            if let Some(l) = r {
                labels.push(l);
            }
        }
        let touch = if rng.chance(1, 2) {
            Some((rng.pick(&["inputs", "outputs", "all"]).to_string(), *rng.pick(&[-86_400i64, -3, 3, 3_600, -400_000_000])))
        } else {
            None
        };
        steps.push(Step { label: labels.join("; "), state: cur.clone(), touch });
    }
    History { first, steps }
}

/// designed histories: one token-moving edit on each kind of input, nothing else changes
pub fn corpus() -> Vec<History> {
    let mut v = vec![];
    for mode in ["with-loader-ts-5.0", "standalone-ts-4.0"] {
        let mut files = BTreeMap::new();
        files.insert("graphql.config.yaml".to_string(), config_yaml(mode, "./gen/schema.d.ts", Some("./gen/resolvers.d.ts")));
        files.insert("schema/main.graphql".to_string(), "type Query {\n  me: User!\n}\ntype User {\n  name: String\n}\n".to_string());
        files.insert("ops/q.graphql".to_string(), "#import F from \"./f.graphql\"\nquery Q {\n  me { ...F }\n}\n".to_string());
        files.insert("ops/f.graphql".to_string(), "fragment F on User {\n  name\n}\n".to_string());
        let first = Project::classic(files, true);
        let mut second = first.clone();
        second.files.insert("schema/main.graphql".to_string(), "# the schema\n\ntype Query {\n  # who am I\n  me: User!\n}\n  type User {\n      name: String,\n  }\n".to_string());
        second.files.insert("ops/q.graphql".to_string(), "#import F from \"./f.graphql\"\n# a comment\n\n  query Q {\n  me { ...F }\n}\n".to_string());
        second.files.insert("ops/f.graphql".to_string(), "\n\nfragment F on User {\n\n  name\n}\n".to_string());
        let mut third = second.clone();
        third.files.insert("ops/f.graphql".to_string(), "fragment F on User {\r\n  name\r\n}\r\n".to_string());
        v.push(History {
            first,
            steps: vec![
                Step { label: "comment lines, blank lines, indentation in every input".into(), state: second, touch: None },
                Step { label: "fragment file back to its first layout, CRLF".into(), state: third, touch: Some(("outputs".into(), 3_600)) },
            ],
        });
    }
    v
}

// ------------------------------------------------------------------------------------------------ running

fn set_mtimes(root: &Path, state: &Project, which: &str, delta: i64) {
    let mut all = vec![];
    walk(root, &mut all);
    let now = SystemTime::now();
    let t = if delta >= 0 { now + Duration::from_secs(delta as u64) } else { now - Duration::from_secs((-delta) as u64) };
    for f in all {
        let rel = f.strip_prefix(root).map(|r| r.to_string_lossy().to_string()).unwrap_or_default();
        let is_input = state.files.contains_key(&rel);
        let hit = match which {
            "inputs" => is_input,
            "outputs" => !is_input,
            _ => true,
        };
        if hit {
            if let Ok(fh) = std::fs::OpenOptions::new().write(true).open(&f) {
                let _ = fh.set_modified(t);
            }
        }
    }
}

/// replace the sources of `old` by those of `new` in `root` (outputs stay)
fn apply_state(old: &Project, new: &Project, root: &Path) {
    for k in old.files.keys() {
        if !new.files.contains_key(k) {
            let _ = std::fs::remove_file(root.join(k));
        }
    }
    write_state(new, root);
}

impl<'a> Ctx<'a> {
    pub fn history(&mut self, h: &History, cli: &str, scratch: &str, id: usize) {
        let root = PathBuf::from(scratch).join(format!("c06-hist-{id}"));
        let _ = std::fs::remove_dir_all(&root);
        let case = h.to_json();
        write_state(&h.first, &root);
        if !self.run_generate(cli, &root, &format!("history {id} run 1")) {
            self.rep.count("history:first-run-failed(skipped)");
            let _ = std::fs::remove_dir_all(&root);
            return;
        }
        let mut cur = &h.first;
        for (i, st) in h.steps.iter().enumerate() {
            apply_state(cur, &st.state, &root);
            cur = &st.state;
            if let Some((which, delta)) = &st.touch {
                set_mtimes(&root, cur, which, *delta);
                self.rep.count(&format!("history:edit:mtimes:{which}:{}", if *delta < 0 { "older" } else { "newer" }));
            }
            for l in st.label.split("; ") {
                let kind = l.split(' ').next().unwrap_or("");
                self.rep.count(&format!("history:edit:{kind}"));
            }
            if !self.run_generate(cli, &root, &format!("history {id} run {} ({})", i + 2, st.label)) {
                self.rep.count("history:later-run-failed(skipped)");
                let _ = std::fs::remove_dir_all(&root);
                return;
            }
        }
        self.rep.count(&format!("history:runs-{}", h.steps.len() + 1));
        // ---- the property's clauses on what is on disk now, against the current sources
        self.judge(cur, &root, &case, true);
        // ---- byte-for-byte against a fresh directory with the final state
        let mut after: BTreeMap<String, Vec<u8>> = BTreeMap::new();
        let mut all = vec![];
        walk(&root, &mut all);
        for f in &all {
            let rel = f.strip_prefix(&root).map(|r| r.to_string_lossy().to_string()).unwrap_or_default();
            after.insert(rel, std::fs::read(f).unwrap_or_default());
        }
        let _ = std::fs::remove_dir_all(&root);
        write_state(cur, &root);
        if self.run_generate(cli, &root, &format!("history {id} fresh run")) {
            let mut fresh = vec![];
            walk(&root, &mut fresh);
            for f in &fresh {
                let rel = f.strip_prefix(&root).map(|r| r.to_string_lossy().to_string()).unwrap_or_default();
                if cur.files.contains_key(&rel) {
                    continue;
                }
                let kind = if rel.ends_with(".map") { "map" } else if rel.ends_with(".ts") { "declaration" } else { "other" };
                let want = std::fs::read(f).unwrap_or_default();
                self.rep.o_cases += 1;
                match after.get(&rel) {
                    Some(got) if *got == want => self.rep.count(&format!("history:output-equals-fresh:{kind}")),
                    Some(got) => {
                        let (g, w) = (String::from_utf8_lossy(got).to_string(), String::from_utf8_lossy(&want).to_string());
                        let at = g.chars().zip(w.chars()).take_while(|(a, b)| a == b).count();
                        let show = |s: &str| -> String { s.chars().skip(at.saturating_sub(30)).take(90).collect() };
                        self.rep.fail("O", &format!("history:stale-output:{kind}"), &format!("{rel} after the history ({}) differs from what a fresh directory with the same final state gets: …{:?} vs fresh …{:?}", h.steps.iter().map(|s| s.label.as_str()).collect::<Vec<_>>().join(" | "), show(&g), show(&w)), case.clone());
                    }
                    None => self.rep.fail("O", &format!("history:missing-output:{kind}"), &format!("{rel} is written by a fresh run on the final state but does not exist after the history"), case.clone()),
                }
            }
        } else {
            self.rep.count("history:fresh-run-failed-after-successful-history");
        }
        let _ = std::fs::remove_dir_all(&root);
    }
}
