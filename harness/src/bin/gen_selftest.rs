//! Generator self-test: generated schemas/documents must be accepted by the real checker (modulo known false alarms).
use nvh::gen::*;
use nvh::real::*;
use nvh::render::*;
use nvh::*;
use std::collections::BTreeMap;

fn main() {
    quiet_panics();
    let n: u64 = std::env::args().nth(1).and_then(|s| s.parse().ok()).unwrap_or(300);
    let mut hist: BTreeMap<String, usize> = BTreeMap::new();
    let mut shown = 0;
    let mut feats: BTreeMap<String, usize> = BTreeMap::new();
    for seed in 0..n {
        let mut rng = Rng::new(seed);
        let cfg = GenCfg::default();
        let schema = gen_schema(&mut rng, &cfg);
        let sdl = schema.sdl();
        let (doc, features) = gen_doc(&mut rng, &schema, &cfg);
        for f in features { *feats.entry(f).or_insert(0) += 1; }
        let text = doc_text(&doc);
        let r = with_schema(&[sdl.clone()], |_, s| check_operation_text(s, &text, 1));
        let key = match &r {
            Ok(Ok(d)) if d.is_empty() => "ok".to_string(),
            Ok(Ok(d)) => format!("op-diag:{}", d[0].kind),
            Ok(Err(Stage::Diags(d))) => format!("op-stage:{}:{}", d[0].stage, d[0].kind),
            Ok(Err(Stage::Panic(s, m))) => format!("op-panic:{s}:{}", &m[..m.len().min(40)]),
            Err(Stage::Diags(d)) => format!("schema:{}:{}", d[0].stage, d[0].kind),
            Err(Stage::Panic(s, m)) => format!("schema-panic:{s}:{}", &m[..m.len().min(40)]),
        };
        *hist.entry(key.clone()).or_insert(0) += 1;
        if key != "ok" && shown < 6 {
            shown += 1;
            println!("=== seed {seed}: {key}\n{r:?}\n--- schema\n{sdl}\n--- doc\n{text}");
        }
    }
    println!("{hist:#?}\n{feats:#?}");
}
