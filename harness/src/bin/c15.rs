//! C15 — introspection-JSON and SDL descriptions of a schema give the same results.
//!
//! K (model = code), per generated schema model M:
//!   spec      harness renderer `introspection_json(M)`  vs driver `introspect.spec`        (machinery self-check)
//!   read      real `schema_from_introspection_json`      vs `introspect.read`  (also on mutated / damaged JSON)
//!   ast       real `ast_to_type_system` on the REAL resolved document vs `ast.schema`
//!   route     real schema of each CLI route              vs `route.sdl` / `route.json`
//!   toast     real `type_system_to_ast`                  vs `roundtrip.json` / `roundtrip.ast`
//! O (the property on the implementation): see `ocli.rs` — two CLI projects differing only in the schema file.
#[path = "c15/catalogue.rs"]
mod catalogue;
#[path = "c15/json.rs"]
mod json;
/// the mutation operators of the operation-checker properties (C03/C04), reused for the labelled-fault catalogue
#[allow(dead_code)]
#[path = "opcheck/mutate.rs"]
mod mutate;
#[path = "c15/ocli.rs"]
mod ocli;
#[path = "c15/realschema.rs"]
mod realschema;

use json::{introspection_json, J};
use nvh::gen::{gen_schema, GenCfg, SchemaModel};
use nvh::gm::*;
use nvh::{quiet_panics, Args, Driver, Report, Rng, Sexp};
use serde_json::json;

/// features the shared generator does not produce but the property's text names: `@specifiedBy`, `@deprecated` on
/// arguments / input fields, a schema description, root types that are declared absent while a type with the
/// default name exists
pub fn decorate(rng: &mut Rng, m: &mut SchemaModel, feats: &mut Vec<String>) {
    let has_schema_def = m.doc.items.iter().any(|i| matches!(i, TsItem::SchemaDef(_)));
    for item in m.doc.items.iter_mut() {
        match item {
            TsItem::TypeDef(t) => {
                if t.kind == TypeKind::Scalar && rng.chance(1, 3) {
                    t.dirs.push(Dir::new("specifiedBy", vec![Arg::new("url", Val::Str("https://example.com/spec".into(), P::default()))]));
                    feats.push("specifiedBy".into());
                }
                for f in t.inputs.iter_mut() {
                    if !f.ty.is_non_null() && rng.chance(1, 8) {
                        f.dirs.push(Dir::new("deprecated", if rng.coin() { vec![Arg::new("reason", Val::Str("old input".into(), P::default()))] } else { vec![] }));
                        feats.push("deprecated-input-field".into());
                    }
                }
                for f in t.fields.iter_mut() {
                    for a in f.args.iter_mut() {
                        if !a.ty.is_non_null() && rng.chance(1, 8) {
                            a.dirs.push(Dir::new("deprecated", vec![]));
                            feats.push("deprecated-argument".into());
                        }
                    }
                }
            }
            TsItem::SchemaDef(s) => {
                if rng.chance(1, 3) {
                    s.desc = Some("The schema.".into());
                    feats.push("schema-description".into());
                }
            }
            _ => {}
        }
    }
    if has_schema_def {
        // a type with a default root name that is NOT a root type (the schema definition does not list it)
        let q = m.doc.type_def(&m.query).cloned();
        for (slot, name) in [(m.mutation.is_none(), "Mutation"), (m.subscription.is_none(), "Subscription")] {
            if slot && m.doc.type_def(name).is_none() && rng.chance(2, 3) {
                if let Some(q) = &q {
                    let mut t = TypeDef::new(TypeKind::Object, name);
                    t.fields = vec![q.fields[0].clone()];
                    m.doc.items.push(TsItem::TypeDef(t));
                    feats.push(format!("decoy-root:{name}"));
                }
            }
        }
    }
    feats.push(if has_schema_def { "explicit-schema-definition".into() } else { "default-root-names".into() });
    if m.mutation.is_none() {
        feats.push("no-mutation".into());
    }
    if m.subscription.is_none() {
        feats.push("no-subscription".into());
    }
    if m.types().any(|t| t.kind == TypeKind::Interface && !t.implements.is_empty()) {
        feats.push("interface-implements-interface".into());
    }
    if m.directive_defs().any(|d| d.repeatable) {
        feats.push("repeatable-directive".into());
    }
}

pub fn gen_case(rng: &mut Rng, hostile: bool) -> (SchemaModel, Vec<String>) {
    let cfg = GenCfg { hostile_text: hostile, explicit_schema: true, ..GenCfg::default() };
    let mut m = gen_schema(rng, &cfg);
    let mut feats = vec![];
    decorate(rng, &mut m, &mut feats);
    // interfaces implementing several interfaces, an interface nobody implements, interfaces without a common object
    // (every pair of kinds has both applicable and impossible spreads), all reachable from the query root
    if rng.coin() {
        feats.extend(mutate::add_interface_diamonds(rng, &mut m).into_iter().map(|f| f.replace(':', "-")));
    }
    // the same member names (field + argument, input field, enum value) defined differently by several types
    if rng.coin() {
        catalogue::add_shared_member_names(&mut m);
        feats.push("shared-member-names".into());
    }
    (m, feats)
}

// ---------------------------------------------------------------------------------------------------------------
// damaged JSON

fn paths(j: &J, cur: &mut Vec<usize>, out: &mut Vec<Vec<usize>>) {
    out.push(cur.clone());
    match j {
        J::Arr(xs) => {
            for (i, x) in xs.iter().enumerate() {
                cur.push(i);
                paths(x, cur, out);
                cur.pop();
            }
        }
        J::Obj(kvs) => {
            for (i, (_, x)) in kvs.iter().enumerate() {
                cur.push(i);
                paths(x, cur, out);
                cur.pop();
            }
        }
        _ => {}
    }
}
fn at_mut<'a>(j: &'a mut J, p: &[usize]) -> &'a mut J {
    let mut cur = j;
    for i in p {
        cur = match cur {
            J::Arr(xs) => &mut xs[*i],
            J::Obj(kvs) => &mut kvs[*i].1,
            _ => unreachable!(),
        };
    }
    cur
}

/// drop the `__*` types (keeps requests small; an introspection result need not list them for the reader)
fn prune_introspection_types(j: &mut J) {
    json::prune_types(j, &|n| n.starts_with("__"));
}

const OPTIONAL_KEYS: [&str; 7] = ["isDeprecated", "deprecationReason", "isRepeatable", "specifiedByURL", "description", "defaultValue", "ofType"];

fn drop_keys(j: &mut J, key: &str) {
    match j {
        J::Arr(xs) => xs.iter_mut().for_each(|x| drop_keys(x, key)),
        J::Obj(kvs) => {
            kvs.retain(|(k, _)| k != key);
            kvs.iter_mut().for_each(|(_, v)| drop_keys(v, key));
        }
        _ => {}
    }
}

/// one random damage; returns its class (input distribution)
fn mutate(rng: &mut Rng, j: &mut J) -> String {
    if rng.chance(1, 6) {
        let k = OPTIONAL_KEYS[rng.below(OPTIONAL_KEYS.len())];
        drop_keys(j, k);
        return format!("drop-all:{k}");
    }
    let mut ps = vec![];
    paths(j, &mut vec![], &mut ps);
    // bias towards the user-visible part: retry a few times for a node that is an object
    for _ in 0..50 {
        let p = ps[rng.below(ps.len())].clone();
        let node = at_mut(j, &p);
        match node {
            J::Obj(kvs) if !kvs.is_empty() => {
                let i = rng.below(kvs.len());
                match rng.below(8) {
                    0 => {
                        let k = kvs.remove(i).0;
                        return format!("remove-key:{k}");
                    }
                    1 => {
                        kvs[i].1 = J::Null;
                        return format!("null-value:{}", kvs[i].0);
                    }
                    2 => {
                        let k = kvs[i].0.clone();
                        kvs[i].1 = match &kvs[i].1 {
                            J::Str(_) => J::Num("7".into()),
                            J::Bool(_) => J::Str("true".into()),
                            J::Arr(_) => J::Str("list".into()),
                            J::Obj(_) => J::Str("object".into()),
                            J::Null => J::Num("0".into()),
                            J::Num(_) => J::Null,
                        };
                        return format!("wrong-json-type:{k}");
                    }
                    3 => {
                        let kv = kvs[i].clone();
                        let k = kv.0.clone();
                        kvs.push(kv);
                        return format!("duplicate-key:{k}");
                    }
                    4 => {
                        kvs.insert(i, ("extraKey".into(), J::Arr(vec![J::Num("1".into()), J::Obj(vec![("x".into(), J::Null)])])));
                        return "unknown-key".into();
                    }
                    5 => {
                        if let Some((_, v)) = kvs.iter_mut().find(|(k, _)| k == "kind") {
                            let ks = ["BOGUS", "LIST", "NON_NULL", "SCALAR", "OBJECT", "INTERFACE", "UNION", "ENUM", "INPUT_OBJECT", ""];
                            let nk = ks[rng.below(ks.len())];
                            *v = J::Str(nk.into());
                            return format!("kind-changed:{nk}");
                        }
                    }
                    6 => {
                        rng.shuffle(kvs);
                        return "shuffle-keys".into();
                    }
                    _ => {
                        // an unknown key that repeats (allowed) next to a known one
                        kvs.push(("zz".into(), J::Null));
                        kvs.push(("zz".into(), J::Bool(true)));
                        return "repeated-unknown-key".into();
                    }
                }
            }
            J::Arr(xs) if !xs.is_empty() && rng.chance(1, 3) => {
                let i = rng.below(xs.len());
                match rng.below(3) {
                    0 => {
                        xs.remove(i);
                        return "remove-element".into();
                    }
                    1 => {
                        let x = xs[i].clone();
                        xs.push(x);
                        return "duplicate-element".into();
                    }
                    _ => {
                        xs[i] = J::Str("not-an-object".into());
                        return "element-wrong-json-type".into();
                    }
                }
            }
            _ => {}
        }
    }
    "none".into()
}

// ---------------------------------------------------------------------------------------------------------------

pub struct Ctx<'a> {
    pub rep: &'a mut Report,
    pub drv: &'a mut Driver,
}

fn ok1(ans: &Sexp) -> Option<&Sexp> {
    if ans.head() == Some("ok") {
        ans.args().first()
    } else {
        None
    }
}

fn short(s: &Sexp) -> String {
    let t = s.to_line();
    if t.len() > 600 {
        format!("{}… ({} chars)", t.chars().take(600).collect::<String>(), t.len())
    } else {
        t
    }
}

/// first position where two S-expressions differ, as a short path description
fn first_diff(a: &Sexp, b: &Sexp) -> String {
    match (a, b) {
        (Sexp::List(x), Sexp::List(y)) => {
            for (i, (p, q)) in x.iter().zip(y.iter()).enumerate() {
                if p != q {
                    let here = x.first().and_then(|h| h.as_atom()).unwrap_or("");
                    let name = x.get(1).and_then(|h| h.as_str().or(h.as_atom())).unwrap_or("");
                    return format!("{here} {name}[{i}] > {}", first_diff(p, q));
                }
            }
            format!("lengths {} vs {}", x.len(), y.len())
        }
        _ => format!("{} vs {}", short(a), short(b)),
    }
}

impl Ctx<'_> {
    fn k_cmp(&mut self, stream: &str, real: &Sexp, model: &Sexp, case: &serde_json::Value) {
        self.rep.k_cases += 1;
        self.rep.evaluations += 1;
        if real != model {
            self.rep.fail("K", stream, &format!("{stream}: real {} ; model {} ; first difference: {}", short(real), short(model), first_diff(real, model)), case.clone());
        }
    }

    /// all K comparisons for one schema model; returns false when the machinery itself disagrees (spec renderers)
    pub fn k_schema(&mut self, m: &SchemaModel, rng: &mut Rng, n_mut: usize, case: &serde_json::Value) -> bool {
        let value = introspection_json(m);
        let j = J::from_value(&value);
        let sdl = m.sdl();
        let msexp = m.doc.to_sexp();
        let jsexp = j.to_sexp();
        let text = j.text();

        // real results
        let real_json = realschema::read_json(&text, |s| {
            let plain = realschema::schema_sexp(s);
            let toast = strip_pos(&from_real_tsdoc(&nitrogql_semantics::type_system_to_ast(s)).to_sexp());
            realschema::add_builtin_scalars(s);
            (plain, toast, realschema::schema_sexp(s))
        });
        let real_sdl = nvh::real::with_schema(&[sdl.clone()], |resolved, schema| {
            let resolved_sexp = from_real_tsdoc(resolved).to_sexp();
            let toast = strip_pos(&from_real_tsdoc(&nitrogql_semantics::type_system_to_ast(schema)).to_sexp());
            (resolved_sexp, realschema::schema_sexp(schema), toast)
        });
        let (resolved_sexp, real_sdl_schema, real_sdl_toast) = match real_sdl {
            Ok(x) => x,
            Err(st) => {
                self.rep.fail("K", "generator:schema-rejected", &format!("the real schema stages reject a generated schema: {st:?}"), case.clone());
                return false;
            }
        };
        let reqs = vec![
            Sexp::call("introspect.spec", vec![msexp.clone()]),
            Sexp::call("introspect.read", vec![jsexp.clone()]),
            Sexp::call("roundtrip.json", vec![jsexp.clone()]),
            Sexp::call("route.json", vec![jsexp.clone()]),
            Sexp::call("ast.schema", vec![resolved_sexp.clone()]),
            Sexp::call("route.sdl", vec![msexp.clone()]),
            Sexp::call("roundtrip.ast", vec![resolved_sexp.clone()]),
            Sexp::call("equiv", vec![Sexp::call("route.json", vec![jsexp.clone()]), Sexp::call("route.sdl", vec![msexp.clone()])]),
        ];
        let ans = self.drv.batch(&reqs);
        // machinery self-check: the two renderings of the specification agree
        self.rep.evaluations += 1;
        let spec_ok = match ok1(&ans[0]).and_then(J::from_sexp) {
            Some(lj) => lj.to_value() == value,
            None => false,
        };
        if !spec_ok {
            let lv = ok1(&ans[0]).and_then(J::from_sexp).map(|x| x.to_value()).unwrap_or(serde_json::Value::Null);
            self.rep.fail("K", "spec-renderers-disagree", &format!("introspection_json (harness) ≠ introspectSpec (Lean): {}", json_diff(&value, &lv, "$")), case.clone());
        }
        let unwrap = |a: &Sexp| ok1(a).cloned().unwrap_or_else(|| a.clone());
        match &real_json {
            Ok((plain, toast, routed)) => {
                self.k_cmp("read", plain, &unwrap(&ans[1]), case);
                self.k_cmp("toast-json", toast, &strip_pos(&unwrap(&ans[2])), case);
                self.k_cmp("route-json", routed, &unwrap(&ans[3]), case);
            }
            Err(e) => {
                self.rep.k_cases += 1;
                self.rep.fail("K", "read", &format!("real reader rejects the specification's JSON: {}", short(e)), case.clone());
            }
        }
        self.k_cmp("ast", &real_sdl_schema, &unwrap(&ans[4]), case);
        // modulo the ORDER of definitions: `resolve_schema_extensions` regroups them (C11's subject); `≃` ignores order
        self.k_cmp("route-sdl", &sort_defs(&real_sdl_schema), &sort_defs(&unwrap(&ans[5])), case);
        self.k_cmp("toast-ast", &real_sdl_toast, &strip_pos(&unwrap(&ans[6])), case);
        // the theorem's instance, evaluated: the two routes' model schemas are ≃
        self.rep.evaluations += 1;
        if ans[7] != Sexp::call("ok", vec![Sexp::atom("true")]) {
            let class = ans[7].args().get(1).and_then(|d| d.as_str()).map(|d| d.split(':').next().unwrap_or("").to_string()).unwrap_or_else(|| "error".into());
            self.rep.fail("O", &format!("model-routes-not-equivalent:{class}"), &format!("routeJson(introspectSpec M) ≄ routeSdl(M): {}", short(&ans[7])), case.clone());
        }

        // introspection results that omit several built-in scalars (older servers; and the part `Schema::extend` fills in):
        // the ORDER of type names is compared too (it is observable in the declaration files)
        {
            let mut reqs = vec![];
            let mut reals = vec![];
            for _ in 0..3 {
                let mut dj = j.clone();
                if rng.coin() {
                    prune_introspection_types(&mut dj);
                }
                let mut names: Vec<&str> = json::BUILTIN_SCALAR_NAMES.to_vec();
                rng.shuffle(&mut names);
                let k = 2 + rng.below(4);
                let dropped: Vec<String> = names.iter().take(k).map(|s| s.to_string()).collect();
                json::prune_types(&mut dj, &|n| dropped.iter().any(|d| d == n));
                self.rep.count(&format!("omitted-builtin-scalars:{k}"));
                let t = dj.text();
                let real = match realschema::read_json(&t, |s| {
                    realschema::add_builtin_scalars(s);
                    realschema::schema_sexp(s)
                }) {
                    Ok(s) => s,
                    Err(e) => e,
                };
                reqs.push(Sexp::call("route.json", vec![dj.to_sexp()]));
                reals.push((real, t));
            }
            let ans = self.drv.batch(&reqs);
            for ((real, t), a) in reals.iter().zip(ans.iter()) {
                let c = json!({"json_text": t, "route": true});
                self.k_cmp("route-json-omitted-builtins", real, &unwrap(a), &c);
            }
        }

        // damaged JSON
        let mut reqs = vec![];
        let mut reals = vec![];
        let mut classes = vec![];
        for _ in 0..n_mut {
            let mut dj = j.clone();
            if rng.chance(3, 4) {
                prune_introspection_types(&mut dj);
            }
            let mut class = vec![];
            for _ in 0..(1 + rng.below(2)) {
                class.push(mutate(rng, &mut dj));
            }
            let t = dj.text();
            let real = match realschema::read_json(&t, |s| realschema::schema_sexp(s)) {
                Ok(s) => s,
                Err(e) => e,
            };
            reqs.push(Sexp::call("introspect.read", vec![dj.to_sexp()]));
            reals.push((real, t));
            classes.push(class.join("+"));
        }
        let ans = self.drv.batch(&reqs);
        for ((real, t), (a, class)) in reals.iter().zip(ans.iter().zip(classes.iter())) {
            let outcome = if real.head() == Some("schema") { "accepted".to_string() } else { short(real) };
            self.rep.count(&format!("damage-outcome:{outcome}"));
            self.rep.count(&format!("damage:{}", class.split(':').next().unwrap_or("")));
            let c = json!({"json_text": t});
            self.k_cmp("read-damaged", real, &unwrap(a), &c);
        }
        spec_ok
    }
}

/// `(schema desc roots (types …) (directives …))` with types and directives sorted by name
fn sort_defs(s: &Sexp) -> Sexp {
    match s {
        Sexp::List(v) if s.head() == Some("schema") => Sexp::List(
            v.iter()
                .map(|x| match x.head() {
                    Some("types") | Some("directives") => {
                        let mut kids = x.args().to_vec();
                        kids.sort_by_key(|k| k.args().iter().find_map(|a| a.as_str().map(|s| s.to_string())).unwrap_or_default());
                        Sexp::call(x.head().unwrap(), kids)
                    }
                    _ => x.clone(),
                })
                .collect(),
        ),
        _ => s.clone(),
    }
}

fn json_diff(a: &serde_json::Value, b: &serde_json::Value, path: &str) -> String {
    use serde_json::Value as V;
    match (a, b) {
        (V::Object(x), V::Object(y)) => {
            for (k, v) in x {
                match y.get(k) {
                    None => return format!("{path}.{k} missing on the right"),
                    Some(w) if w != v => return json_diff(v, w, &format!("{path}.{k}")),
                    _ => {}
                }
            }
            for k in y.keys() {
                if !x.contains_key(k) {
                    return format!("{path}.{k} missing on the left");
                }
            }
            "equal".into()
        }
        (V::Array(x), V::Array(y)) => {
            if x.len() != y.len() {
                return format!("{path}: lengths {} vs {}", x.len(), y.len());
            }
            for (i, (v, w)) in x.iter().zip(y.iter()).enumerate() {
                if v != w {
                    let name = v.get("name").and_then(|n| n.as_str()).unwrap_or("");
                    return json_diff(v, w, &format!("{path}[{i}:{name}]"));
                }
            }
            "equal".into()
        }
        _ => format!("{path}: {a} vs {b}"),
    }
}

fn main() {
    let args = Args::parse();
    quiet_panics();
    let mut rep = Report::new(
        "C15",
        "schema models from gen_schema + decorations (specifiedBy, deprecated arguments/input fields, schema description, decoy root types, \
         interface diamonds, same-named members defined differently by several types); per schema a labelled catalogue of operation documents \
         (every fault operator of opcheck/mutate.rs, impossible + applicable spreads for every pair of kinds) through both CLI routes; \
         non-trivial = a schema with at least one interface or union, at least one deprecation and at least one description (distinct by SDL text)",
    );
    let mut drv = Driver::spawn(&args.driver);
    let cli = args.extra.get("cli").cloned().unwrap_or_default();

    if let Some(path) = &args.replay {
        let v: serde_json::Value = serde_json::from_str(&std::fs::read_to_string(path).expect("replay file")).expect("replay json");
        let c = &v["case"];
        let mut ctx = Ctx { rep: &mut rep, drv: &mut drv };
        if let Some(t) = c.get("json_text").and_then(|t| t.as_str()) {
            // a damaged JSON text: real reader vs model
            let j: serde_json::Value = serde_json::from_str(t).unwrap_or(serde_json::Value::Null);
            let route = c.get("route").and_then(|r| r.as_bool()).unwrap_or(false);
            let real = match realschema::read_json(t, |s| {
                if route {
                    realschema::add_builtin_scalars(s);
                }
                realschema::schema_sexp(s)
            }) {
                Ok(s) => s,
                Err(e) => e,
            };
            let a = ctx.drv.one(&Sexp::call(if route { "route.json" } else { "introspect.read" }, vec![replay_j(t, &j).to_sexp()]));
            let model = ok1(&a).cloned().unwrap_or(a);
            ctx.k_cmp(if route { "route-json-omitted-builtins" } else { "read-damaged" }, &real, &model, c);
        } else if c.get("project").is_some() {
            ocli::replay_project(&args, &cli, ctx.rep, c);
        } else if let Some(seed) = c.get("schema_seed").and_then(|s| s.as_u64()) {
            let hostile = c.get("hostile").and_then(|h| h.as_bool()).unwrap_or(false);
            let mut rng = Rng::new(seed);
            let (m, _) = gen_case(&mut rng, hostile);
            ctx.k_schema(&m, &mut rng, 4, c);
            if !hostile {
                ocli::o_case(&args, &cli, ctx.rep, &m, seed);
            }
        }
        rep.write(&args);
        return;
    }

    let mut rng = Rng::new(args.seed);
    let search = args.extra.contains_key("search");
    let n_cases = args.budget(36, 400) * if search { 2 } else { 1 };
    let n_mut = args.budget(6, 12);
    let mut ctx = Ctx { rep: &mut rep, drv: &mut drv };

    // corpus: seeds of past minimised failures run first
    let corpus: [u64; 3] = [1, 2, 3];
    let mut seeds: Vec<u64> = corpus.to_vec();
    for _ in 0..n_cases {
        seeds.push(rng.next_u64() >> 16);
    }
    let t0 = std::time::Instant::now();
    for (i, seed) in seeds.iter().enumerate() {
        let hostile = i % 5 == 4;
        let mut r = Rng::new(*seed);
        let (m, feats) = gen_case(&mut r, hostile);
        let case = json!({"schema_seed": seed, "hostile": hostile});
        for f in &feats {
            ctx.rep.count(&format!("feature:{}", f.split(':').next().unwrap_or("")));
        }
        let sdl = m.sdl();
        let nontrivial = m.types().any(|t| matches!(t.kind, TypeKind::Interface | TypeKind::Union))
            && sdl.contains("@deprecated")
            && m.types().any(|t| t.desc.is_some() || t.fields.iter().any(|f| f.desc.is_some()));
        if nontrivial {
            ctx.rep.nontrivial(&sdl);
        }
        if i < 2 {
            ctx.rep.sample(json!({"schema_seed": seed, "sdl": sdl.chars().take(1500).collect::<String>()}));
        }
        let machinery_ok = ctx.k_schema(&m, &mut r, n_mut, &case);
        if machinery_ok && !hostile {
            ocli::o_case(&args, &cli, ctx.rep, &m, *seed);
        }
        // quick tier stays within its time budget
        if !args.thorough() && !search && t0.elapsed().as_secs() > 40 {
            ctx.rep.notes.push(format!("quick tier stopped after {} of {} cases (time budget)", i + 1, seeds.len()));
            break;
        }
    }
    rep.write(&args);
}

/// re-read a JSON text keeping key order and repeated keys (serde_json::Value would drop both): a tiny parser
fn replay_j(text: &str, fallback: &serde_json::Value) -> J {
    json::parse_text(text).unwrap_or_else(|| J::from_value(fallback))
}
