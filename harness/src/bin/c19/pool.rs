//! Parent side of the worker protocol: a pool of `c19 --worker` child processes.
//!
//! A child that dies (a Rust panic inside an `extern "C"` function aborts; allocator corruption
//! segfaults) is detected by EOF before the history's `e` line. The dying history is re-run alone in a
//! fresh `--careful` child (flush after every line) to find the exact call that dies.
use super::{hist_json, History};

/// one history as the worker reads it: a JSON line and the number of calls it makes
pub trait HistLine: Sync {
    fn line(&self) -> String;
    fn n_calls(&self) -> usize;
}

impl HistLine for History {
    fn line(&self) -> String {
        hist_json(self)
    }
    fn n_calls(&self) -> usize {
        self.len()
    }
}
use serde_json::Value;
use std::io::{BufRead, BufReader, Write};
use std::os::unix::process::ExitStatusExt;
use std::path::PathBuf;
use std::process::{Child, Command, Stdio};
use std::sync::mpsc::{channel, Receiver, RecvTimeoutError, Sender};
use std::time::Duration;

#[derive(Clone, Debug, PartialEq, Eq)]
pub enum RealResp {
    Id(u64),
    Fail(String),
    Files(String),
    Ok,
    /// (FNV-1a 64 of the text as 16 hex digits, byte length)
    Js(String, u64),
    Freed,
    /// (text truncated to 300 bytes, hash of the full text)
    Res(String, String),
    Trap { why: String },
    Dead,
    Bad(String),
    /// `load_config` returned this (stream `emit-concrete`)
    Cfg(bool),
    /// the whole emitted module (stream `emit-concrete`, op `X`)
    JsText(String),
    /// the whole RESULT text (stream `emit-concrete`, op `Y`)
    ResText(String),
    /// trailing element (after the answers of the calls): blocks the history allocated that are still live after its
    /// loader instance is gone (checking allocator, c19/checkalloc.rs)
    Leak(String),
}

impl RealResp {
    pub fn parse(v: &Value) -> RealResp {
        let s = |i: usize| v.get(i).and_then(|x| x.as_str()).unwrap_or("").to_string();
        match v.get(0).and_then(|x| x.as_str()).unwrap_or("") {
            "id" => RealResp::Id(v.get(1).and_then(|x| x.as_u64()).unwrap_or(u64::MAX)),
            "fail" => RealResp::Fail(s(1)),
            "files" => RealResp::Files(s(1)),
            "ok" => RealResp::Ok,
            "js" => RealResp::Js(s(1), v.get(2).and_then(|x| x.as_u64()).unwrap_or(0)),
            "freed" => RealResp::Freed,
            "res" => RealResp::Res(s(1), s(2)),
            "cfg" => RealResp::Cfg(v.get(1).and_then(|x| x.as_bool()).unwrap_or(false)),
            "jst" => RealResp::JsText(s(1)),
            "rest" => RealResp::ResText(s(1)),
            _ => RealResp::Bad(v.to_string()),
        }
    }
    pub fn to_json(&self) -> Value {
        use serde_json::json;
        match self {
            RealResp::Id(n) => json!(["id", n]),
            RealResp::Fail(m) => json!(["fail", m]),
            RealResp::Files(t) => json!(["files", t]),
            RealResp::Ok => json!(["ok"]),
            RealResp::Js(h, n) => json!(["js", h, n]),
            RealResp::Freed => json!(["freed"]),
            RealResp::Res(t, h) => json!(["res", t, h]),
            RealResp::Trap { why } => json!(["trap", why]),
            RealResp::Dead => json!(["dead"]),
            RealResp::Bad(t) => json!(["bad", t]),
            RealResp::Cfg(b) => json!(["cfg", b]),
            RealResp::JsText(t) => json!(["jst", t]),
            RealResp::ResText(t) => json!(["rest", t]),
            RealResp::Leak(t) => json!(["leak", t]),
        }
    }
    pub fn is_trap(&self) -> bool {
        matches!(self, RealResp::Trap { .. } | RealResp::Dead)
    }
}

#[derive(Clone, Debug, Default)]
pub struct PoolStats {
    pub histories: u64,
    pub deaths: u64,
    pub timeouts: u64,
    pub careful_runs: u64,
    pub careful_survived: u64,
    pub spawned: u64,
    pub lencap_checks: u64,
    pub lencap_violations: u64,
    pub alloc_checked_frees: u64,
    pub alloc_leak_checks: u64,
    pub alloc_leak_reruns: u64,
    pub alloc_string_headers: u64,
    pub alloc_table_overflows: u64,
}

impl PoolStats {
    fn merge(&mut self, o: &PoolStats) {
        self.histories += o.histories;
        self.deaths += o.deaths;
        self.timeouts += o.timeouts;
        self.careful_runs += o.careful_runs;
        self.careful_survived += o.careful_survived;
        self.spawned += o.spawned;
        self.lencap_checks += o.lencap_checks;
        self.lencap_violations += o.lencap_violations;
        self.alloc_checked_frees += o.alloc_checked_frees;
        self.alloc_leak_checks += o.alloc_leak_checks;
        self.alloc_leak_reruns += o.alloc_leak_reruns;
        self.alloc_string_headers += o.alloc_string_headers;
        self.alloc_table_overflows += o.alloc_table_overflows;
    }
}

#[derive(Clone)]
pub struct Cfg {
    pub exe: PathBuf,
    pub header: String,
}

enum Line {
    R(RealResp),
    E,
    P(String),
    /// `a alloc-violation kind=…`: the checking allocator's last words
    A(String),
    /// `k {…}`: leak report of the history just run
    K(String),
    S(Value),
    Eof,
    Timeout,
}

const SILENCE: Duration = Duration::from_secs(20);
const CHUNK: usize = 1500;

struct Worker {
    child: Child,
    tx: Option<Sender<String>>,
    rx: Receiver<String>,
}

impl Worker {
    fn spawn(cfg: &Cfg, careful: bool, st: &mut PoolStats) -> Worker {
        let mut cmd = Command::new(&cfg.exe);
        cmd.arg("--worker");
        if careful {
            cmd.arg("--careful");
        }
        let mut child = cmd
            .stdin(Stdio::piped())
            .stdout(Stdio::piped())
            .stderr(Stdio::null())
            .spawn()
            .unwrap_or_else(|e| panic!("cannot spawn worker {:?}: {e}", cfg.exe));
        st.spawned += 1;
        let mut stdin = child.stdin.take().unwrap();
        let stdout = child.stdout.take().unwrap();
        // writer thread: the parent never blocks on a child that stopped reading
        let (tx, in_rx) = channel::<String>();
        std::thread::spawn(move || {
            for text in in_rx {
                if stdin.write_all(text.as_bytes()).is_err() || stdin.flush().is_err() {
                    break;
                }
            }
            // dropping stdin closes the child's input
        });
        // reader thread: always drains the child's output
        let (out_tx, rx) = channel::<String>();
        std::thread::spawn(move || {
            let r = BufReader::with_capacity(1 << 16, stdout);
            for line in r.lines() {
                match line {
                    Ok(l) => {
                        if out_tx.send(l).is_err() {
                            break;
                        }
                    }
                    Err(_) => break,
                }
            }
        });
        let w = Worker { child, tx: Some(tx), rx };
        w.send(format!("{}\n", cfg.header));
        w
    }

    fn send(&self, text: String) {
        if let Some(tx) = &self.tx {
            let _ = tx.send(text);
        }
    }

    fn next_line(&mut self) -> Line {
        match self.rx.recv_timeout(SILENCE) {
            Ok(l) => {
                let (tag, rest) = match l.split_once(' ') {
                    Some((t, r)) => (t, r),
                    None => (l.as_str(), ""),
                };
                match tag {
                    "r" => Line::R(serde_json::from_str::<Value>(rest).map(|v| RealResp::parse(&v)).unwrap_or_else(|_| RealResp::Bad(rest.to_string()))),
                    "e" => Line::E,
                    "p" => Line::P(serde_json::from_str::<String>(rest).unwrap_or_else(|_| rest.to_string())),
                    "a" => Line::A(rest.to_string()),
                    "k" => Line::K(rest.to_string()),
                    "s" => Line::S(serde_json::from_str::<Value>(rest).unwrap_or(Value::Null)),
                    _ => Line::R(RealResp::Bad(l.clone())),
                }
            }
            Err(RecvTimeoutError::Timeout) => Line::Timeout,
            Err(RecvTimeoutError::Disconnected) => Line::Eof,
        }
    }

    /// kill (if still running) and describe how the child ended
    fn reap(mut self, kill: bool) -> String {
        self.tx.take();
        if kill {
            let _ = self.child.kill();
        }
        match self.child.wait() {
            Ok(st) => match (st.signal(), st.code()) {
                (Some(sig), _) => format!("killed by signal {sig}{}", if sig == 6 { " (SIGABRT)" } else if sig == 11 { " (SIGSEGV)" } else { "" }),
                (None, Some(c)) => format!("exit code {c}"),
                _ => "unknown exit status".to_string(),
            },
            Err(e) => format!("wait failed: {e}"),
        }
    }

    /// close the input, read the trailing statistics line, wait
    fn shutdown(mut self, st: &mut PoolStats) {
        self.tx.take();
        loop {
            match self.next_line() {
                Line::S(v) => {
                    st.lencap_checks += v["lencap_checks"].as_u64().unwrap_or(0);
                    st.lencap_violations += v["lencap_violations"].as_u64().unwrap_or(0);
                    st.alloc_checked_frees += v["alloc_checked_frees"].as_u64().unwrap_or(0);
                    st.alloc_leak_checks += v["alloc_leak_checks"].as_u64().unwrap_or(0);
                    st.alloc_leak_reruns += v["alloc_leak_reruns"].as_u64().unwrap_or(0);
                    st.alloc_string_headers += v["alloc_string_headers_not_recorded"].as_u64().unwrap_or(0);
                    st.alloc_table_overflows += v["alloc_table_overflow"].as_bool().unwrap_or(false) as u64;
                }
                Line::Eof => break,
                Line::Timeout => {
                    let _ = self.child.kill();
                    break;
                }
                _ => {}
            }
        }
        let _ = self.child.wait();
    }
}

/// the hook runs for the original panic and again for "panic in a function that cannot unwind": keep both
fn add_panic(acc: &mut Option<String>, m: String) {
    let m = m.replace('\n', " ");
    *acc = Some(match acc.take() {
        Some(a) => format!("{a} | {m}"),
        None => m,
    });
}

/// run ONE history in a fresh `--careful` child; finds the exact call at which the child dies
fn careful_run<H: HistLine>(cfg: &Cfg, h: &H, first_why: &str, st: &mut PoolStats) -> Vec<RealResp> {
    st.careful_runs += 1;
    let mut w = Worker::spawn(cfg, true, st);
    w.send(format!("{}\n", h.line()));
    w.tx.take(); // close input after the history
    let mut resps = vec![];
    let mut pmsg: Option<String> = None;
    let mut amsg: Option<String> = None;
    let mut leak: Option<String> = None;
    let mut timeout = false;
    let mut finished = false;
    loop {
        match w.next_line() {
            Line::R(r) => resps.push(r),
            Line::P(m) => add_panic(&mut pmsg, m),
            Line::A(m) => amsg = Some(m),
            Line::K(m) => leak = Some(m),
            Line::E => {
                finished = true;
                break;
            }
            Line::S(_) => {}
            Line::Eof => break,
            Line::Timeout => {
                timeout = true;
                break;
            }
        }
    }
    if finished {
        // did not die this time (would be a non-deterministic death): report what it answered
        st.careful_survived += 1;
        w.shutdown(st);
        if let Some(l) = leak {
            resps.push(RealResp::Leak(l));
        }
        return resps;
    }
    if timeout {
        st.timeouts += 1;
    }
    let status = w.reap(timeout);
    let at = resps.len();
    let mut why = String::new();
    if let Some(m) = amsg {
        why.push_str(&format!("{m}; "));
    }
    if let Some(m) = pmsg {
        why.push_str(&format!("panic: {m}; "));
    }
    if timeout {
        why.push_str("no output for 20 s, killed; ");
    }
    why.push_str(&format!("worker {status}"));
    if at >= h.n_calls() {
        why.push_str(" (after the last call: at thread exit, while the thread-locals were dropped)");
    }
    if !first_why.is_empty() {
        why.push_str(&format!(" [first run in the shared worker: {first_why}]"));
    }
    resps.push(RealResp::Trap { why });
    while resps.len() < h.n_calls() {
        resps.push(RealResp::Dead);
    }
    resps
}

fn run_slice<H: HistLine>(slot: &mut Option<Worker>, cfg: &Cfg, hs: &[H], st: &mut PoolStats) -> Vec<Vec<RealResp>> {
    let mut out: Vec<Vec<RealResp>> = Vec::with_capacity(hs.len());
    let mut i = 0;
    while i < hs.len() {
        let end = (i + CHUNK).min(hs.len());
        if slot.is_none() {
            *slot = Some(Worker::spawn(cfg, false, st));
        }
        let w = slot.as_mut().unwrap();
        let mut text = String::new();
        for h in &hs[i..end] {
            text.push_str(&h.line());
            text.push('\n');
        }
        w.send(text);
        let mut died: Option<(usize, Option<String>, bool)> = None;
        'hist: for j in i..end {
            let mut resps = Vec::with_capacity(hs[j].n_calls() + 1);
            let mut pmsg = None;
            let mut leak: Option<String> = None;
            loop {
                match w.next_line() {
                    Line::R(r) => resps.push(r),
                    Line::E => break,
                    Line::P(m) => add_panic(&mut pmsg, m),
                    Line::A(m) => add_panic(&mut pmsg, m),
                    Line::K(m) => leak = Some(m),
                    Line::S(_) => {}
                    Line::Eof => {
                        died = Some((j, pmsg, false));
                        break 'hist;
                    }
                    Line::Timeout => {
                        died = Some((j, pmsg, true));
                        break 'hist;
                    }
                }
            }
            st.histories += 1;
            if let Some(l) = leak {
                resps.push(RealResp::Leak(l));
            }
            out.push(resps);
        }
        match died {
            None => i = end,
            Some((j, pmsg, timeout)) => {
                st.deaths += 1;
                if timeout {
                    st.timeouts += 1;
                }
                let status = slot.take().unwrap().reap(timeout);
                let _ = pmsg;
                let first = status;
                out.push(careful_run(cfg, &hs[j], &first, st));
                st.histories += 1;
                i = j + 1;
            }
        }
    }
    out
}

pub struct WorkerPool {
    cfg: Cfg,
    workers: Vec<Option<Worker>>,
    pub stats: PoolStats,
}

impl WorkerPool {
    pub fn new(cfg: Cfg, n: usize) -> WorkerPool {
        WorkerPool { cfg, workers: (0..n.max(1)).map(|_| None).collect(), stats: PoolStats::default() }
    }
    pub fn size(&self) -> usize {
        self.workers.len()
    }

    /// run every history on the real code (each on a fresh loader instance); answers in input order
    pub fn run_histories<H: HistLine>(&mut self, hs: &[H]) -> Vec<Vec<RealResp>> {
        if hs.is_empty() {
            return vec![];
        }
        let n = if hs.len() < 64 { 1 } else { self.workers.len() };
        let per = hs.len().div_ceil(n);
        let cfg = &self.cfg;
        let mut results: Vec<(Vec<Vec<RealResp>>, PoolStats)> = vec![];
        std::thread::scope(|s| {
            let mut handles = vec![];
            for (slot, part) in self.workers.iter_mut().zip(hs.chunks(per)) {
                handles.push(s.spawn(move || {
                    let mut st = PoolStats::default();
                    let r = run_slice(slot, cfg, part, &mut st);
                    (r, st)
                }));
            }
            for h in handles {
                results.push(h.join().expect("pool thread"));
            }
        });
        let mut out = Vec::with_capacity(hs.len());
        for (r, st) in results {
            self.stats.merge(&st);
            out.extend(r);
        }
        assert_eq!(out.len(), hs.len());
        out
    }

    pub fn shutdown(&mut self) {
        let mut st = PoolStats::default();
        for slot in self.workers.iter_mut() {
            if let Some(w) = slot.take() {
                w.shutdown(&mut st);
            }
        }
        self.stats.merge(&st);
    }
}
