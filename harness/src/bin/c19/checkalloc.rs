//! A CHECKING global allocator for the `c19 --worker` child processes (the processes in which the loader's real
//! `extern "C"` functions run). It wraps `System` and enforces, on the REAL code, the allocator discipline that the ghost heap
//! of `Model/Loader.lean` proves of the model ("each leaked source buffer is freed at most once, only with the layout it was
//! allocated with, nothing leaked"):
//!
//!   * every live block is recorded (address → size, align, epoch) in a fixed-size open-addressing table in static memory,
//!     guarded by a spin lock; the wrapper itself never allocates;
//!   * `realloc` ALWAYS moves (new block, copy, old block released), so a pointer kept across a `realloc` (e.g. raw parts
//!     recorded before `String::into_boxed_str` shrinks the buffer) is certainly stale;
//!   * released blocks are filled with 0xDD and kept in a bounded quarantine (their addresses cannot be handed out again while
//!     they are there), so a second release of an address is certainly a double free and a read through a dangling borrow
//!     yields garbage (visible in the emitted text);
//!   * `dealloc` / `realloc` verify that the pointer is live and that (size, align) equal the recorded layout. A violation
//!     (`double-free`, `free-of-unknown-pointer`, `layout-mismatch`, and the same for realloc) writes ONE line
//!     `a alloc-violation kind=<kind> …` to stdout (the worker protocol; unbuffered, no allocation) and to stderr, and aborts;
//!   * epochs: the worker opens an epoch per history; blocks allocated in the epoch and still live after the history's thread
//!     (= loader instance) is gone are the history's leak (`epoch_stats`).
//!
//! The parent process (`c19` without `--worker`) switches the checks off at the start of `main` (`disable`): one relaxed
//! atomic load per call remains.
use std::alloc::{GlobalAlloc, Layout, System};
use std::cell::UnsafeCell;
use std::sync::atomic::{AtomicBool, AtomicI64, AtomicU64, Ordering};

pub struct Checking;

static ON: AtomicBool = AtomicBool::new(true);
static LOCK: AtomicBool = AtomicBool::new(false);
static EPOCH: AtomicU64 = AtomicU64::new(0);
static EPOCH_LIVE: AtomicI64 = AtomicI64::new(0);
static EPOCH_BYTES: AtomicI64 = AtomicI64::new(0);
static CHECKED_FREES: AtomicU64 = AtomicU64::new(0);
static OVERFLOW: AtomicBool = AtomicBool::new(false);
/// while set, blocks with the layout of a `String` header are not recorded: the worker sets it around `alloc_string`, whose
/// `Box::leak(Box::new(String::with_capacity(n)))` never releases that header (documented leak, outside the statement;
/// recorded they would fill the table: one per string passed, for the life of the process)
static SKIP_STRING_HEADER: AtomicBool = AtomicBool::new(false);
static SKIPPED_HEADERS: AtomicU64 = AtomicU64::new(0);

const SLOTS: usize = 1 << 18;
const MASK: usize = SLOTS - 1;
const RING: usize = 4096;
const QUARANTINE_BYTES: usize = 16 << 20;
const QUARANTINE_MAX_BLOCK: usize = 1 << 20;

const LIVE: u8 = 1;
const QUARANTINED: u8 = 2;

#[derive(Clone, Copy)]
struct Slot {
    ptr: usize, // 0 = empty
    size: usize,
    align: u32,
    state: u8,
    epoch: u64,
}

const EMPTY: Slot = Slot { ptr: 0, size: 0, align: 0, state: 0, epoch: 0 };

struct State {
    table: [Slot; SLOTS],
    used: usize,
    ring: [usize; RING], // addresses of quarantined blocks, oldest at `head`
    head: usize,
    len: usize,
    bytes: usize,
}

struct Shared(UnsafeCell<State>);
unsafe impl Sync for Shared {}

static STATE: Shared = Shared(UnsafeCell::new(State { table: [EMPTY; SLOTS], used: 0, ring: [0; RING], head: 0, len: 0, bytes: 0 }));

struct Guard;
fn lock() -> Guard {
    while LOCK.compare_exchange_weak(false, true, Ordering::Acquire, Ordering::Relaxed).is_err() {
        std::hint::spin_loop();
    }
    Guard
}
impl Drop for Guard {
    fn drop(&mut self) {
        LOCK.store(false, Ordering::Release);
    }
}

#[inline]
fn home(ptr: usize) -> usize {
    ((ptr >> 4).wrapping_mul(0x9E37_79B9_7F4A_7C15usize) >> 20) & MASK
}

impl State {
    fn find(&self, ptr: usize) -> Option<usize> {
        let mut i = home(ptr);
        loop {
            let s = &self.table[i];
            if s.ptr == 0 {
                return None;
            }
            if s.ptr == ptr {
                return Some(i);
            }
            i = (i + 1) & MASK;
        }
    }
    fn insert(&mut self, slot: Slot) -> bool {
        if self.used * 4 >= SLOTS * 3 {
            return false;
        }
        let mut i = home(slot.ptr);
        while self.table[i].ptr != 0 {
            i = (i + 1) & MASK;
        }
        self.table[i] = slot;
        self.used += 1;
        true
    }
    /// linear probing, backward-shift deletion
    fn remove(&mut self, mut i: usize) {
        self.table[i] = EMPTY;
        self.used -= 1;
        let mut j = i;
        loop {
            j = (j + 1) & MASK;
            let s = self.table[j];
            if s.ptr == 0 {
                return;
            }
            let k = home(s.ptr);
            // move s back to i unless its home lies cyclically in (i, j]
            let in_range = if i <= j { i < k && k <= j } else { i < k || k <= j };
            if !in_range {
                self.table[i] = s;
                self.table[j] = EMPTY;
                i = j;
            }
        }
    }
    /// really release the oldest quarantined blocks until the quarantine is within its bounds
    unsafe fn evict(&mut self, keep: usize) {
        while self.len > keep || self.bytes > QUARANTINE_BYTES {
            if self.len == 0 {
                return;
            }
            let ptr = self.ring[self.head];
            self.head = (self.head + 1) % RING;
            self.len -= 1;
            if let Some(i) = self.find(ptr) {
                let s = self.table[i];
                self.bytes -= s.size;
                self.remove(i);
                System.dealloc(ptr as *mut u8, Layout::from_size_align_unchecked(s.size, s.align as usize));
            }
        }
    }
}

struct Buf {
    b: [u8; 320],
    n: usize,
}
impl std::fmt::Write for Buf {
    fn write_str(&mut self, s: &str) -> std::fmt::Result {
        for &c in s.as_bytes() {
            if self.n < self.b.len() - 1 {
                self.b[self.n] = c;
                self.n += 1;
            }
        }
        Ok(())
    }
}

fn raw_write(fd: i32, bytes: &[u8]) {
    use std::io::Write;
    use std::os::fd::FromRawFd;
    let mut f = std::mem::ManuallyDrop::new(unsafe { std::fs::File::from_raw_fd(fd) });
    let _ = f.write_all(bytes);
}

/// report and die; never returns
fn violation(kind: &str, op: &str, ptr: usize, given: Layout, recorded: Option<Slot>) -> ! {
    use std::fmt::Write;
    ON.store(false, Ordering::SeqCst);
    let mut b = Buf { b: [0; 320], n: 0 };
    let _ = write!(b, "a alloc-violation kind={kind} in={op} ptr={ptr:#x} given=(size {}, align {})", given.size(), given.align());
    match recorded {
        Some(s) => {
            let _ = write!(b, " recorded=(size {}, align {}, {})", s.size, s.align, if s.state == LIVE { "live" } else { "already released" });
        }
        None => {
            let _ = write!(b, " recorded=nothing");
        }
    }
    let _ = write!(b, " epoch={}", EPOCH.load(Ordering::Relaxed));
    b.b[b.n] = b'\n';
    raw_write(1, &b.b[..=b.n]);
    raw_write(2, &b.b[..=b.n]);
    std::process::abort();
}

unsafe fn track(ptr: *mut u8, layout: Layout) {
    if ptr.is_null() {
        return;
    }
    let _g = lock();
    let st = &mut *STATE.0.get();
    let epoch = EPOCH.load(Ordering::Relaxed);
    if st.insert(Slot { ptr: ptr as usize, size: layout.size(), align: layout.align() as u32, state: LIVE, epoch }) {
        EPOCH_LIVE.fetch_add(1, Ordering::Relaxed);
        EPOCH_BYTES.fetch_add(layout.size() as i64, Ordering::Relaxed);
    } else {
        // table full: the checks would be unsound from here on
        OVERFLOW.store(true, Ordering::Relaxed);
        ON.store(false, Ordering::SeqCst);
    }
}

/// verify and release (into the quarantine)
unsafe fn release(ptr: *mut u8, layout: Layout, op: &str) {
    let g = lock();
    let st = &mut *STATE.0.get();
    let Some(i) = st.find(ptr as usize) else {
        drop(g);
        violation("free-of-unknown-pointer", op, ptr as usize, layout, None);
    };
    let s = st.table[i];
    if s.state != LIVE {
        drop(g);
        violation("double-free", op, ptr as usize, layout, Some(s));
    }
    if s.size != layout.size() || s.align as usize != layout.align() {
        drop(g);
        violation("layout-mismatch", op, ptr as usize, layout, Some(s));
    }
    CHECKED_FREES.fetch_add(1, Ordering::Relaxed);
    if s.epoch == EPOCH.load(Ordering::Relaxed) {
        EPOCH_LIVE.fetch_sub(1, Ordering::Relaxed);
        EPOCH_BYTES.fetch_sub(s.size as i64, Ordering::Relaxed);
    }
    std::ptr::write_bytes(ptr, 0xDD, s.size);
    if s.size > QUARANTINE_MAX_BLOCK {
        st.remove(i);
        System.dealloc(ptr, layout);
        return;
    }
    st.table[i].state = QUARANTINED;
    st.evict(RING - 1);
    let at = (st.head + st.len) % RING;
    st.ring[at] = ptr as usize;
    st.len += 1;
    st.bytes += s.size;
    st.evict(RING - 1);
}

unsafe impl GlobalAlloc for Checking {
    unsafe fn alloc(&self, layout: Layout) -> *mut u8 {
        let p = System.alloc(layout);
        if ON.load(Ordering::Relaxed) {
            if SKIP_STRING_HEADER.load(Ordering::Relaxed)
                && layout.size() == std::mem::size_of::<String>()
                && layout.align() == std::mem::align_of::<String>()
            {
                SKIPPED_HEADERS.fetch_add(1, Ordering::Relaxed);
            } else {
                track(p, layout);
            }
        }
        p
    }
    unsafe fn alloc_zeroed(&self, layout: Layout) -> *mut u8 {
        let p = System.alloc_zeroed(layout);
        if ON.load(Ordering::Relaxed) {
            track(p, layout);
        }
        p
    }
    unsafe fn dealloc(&self, ptr: *mut u8, layout: Layout) {
        if ON.load(Ordering::Relaxed) {
            release(ptr, layout, "dealloc");
        } else {
            System.dealloc(ptr, layout);
        }
    }
    unsafe fn realloc(&self, ptr: *mut u8, layout: Layout, new_size: usize) -> *mut u8 {
        if !ON.load(Ordering::Relaxed) {
            return System.realloc(ptr, layout, new_size);
        }
        // always move
        let new_layout = Layout::from_size_align_unchecked(new_size, layout.align());
        let p = System.alloc(new_layout);
        if p.is_null() {
            return p;
        }
        std::ptr::copy_nonoverlapping(ptr, p, layout.size().min(new_size));
        track(p, new_layout);
        if ON.load(Ordering::Relaxed) {
            release(ptr, layout, "realloc");
        } else {
            System.dealloc(ptr, layout);
        }
        p
    }
}

/// the parent process does not check
pub fn disable() {
    ON.store(false, Ordering::SeqCst);
}

pub fn enabled() -> bool {
    ON.load(Ordering::Relaxed)
}

/// start a new epoch (the allocations of one history)
pub fn begin_epoch() {
    let _g = lock();
    EPOCH.fetch_add(1, Ordering::Relaxed);
    EPOCH_LIVE.store(0, Ordering::Relaxed);
    EPOCH_BYTES.store(0, Ordering::Relaxed);
}

/// (blocks, bytes) allocated in the current epoch and still live
pub fn epoch_stats() -> (i64, i64) {
    let _g = lock();
    (EPOCH_LIVE.load(Ordering::Relaxed), EPOCH_BYTES.load(Ordering::Relaxed))
}

/// up to `max` (size, align) pairs of blocks of the current epoch that are still live (diagnostics of a leak)
pub fn epoch_live_blocks(max: usize, out: &mut [(usize, u32)]) -> usize {
    let _g = lock();
    let st = unsafe { &*STATE.0.get() };
    let epoch = EPOCH.load(Ordering::Relaxed);
    let mut n = 0;
    for s in st.table.iter() {
        if s.ptr != 0 && s.state == LIVE && s.epoch == epoch {
            if n < max && n < out.len() {
                out[n] = (s.size, s.align);
            }
            n += 1;
        }
    }
    n
}

pub fn skip_string_header(on: bool) {
    SKIP_STRING_HEADER.store(on, Ordering::SeqCst);
}

pub fn skipped_headers() -> u64 {
    SKIPPED_HEADERS.load(Ordering::Relaxed)
}

pub fn checked_frees() -> u64 {
    CHECKED_FREES.load(Ordering::Relaxed)
}

pub fn overflowed() -> bool {
    OVERFLOW.load(Ordering::Relaxed)
}
