//! `c19 --worker [--careful]`: executes call histories on the REAL loader ABI (`loader_native::*`).
//!
//! One history = one fresh thread (the loader's state is thread-local: a fresh thread is a fresh
//! loader instance). Strings are passed exactly like packages/loader-core/src/alloc.ts does
//! (`alloc_string(len)`, copy, call, `free_string(ptr, len)`), results are read exactly like bin.ts
//! (`get_result_ptr()` + `get_result_size()`).
//!
//! Nothing here protects against a panic of the loader: a panic in an `extern "C"` function aborts the
//! process. The panic hook only reports the message (line `p <json string>`) before the abort.
use loader_native as ln;
use serde_json::{json, Value};
use std::io::{BufRead, BufWriter, Stdout, Write};
use std::sync::atomic::{AtomicBool, AtomicU64, Ordering};
use std::sync::{Arc, Mutex};

static OUT: Mutex<Option<BufWriter<Stdout>>> = Mutex::new(None);
static CAREFUL: AtomicBool = AtomicBool::new(false);
static LENCAP_CHECKS: AtomicU64 = AtomicU64::new(0);
static LENCAP_VIOLATIONS: AtomicU64 = AtomicU64::new(0);
/// no protocol output (warm-up history)
static QUIET: AtomicBool = AtomicBool::new(false);
static LEAK_RERUNS: AtomicU64 = AtomicU64::new(0);
static LEAK_CHECKS: AtomicU64 = AtomicU64::new(0);

fn put_line(line: &str, force_flush: bool) {
    if QUIET.load(Ordering::Relaxed) {
        return;
    }
    let mut g = match OUT.lock() {
        Ok(g) => g,
        Err(p) => p.into_inner(),
    };
    if let Some(w) = g.as_mut() {
        let _ = w.write_all(line.as_bytes());
        let _ = w.write_all(b"\n");
        if force_flush || CAREFUL.load(Ordering::Relaxed) {
            let _ = w.flush();
        }
    }
}

fn respond(v: Value) {
    put_line(&format!("r {}", serde_json::to_string(&v).unwrap()), false);
}

/// the two std behaviours the loader relies on, mirrored on the very string that is passed
fn lencap_check(s: &str) {
    let n = s.len();
    // alloc_string / free_string: `String::with_capacity(n)` … `String::from_raw_parts(ptr, 0, n)`
    LENCAP_CHECKS.fetch_add(1, Ordering::Relaxed);
    if String::with_capacity(n).capacity() != n {
        LENCAP_VIOLATIONS.fetch_add(1, Ordering::Relaxed);
    }
    // read_str_ptr → register_file: `(ptr, len, capacity)` then `into_boxed_str` must not reallocate
    LENCAP_CHECKS.fetch_add(1, Ordering::Relaxed);
    let owned = String::from_utf8(s.as_bytes().to_vec()).unwrap();
    if owned.len() != owned.capacity() {
        LENCAP_VIOLATIONS.fetch_add(1, Ordering::Relaxed);
    }
}

struct Passed {
    ptr: *mut u8,
    len: usize,
}

/// alloc.ts `allocString`
fn pass(s: &str) -> Passed {
    lencap_check(s);
    super::checkalloc::skip_string_header(true);
    let ptr = ln::alloc_string(s.len());
    super::checkalloc::skip_string_header(false);
    unsafe { std::ptr::copy_nonoverlapping(s.as_ptr(), ptr, s.len()) };
    Passed { ptr, len: s.len() }
}

impl Passed {
    /// alloc.ts `free`
    fn free(self) {
        unsafe { ln::free_string(self.ptr, self.len) };
    }
}

/// bin.ts `readResult`
fn read_result() -> String {
    let ptr = ln::get_result_ptr();
    let size = ln::get_result_size();
    let bytes = unsafe { std::slice::from_raw_parts(ptr, size) };
    String::from_utf8_lossy(bytes).into_owned()
}

fn hex(h: u64) -> String {
    format!("{h:016x}")
}

fn truncate(s: &str, max: usize) -> &str {
    let mut n = s.len().min(max);
    while !s.is_char_boundary(n) {
        n -= 1;
    }
    &s[..n]
}

struct Tables {
    pool: Vec<String>,
    paths: Vec<String>,
}

fn idx(v: &Value, i: usize) -> usize {
    v.get(i).and_then(|x| x.as_u64()).unwrap_or(0) as usize
}

fn run_history(ops: &[Value], tb: &Tables) {
    for op in ops {
        let kind = op.get(0).and_then(|k| k.as_str()).unwrap_or("");
        match kind {
            "I" => {
                let f = pass(&tb.paths[idx(op, 1)]);
                let s = pass(&tb.pool[idx(op, 2)]);
                let id = ln::initiate_task(f.ptr, f.len, s.ptr, s.len);
                f.free();
                s.free();
                if id != 0 {
                    respond(json!(["id", id]));
                } else {
                    respond(json!(["fail", read_result()]));
                }
            }
            "R" => {
                if ln::get_required_files(idx(op, 1)) {
                    respond(json!(["files", read_result()]));
                } else {
                    respond(json!(["fail", read_result()]));
                }
            }
            "L" => {
                let f = pass(&tb.paths[idx(op, 2)]);
                let s = pass(&tb.pool[idx(op, 3)]);
                let ok = ln::load_file(idx(op, 1), f.ptr, f.len, s.ptr, s.len);
                f.free();
                s.free();
                if ok {
                    respond(json!(["ok"]));
                } else {
                    respond(json!(["fail", read_result()]));
                }
            }
            "E" => {
                if ln::emit_js(idx(op, 1)) {
                    let js = read_result();
                    respond(json!(["js", hex(nvh::report::fnv(&js)), js.len()]));
                } else {
                    respond(json!(["fail", read_result()]));
                }
            }
            // ---- stream `emit-concrete` (c19/concrete.rs): config, and whole texts instead of hashes
            "C" => {
                let c = pass(&tb.pool[idx(op, 1)]);
                let ok = ln::load_config(c.ptr, c.len);
                c.free();
                respond(json!(["cfg", ok]));
            }
            "X" => {
                if ln::emit_js(idx(op, 1)) {
                    respond(json!(["jst", read_result()]));
                } else {
                    respond(json!(["fail", read_result()]));
                }
            }
            "Y" => {
                respond(json!(["rest", read_result()]));
            }
            "F" => {
                // self-test of the checking allocator (never set by ./check): C19_ALLOC_SELFTEST=leak|double-free|layout-mismatch
                // makes the WORKER misbehave at every free_task call, the way a loader bug would
                match std::env::var("C19_ALLOC_SELFTEST").as_deref() {
                    Ok("leak") => {
                        std::hint::black_box(Box::leak(std::hint::black_box(Box::new([7u8; 100]))));
                    }
                    Ok("double-free") => unsafe {
                        let p = std::hint::black_box(std::alloc::alloc(std::alloc::Layout::from_size_align_unchecked(40, 1)));
                        std::alloc::dealloc(std::hint::black_box(p), std::alloc::Layout::from_size_align_unchecked(40, 1));
                        std::alloc::dealloc(std::hint::black_box(p), std::alloc::Layout::from_size_align_unchecked(40, 1));
                    },
                    Ok("layout-mismatch") => unsafe {
                        let p = std::hint::black_box(std::alloc::alloc(std::alloc::Layout::from_size_align_unchecked(40, 1)));
                        std::alloc::dealloc(std::hint::black_box(p), std::alloc::Layout::from_size_align_unchecked(std::hint::black_box(48), 1));
                    },
                    _ => {}
                }
                ln::free_task(idx(op, 1));
                respond(json!(["freed"]));
            }
            "G" => {
                // no protection: before any result was stored this unwraps `None` and aborts
                let text = read_result();
                respond(json!(["res", truncate(&text, 300), hex(nvh::report::fnv(&text))]));
            }
            _ => respond(json!(["bad-op"])),
        }
    }
}

/// One history on a fresh loader instance, under the checking allocator (c19/checkalloc.rs): fresh thread = fresh
/// thread-locals; `join` waits for the thread's TLS destructors too (they drop the remaining tasks and their source buffers).
/// Afterwards everything the history allocated must be gone (the `Box<String>` headers `alloc_string` leaks are not
/// recorded). What a first use initialises once per process (parser tables, std's thread bookkeeping, …) also survives:
/// a history that leaves blocks behind is therefore run a SECOND time (silently; it is deterministic) and only what the
/// second run leaves behind as well is a leak, reported as line `k <json>`.
fn run_in_fresh_instance(ops: Vec<Value>, tb: &Arc<Tables>) {
    let run = |ops: Vec<Value>| -> (i64, i64) {
        let tb2 = tb.clone();
        super::checkalloc::begin_epoch();
        let t = std::thread::Builder::new().stack_size(8 << 20).spawn(move || run_history(&ops, &tb2)).expect("spawn history thread");
        let _ = t.join();
        super::checkalloc::epoch_stats()
    };
    if !super::checkalloc::enabled() {
        run(ops);
        return;
    }
    let again = ops.clone();
    LEAK_CHECKS.fetch_add(1, Ordering::Relaxed);
    if run(ops) == (0, 0) {
        return;
    }
    LEAK_RERUNS.fetch_add(1, Ordering::Relaxed);
    QUIET.store(true, Ordering::Relaxed);
    let (live, bytes) = run(again);
    QUIET.store(false, Ordering::Relaxed);
    if (live, bytes) != (0, 0) {
        let mut blocks = [(0usize, 0u32); 12];
        let n = super::checkalloc::epoch_live_blocks(12, &mut blocks);
        let shown: Vec<Value> = blocks[..n.min(12)].iter().map(|(s, a)| json!([s, a])).collect();
        put_line(&format!("k {}", json!({ "live_blocks": live, "live_bytes": bytes, "some_live_blocks_size_align": shown })), false);
    }
}

pub fn main(careful: bool) {
    if std::env::var("C19_NO_ALLOC_CHECK").is_ok() {
        super::checkalloc::disable(); // measurement knob
    }
    CAREFUL.store(careful, Ordering::Relaxed);
    *OUT.lock().unwrap() = Some(BufWriter::with_capacity(1 << 16, std::io::stdout()));
    std::panic::set_hook(Box::new(|info| {
        let msg = info.to_string();
        put_line(&format!("p {}", serde_json::to_string(&Value::String(msg)).unwrap()), true);
    }));
    let stdin = std::io::stdin();
    let mut lines = stdin.lock().lines();
    let header: Value = match lines.next() {
        Some(Ok(l)) => serde_json::from_str(&l).expect("worker header"),
        _ => return,
    };
    let strs = |k: &str| -> Vec<String> {
        header[k].as_array().map(|a| a.iter().map(|x| x.as_str().unwrap_or("").to_string()).collect()).unwrap_or_default()
    };
    let tb = Arc::new(Tables { pool: strs("pool"), paths: strs("paths") });
    for line in lines {
        let Ok(line) = line else { break };
        if line.trim().is_empty() {
            continue;
        }
        let ops: Vec<Value> = match serde_json::from_str::<Value>(&line) {
            Ok(Value::Array(a)) => a,
            _ => {
                put_line("r [\"bad-history\"]", false);
                put_line("e", true);
                continue;
            }
        };
        run_in_fresh_instance(ops, &tb);
        put_line("e", true);
    }
    let s = json!({
        "lencap_checks": LENCAP_CHECKS.load(Ordering::Relaxed),
        "lencap_violations": LENCAP_VIOLATIONS.load(Ordering::Relaxed),
        "alloc_checked_frees": super::checkalloc::checked_frees(),
        "alloc_leak_checks": LEAK_CHECKS.load(Ordering::Relaxed),
        "alloc_leak_reruns": LEAK_RERUNS.load(Ordering::Relaxed),
        "alloc_string_headers_not_recorded": super::checkalloc::skipped_headers(),
        "alloc_table_overflow": super::checkalloc::overflowed(),
    });
    put_line(&format!("s {}", serde_json::to_string(&s).unwrap()), true);
}
