//! K stream `emit-concrete:*` — the CONCRETE emitter model of `lean/NitroVerif/Lemmas/LoaderComposed.lean` against the
//! real `emit_js`.
//!
//! `Props/C19Composed.lean` instantiates the loader model's abstract emitter with `emitFiles` = C13's import resolver on the
//! task's files → `findUndefined` → C14's statements + C12's document literals. The main K stream of c19.rs treats the
//! emitter abstractly (token + hash); this stream evaluates the composition itself:
//!
//!   one case  = a small multi-file PROJECT (root + fragment files: diamonds, respelled path literals, transitive and cyclic
//!               imports, wildcard / named / merged import lines, a missing fragment name, a missing file, undefined
//!               spreads at several depths, a file that defines AND imports a fragment of one name, several operations,
//!               sources that do not parse) + a config (default / named export, capitalisation, suffixes) + a HISTORY of
//!               loader calls over it (partial loads, re-supplied files, several tasks, emit before / after loading);
//!   model     = `(concrete …)` of lean/Driver/C19.lean: the files as the REAL parser reads them (Gql codec), the config keys
//!               and the history; the driver runs `Loader.step` with the concrete emitter and answers call by call —
//!               for `emit_js` the error (import error / FragmentNotDefined / …) or the module as ordered statements +
//!               one JSON document per definition;
//!   real      = the same history on the real `extern "C"` ABI in a `c19 --worker` child (`load_config`, whole texts);
//!               statements by the tokenizer of c14.rs, literals by serde_json (member order immaterial, as in c12.rs).
//!
//! Any difference is a K failure `emit-concrete:<what>`.
use super::pool::{Cfg, HistLine, RealResp, WorkerPool};
use nvh::*;
use serde_json::{json, Value};
use std::collections::{BTreeMap, BTreeSet};
use std::path::PathBuf;

// ------------------------------------------------------------------------------------------------ cases

#[derive(Clone, Copy, Debug, PartialEq, Eq)]
pub enum COp {
    /// initiate_task(path index, source index)
    I(usize, usize),
    R(usize),
    /// load_file(task, path index, source index)
    L(usize, usize, usize),
    E(usize),
    F(usize),
    /// read RESULT (whole text)
    G,
}

impl COp {
    fn json(&self) -> Value {
        match *self {
            COp::I(p, s) => json!(["I", p, s]),
            COp::R(t) => json!(["R", t]),
            COp::L(t, p, s) => json!(["L", t, p, s]),
            COp::E(t) => json!(["E", t]),
            COp::F(t) => json!(["F", t]),
            COp::G => json!(["G"]),
        }
    }
    fn from_json(v: &Value) -> Option<COp> {
        let n = |i: usize| v.get(i).and_then(|x| x.as_u64()).map(|x| x as usize);
        Some(match v.get(0)?.as_str()? {
            "I" => COp::I(n(1)?, n(2)?),
            "R" => COp::R(n(1)?),
            "L" => COp::L(n(1)?, n(2)?, n(3)?),
            "E" => COp::E(n(1)?),
            "F" => COp::F(n(1)?),
            "G" => COp::G,
            _ => return None,
        })
    }
    fn text(&self) -> String {
        match *self {
            COp::I(p, s) => format!("I({p},{s})"),
            COp::R(t) => format!("R{t}"),
            COp::L(t, p, s) => format!("L({t},{p},{s})"),
            COp::E(t) => format!("E{t}"),
            COp::F(t) => format!("F{t}"),
            COp::G => "G".into(),
        }
    }
    fn kind(&self) -> &'static str {
        match self {
            COp::I(..) => "initiate",
            COp::R(_) => "required",
            COp::L(..) => "load",
            COp::E(_) => "emit",
            COp::F(_) => "free",
            COp::G => "result",
        }
    }
}

/// a project with ONE history (the unit of comparison, of shrinking and of replay)
#[derive(Clone, Debug)]
pub struct Case {
    /// keys of `extensions.nitrogql.generate` present in the config text
    cfg: Vec<(String, Value)>,
    /// the text given to `load_config` before the first call; None = the loader's default config, no call
    config_text: Option<String>,
    paths: Vec<String>,
    sources: Vec<String>,
    ops: Vec<COp>,
    origin: String,
}

impl Case {
    pub fn to_json(&self) -> Value {
        json!({ "concrete": {
            "cfg": self.cfg.iter().map(|(k, v)| json!([k, v])).collect::<Vec<_>>(),
            "config_text": self.config_text,
            "paths": self.paths,
            "sources": self.sources,
            "ops": self.ops.iter().map(|o| o.json()).collect::<Vec<_>>(),
        }})
    }
    pub fn from_json(v: &Value) -> Option<Case> {
        let c = v.get("concrete")?;
        let strs = |k: &str| -> Option<Vec<String>> { c.get(k)?.as_array()?.iter().map(|x| x.as_str().map(|s| s.to_string())).collect() };
        let case = Case {
            cfg: c.get("cfg")?.as_array()?.iter().map(|p| (p[0].as_str().unwrap_or("").to_string(), p[1].clone())).collect(),
            config_text: c.get("config_text").and_then(|x| x.as_str()).map(|s| s.to_string()),
            paths: strs("paths")?,
            sources: strs("sources")?,
            ops: c.get("ops")?.as_array()?.iter().map(COp::from_json).collect::<Option<Vec<_>>>()?,
            origin: "replay".into(),
        };
        let ok = case.ops.iter().all(|o| match *o {
            COp::I(p, s) | COp::L(_, p, s) => p < case.paths.len() && s < case.sources.len(),
            _ => true,
        });
        ok.then_some(case)
    }
    fn hist_text(&self) -> String {
        self.ops.iter().map(|o| o.text()).collect::<Vec<_>>().join(" ")
    }
}

// ------------------------------------------------------------------------------------------------ project generator

const FRAG_FILES: [&str; 6] = ["/p/x.graphql", "/p/sub/y.graphql", "/p/z.graphql", "/q/w.graphql", "/p/sub/deep/v.graphql", "/p/sub/u.graphql"];
const ROOTS: [&str; 3] = ["/p/main.graphql", "/p/sub/main.graphql", "/q/op.graphql"];
const FRAG_NAMES: [&str; 10] = ["X0", "X1", "Y", "Z", "L", "W", "x0", "Frag1", "Query", "a"];
const OP_NAMES: [&str; 8] = ["Q", "q", "GetUser", "getUser", "R", "M", "X0", "Query"];
const UNDEFINED: [&str; 3] = ["Missing", "Nope", "Undefined1"];
const FIELDS: [&str; 7] = ["a", "b", "c", "d", "id", "name", "friend"];

#[derive(Clone, Debug)]
enum DefSpec {
    Op { kind: &'static str, name: Option<String>, spreads: Vec<String> },
    Frag { name: String, spreads: Vec<String> },
}

#[derive(Clone, Debug)]
struct ImportLine {
    literal: String,
    /// None = wildcard
    targets: Option<Vec<String>>,
}

#[derive(Clone, Debug)]
struct FileSpec {
    path: String,
    imports: Vec<ImportLine>,
    defs: Vec<DefSpec>,
}

fn dir_components(path: &str) -> Vec<&str> {
    let mut c: Vec<&str> = path.split('/').filter(|s| !s.is_empty()).collect();
    c.pop();
    c
}

/// a spelling of the path of `to` relative to the file `from` (purely lexical detours included)
fn literal(rng: &mut Rng, from: &str, to: &str) -> (String, bool) {
    let fd = dir_components(from);
    let td = dir_components(to);
    let name = to.rsplit('/').next().unwrap_or("");
    let mut k = 0;
    while k < fd.len() && k < td.len() && fd[k] == td[k] {
        k += 1;
    }
    let mut parts: Vec<String> = vec![];
    for _ in k..fd.len() {
        parts.push("..".into());
    }
    for d in &td[k..] {
        parts.push(d.to_string());
    }
    parts.push(name.to_string());
    let plain = parts.join("/");
    match rng.below(10) {
        0 | 1 | 2 => (plain, false),
        3 | 4 => (format!("./{plain}"), false),
        5 => {
            // a detour through a directory that need not exist
            let at = rng.below(parts.len());
            let mut p = parts.clone();
            p.insert(at, "..".into());
            p.insert(at, ["sub", "zz", "p"][rng.below(3)].into());
            (p.join("/"), true)
        }
        6 => {
            let at = rng.below(parts.len());
            let mut p = parts.clone();
            p.insert(at, ".".into());
            (format!("./{}", p.join("/")), true)
        }
        7 => (to.to_string(), true), // absolute
        8 => {
            // up to the root and down again
            let mut p: Vec<String> = fd.iter().map(|_| "..".to_string()).collect();
            p.extend(td.iter().map(|d| d.to_string()));
            p.push(name.to_string());
            (p.join("/"), true)
        }
        _ => (format!("./{}", plain), false),
    }
}

fn gen_value(rng: &mut Rng, depth: usize) -> String {
    match rng.below(if depth > 1 { 7 } else { 9 }) {
        0 => format!("{}", rng.range(-5, 300)),
        1 => "\"s\"".into(),
        2 => "$v".into(),
        3 => "true".into(),
        4 => "null".into(),
        5 => "RED".into(),
        6 => "1.5".into(),
        7 => format!("[{}, {}]", gen_value(rng, depth + 1), gen_value(rng, depth + 1)),
        _ => format!("{{k: {}, j: {}}}", gen_value(rng, depth + 1), gen_value(rng, depth + 1)),
    }
}

fn gen_directives(rng: &mut Rng) -> String {
    match rng.below(9) {
        0 => " @include(if: $v)".into(),
        1 => " @skip(if: true)".into(),
        2 => " @tag".into(),
        _ => String::new(),
    }
}

/// a selection set that spreads exactly `spreads`, in this order (document order), at random depths
fn gen_selset(rng: &mut Rng, spreads: &[String], depth: usize) -> String {
    let mut items: Vec<String> = vec![];
    let mut i = 0;
    let n_fields = 1 + rng.below(3);
    let mut fields_left = n_fields;
    while i < spreads.len() || fields_left > 0 {
        let take_spread = i < spreads.len() && (fields_left == 0 || rng.coin());
        if take_spread {
            // how many of the remaining spreads go into a nested selection set here
            if depth < 3 && rng.chance(2, 5) {
                let k = 1 + rng.below(spreads.len() - i);
                let inner = gen_selset(rng, &spreads[i..i + k], depth + 1);
                i += k;
                if rng.coin() {
                    let f = FIELDS[rng.below(FIELDS.len())];
                    items.push(format!("{f}{} {inner}", gen_directives(rng)));
                } else if rng.coin() {
                    items.push(format!("... on {}{} {inner}", ["T", "User", "Query"][rng.below(3)], gen_directives(rng)));
                } else {
                    items.push(format!("...{} {inner}", [" @include(if: true)", "", " @tag"][rng.below(3)]));
                }
            } else {
                items.push(format!("...{}{}", spreads[i], gen_directives(rng)));
                i += 1;
            }
        } else {
            fields_left -= 1;
            let f = FIELDS[rng.below(FIELDS.len())];
            let alias = if rng.chance(1, 5) { format!("al{}: ", rng.below(3)) } else { String::new() };
            let args = if rng.chance(1, 4) { format!("(x: {}, y: {})", gen_value(rng, 0), gen_value(rng, 0)) } else { String::new() };
            let sub = if depth < 2 && rng.chance(1, 5) { format!(" {}", gen_selset(rng, &[], depth + 1)) } else { String::new() };
            items.push(format!("{alias}{f}{args}{}{sub}", gen_directives(rng)));
        }
    }
    format!("{{ {} }}", items.join(if rng.chance(1, 6) { ", " } else { " " }))
}

fn render_def(rng: &mut Rng, d: &DefSpec) -> String {
    match d {
        DefSpec::Op { kind, name, spreads } => {
            let sel = gen_selset(rng, spreads, 0);
            match name {
                None if *kind == "query" && rng.coin() => sel,
                None => format!("{kind} {sel}"),
                Some(n) => {
                    let vars = match rng.below(4) {
                        0 => "($v: Boolean = true, $w: [Int!]!)",
                        1 => "($v: Boolean!)",
                        _ => "",
                    };
                    format!("{kind} {n}{vars}{} {sel}", gen_directives(rng))
                }
            }
        }
        DefSpec::Frag { name, spreads } => {
            format!("fragment {name} on {}{} {}", ["T", "User", "Query"][rng.below(3)], gen_directives(rng), gen_selset(rng, spreads, 0))
        }
    }
}

fn render_file(rng: &mut Rng, f: &FileSpec) -> String {
    let mut lines: Vec<String> = vec![];
    for imp in &f.imports {
        let t = match &imp.targets {
            None => "*".to_string(),
            Some(ns) => ns.join(if rng.coin() { ", " } else { "," }),
        };
        lines.push(format!("#import {t} from {}", serde_json::to_string(&imp.literal).unwrap()));
    }
    let mut defs: Vec<String> = f.defs.iter().map(|d| render_def(rng, d)).collect();
    // an import line may stand between definitions
    if !lines.is_empty() && !defs.is_empty() && rng.chance(1, 5) {
        let l = lines.pop().unwrap();
        let at = 1 + rng.below(defs.len());
        defs.insert(at, format!("\n{l}"));
    }
    if rng.chance(1, 8) {
        lines.insert(0, "# a comment".into());
    }
    lines.extend(defs);
    lines.join("\n") + "\n"
}

fn frag_names_of(f: &FileSpec) -> Vec<String> {
    f.defs.iter().filter_map(|d| match d {
        DefSpec::Frag { name, .. } => Some(name.clone()),
        _ => None,
    }).collect()
}

struct Project {
    cfg: Vec<(String, Value)>,
    config_text: Option<String>,
    paths: Vec<String>,
    /// sources[i] for i < n_files is the text of the file at paths[i]; the rest are alternative / broken sources
    sources: Vec<String>,
    n_files: usize,
    features: BTreeSet<&'static str>,
}

fn random_project(rng: &mut Rng) -> Project {
    let mut features: BTreeSet<&'static str> = BTreeSet::new();
    let root = ROOTS[rng.below(ROOTS.len())].to_string();
    let n_frag_files = [0, 1, 2, 2, 3, 3, 4][rng.below(7)];
    let mut pool: Vec<&str> = FRAG_FILES.to_vec();
    rng.shuffle(&mut pool);
    let mut files: Vec<FileSpec> = vec![FileSpec { path: root.clone(), imports: vec![], defs: vec![] }];
    for p in pool.iter().take(n_frag_files) {
        files.push(FileSpec { path: p.to_string(), imports: vec![], defs: vec![] });
    }
    // --- definitions (names only; spreads are filled in once the import lines are known)
    let few_names = rng.chance(1, 3); // few names → the same name in several files
    let name_pool: &[&str] = if few_names { &FRAG_NAMES[..3] } else { &FRAG_NAMES };
    for (k, f) in files.iter_mut().enumerate() {
        if k == 0 {
            let n_ops = [1, 1, 1, 2, 2, 3][rng.below(6)];
            for _ in 0..n_ops {
                let kind = ["query", "query", "query", "mutation", "subscription"][rng.below(5)];
                let name = if rng.chance(1, 6) { None } else { Some(OP_NAMES[rng.below(OP_NAMES.len())].to_string()) };
                f.defs.push(DefSpec::Op { kind, name, spreads: vec![] });
            }
            if n_ops > 1 {
                features.insert("several-operations");
            }
            for _ in 0..[0, 0, 1, 1, 2][rng.below(5)] {
                f.defs.push(DefSpec::Frag { name: name_pool[rng.below(name_pool.len())].to_string(), spreads: vec![] });
            }
            if rng.chance(1, 4) {
                rng.shuffle(&mut f.defs);
            }
        } else {
            for _ in 0..1 + rng.below(3) {
                f.defs.push(DefSpec::Frag { name: name_pool[rng.below(name_pool.len())].to_string(), spreads: vec![] });
            }
            if rng.chance(1, 6) {
                let at = rng.below(f.defs.len() + 1);
                f.defs.insert(at, DefSpec::Op { kind: "query", name: Some("Inner".into()), spreads: vec![] });
                features.insert("operation-in-imported-file");
            }
        }
    }
    // --- import lines
    let n = files.len();
    let all_names: Vec<Vec<String>> = files.iter().map(frag_names_of).collect();
    let mut visible: Vec<Vec<String>> = all_names.clone();
    for k in 0..n {
        let mut targets: Vec<usize> = (0..n).filter(|j| *j != k).collect();
        rng.shuffle(&mut targets);
        let want = if k == 0 { [1, 1, 2, 2, 3, 0][rng.below(6)] } else { [0, 0, 1, 1, 2][rng.below(5)] };
        // acyclic by default (a file imports later files), cycles with some probability
        let cyclic = rng.chance(1, 5);
        let mut chosen: Vec<usize> = targets.into_iter().filter(|j| cyclic || *j > k).take(want).collect();
        if cyclic && chosen.iter().any(|j| *j < k) {
            features.insert("import-cycle");
        }
        if k != 0 && rng.chance(1, 12) {
            chosen.push(k); // a file importing itself
            features.insert("self-import");
        }
        for j in chosen {
            let (lit, respelled) = literal(rng, &files[k].path, &files[j].path);
            if respelled {
                features.insert("respelled-literal");
            }
            let tgt = if rng.chance(1, 4) || all_names[j].is_empty() {
                features.insert("wildcard-import");
                visible[k].extend(all_names[j].iter().cloned());
                None
            } else {
                let mut ns = all_names[j].clone();
                rng.shuffle(&mut ns);
                ns.truncate(1 + rng.below(ns.len()));
                visible[k].extend(ns.iter().cloned());
                if rng.chance(1, 20) {
                    // a name the imported file does not define (maybe defined elsewhere)
                    let other: Vec<&String> = all_names.iter().flatten().filter(|x| !all_names[j].contains(x)).collect();
                    let nm = if !other.is_empty() && rng.coin() { other[rng.below(other.len())].clone() } else { "Nope".to_string() };
                    let at = rng.below(ns.len() + 1);
                    ns.insert(at, nm);
                    features.insert("missing-fragment-name");
                }
                Some(ns)
            };
            files[k].imports.push(ImportLine { literal: lit, targets: tgt });
            // the same file once more, under another (or the same) spelling
            if rng.chance(1, 6) && !all_names[j].is_empty() {
                let (lit2, _) = if rng.coin() { literal(rng, &files[k].path, &files[j].path) } else { (files[k].imports.last().unwrap().literal.clone(), false) };
                let nm = all_names[j][rng.below(all_names[j].len())].clone();
                visible[k].push(nm.clone());
                files[k].imports.push(ImportLine { literal: lit2, targets: Some(vec![nm]) });
                features.insert("file-imported-twice");
            }
        }
        if rng.chance(1, 40) {
            files[k].imports.push(ImportLine { literal: "./nowhere.graphql".into(), targets: Some(vec!["X0".into()]) });
            features.insert("import-of-unknown-file");
        }
        if rng.chance(1, 4) {
            rng.shuffle(&mut files[k].imports);
        }
    }
    if n >= 3 {
        // diamond: two files import a common third one
        let imports_of = |k: usize| -> BTreeSet<String> { files[k].imports.iter().map(|i| i.literal.rsplit('/').next().unwrap_or("").to_string()).collect() };
        for a in 0..n {
            for b in a + 1..n {
                if imports_of(a).intersection(&imports_of(b)).next().is_some() {
                    features.insert("diamond");
                }
            }
        }
    }
    // a file that defines AND imports a fragment of one name
    for k in 0..n {
        let own = &all_names[k];
        let imported: Vec<&String> = visible[k][own.len()..].iter().collect();
        if own.iter().any(|x| imported.contains(&x)) {
            features.insert("defines-and-imports-one-name");
        }
        let mut seen = BTreeSet::new();
        if own.iter().any(|x| !seen.insert(x)) {
            features.insert("name-defined-twice-in-a-file");
        }
    }
    // --- spreads
    let everything: Vec<String> = all_names.iter().flatten().cloned().collect();
    for k in 0..n {
        let vis = visible[k].clone();
        for d in files[k].defs.iter_mut() {
            let (spreads, own): (&mut Vec<String>, Option<String>) = match d {
                DefSpec::Op { spreads, .. } => (spreads, None),
                DefSpec::Frag { spreads, name } => (spreads, Some(name.clone())),
            };
            let m = if own.is_none() { [1, 1, 2, 3, 0][rng.below(5)] } else { [0, 0, 1, 1, 2][rng.below(5)] };
            for _ in 0..m {
                let x = rng.below(45);
                if x == 0 {
                    let u = rng.below(UNDEFINED.len());
                    spreads.push(UNDEFINED[u].to_string());
                    features.insert("undefined-spread");
                    if rng.coin() {
                        // a second, different undefined name: the code reports the FIRST in document order
                        let at = rng.below(spreads.len() + 1);
                        spreads.insert(at, UNDEFINED[(u + 1 + rng.below(UNDEFINED.len() - 1)) % UNDEFINED.len()].to_string());
                        features.insert("two-undefined-spreads");
                    }
                } else if x == 1 && !everything.is_empty() {
                    spreads.push(everything[rng.below(everything.len())].clone());
                    features.insert("spread-of-a-name-not-imported-here");
                } else if !vis.is_empty() {
                    let nm = vis[rng.below(vis.len())].clone();
                    if Some(&nm) == own.as_ref() && !rng.chance(1, 4) {
                        continue; // self-spread only rarely
                    }
                    spreads.push(nm);
                }
            }
        }
    }
    // --- texts
    let paths: Vec<String> = files.iter().map(|f| f.path.clone()).collect();
    let mut sources: Vec<String> = files.iter().map(|f| render_file(rng, f)).collect();
    let n_files = sources.len();
    // alternative sources: another rendering of some file with its import lines dropped / its fragments renamed, and two
    // sources the loader refuses
    if n_files > 1 {
        let k = 1 + rng.below(n_files - 1);
        let mut alt = files[k].clone();
        match rng.below(3) {
            0 => alt.imports.clear(),
            1 => {
                if let Some(DefSpec::Frag { name, .. }) = alt.defs.iter_mut().find(|d| matches!(d, DefSpec::Frag { .. })) {
                    *name = format!("{name}Renamed");
                }
            }
            _ => alt.defs.reverse(),
        }
        sources.push(render_file(rng, &alt));
    } else {
        sources.push("fragment X0 on T { alt }\n".into());
    }
    sources.push("query {".into());
    sources.push("#import * from \"./x.graphql\"\n#import X0 from \"./x.graphql\"\nquery Q { a }\n".into());
    let cfg = if rng.chance(3, 5) { random_cfg(rng) } else { vec![] };
    let config_text = if !cfg.is_empty() || rng.chance(1, 4) { Some(render_config(&cfg, rng)) } else { None };
    if !cfg.is_empty() {
        features.insert("config");
    }
    if cfg.iter().any(|(k, v)| k == "defaultExportForOperation" && *v == json!(false)) {
        features.insert("config:named-export");
    }
    features.insert(match n_files {
        1 => "files:1",
        2 => "files:2",
        3 => "files:3",
        _ => "files:4+",
    });
    Project { cfg, config_text, paths, sources, n_files, features }
}

/// import targets of a source as the real parser + path resolver see them (harness-side bookkeeping for the generator only)
fn wanted_paths(path: &str, src: &str) -> Vec<String> {
    let Ok(doc) = nitrogql_parser::parse_operation_document(src) else { return vec![] };
    let Ok((_, ext)) = nitrogql_semantics::resolve_operation_extensions(doc) else { return vec![] };
    ext.imports.iter().map(|i| nitrogql_utils::resolve_relative_path(std::path::Path::new(path), std::path::Path::new(&i.path.value)).to_string_lossy().into_owned()).collect()
}

fn histories(rng: &mut Rng, p: &Project) -> Vec<(Vec<COp>, &'static str)> {
    use COp::*;
    let n = p.n_files;
    let alt = n; // index of the alternative source
    let (bad_syntax, bad_ext) = (n + 1, n + 2);
    let mut out: Vec<(Vec<COp>, &'static str)> = vec![];
    // the order in which loader-core would load: breadth first along the imports
    let mut order: Vec<usize> = vec![];
    let mut queue = vec![0usize];
    while let Some(k) = queue.pop() {
        for w in wanted_paths(&p.paths[k], &p.sources[k]) {
            if let Some(j) = p.paths.iter().position(|x| *x == w) {
                if j != 0 && !order.contains(&j) {
                    order.push(j);
                    queue.insert(0, j);
                }
            }
        }
    }
    // (a) the protocol as packages/loader-core drives it
    let mut h = vec![I(0, 0), R(1)];
    for j in &order {
        h.push(L(1, *j, *j));
        if rng.chance(1, 3) {
            h.push(R(1));
        }
    }
    h.extend([R(1), E(1), G, F(1)]);
    out.push((h, "protocol"));
    // (b) emit with only part of the files, then with all of them (in any order, unreachable files included)
    let mut all: Vec<usize> = (1..n).collect();
    rng.shuffle(&mut all);
    let cut = if all.is_empty() { 0 } else { rng.below(all.len() + 1) };
    let mut h = vec![I(0, 0)];
    for j in &all[..cut] {
        h.push(L(1, *j, *j));
    }
    h.push(E(1));
    if rng.coin() {
        h.push(G);
    }
    for j in &all[cut..] {
        h.push(L(1, *j, *j));
    }
    h.extend([E(1), R(1)]);
    out.push((h, "partial-then-all"));
    // (c) a file is supplied again with another source (or one the loader refuses) and the module is emitted again
    if n > 1 {
        let mut h = vec![I(0, 0)];
        for j in 1..n {
            h.push(L(1, j, j));
        }
        h.push(E(1));
        let j = 1 + rng.below(n - 1);
        h.push(L(1, j, [alt, alt, bad_syntax, bad_ext][rng.below(4)]));
        h.push(E(1));
        if rng.coin() {
            // the root itself is supplied again: with a fragment file's text
            h.push(L(1, 0, 1 + rng.below(n - 1)));
            h.extend([E(1), G]);
        }
        out.push((h, "resupplied"));
        // (d) two tasks over the same files, another file as the second root
        let r2 = 1 + rng.below(n - 1);
        let mut h = vec![I(0, 0), I(r2, r2)];
        let mut loads: Vec<COp> = vec![];
        for j in 1..n {
            loads.push(L(1, j, j));
        }
        for j in 0..n {
            if j != r2 {
                loads.push(L(2, j, if rng.chance(1, 5) { alt } else { j }));
            }
        }
        rng.shuffle(&mut loads);
        h.extend(loads);
        h.extend([E(1), E(2), F(1), E(2), E(1)]);
        out.push((h, "two-tasks"));
    }
    // (e) anything
    let len = 5 + rng.below(10);
    let mut h = vec![I(rng.below(n), rng.below(n))];
    let mut tasks = 1;
    let mut has_result = false;
    while h.len() < len {
        let t = if rng.chance(1, 10) { tasks + 1 } else { 1 + rng.below(tasks) };
        let op = match rng.below(12) {
            0 if tasks < 3 => {
                let s = if rng.chance(1, 8) { bad_syntax } else { rng.below(n) };
                if s < n {
                    tasks += 1;
                } else {
                    has_result = true;
                }
                I(rng.below(n), s)
            }
            1 | 2 => R(t),
            3..=6 => {
                let j = rng.below(n);
                L(t, j, if rng.chance(1, 6) { n + rng.below(3) } else { j })
            }
            7..=9 => E(t),
            10 => F(t),
            _ if has_result => G,
            _ => continue,
        };
        if matches!(op, R(_) | E(_)) {
            has_result = true;
        }
        h.push(op);
    }
    if !matches!(h.last(), Some(E(_))) {
        h.push(E(1));
    }
    out.push((h, "random"));
    out
}

fn corpus() -> Vec<Case> {
    use COp::*;
    let mk = |paths: &[&str], sources: &[&str], ops: Vec<COp>, origin: &str| Case {
        cfg: vec![],
        config_text: None,
        paths: paths.iter().map(|s| s.to_string()).collect(),
        sources: sources.iter().map(|s| s.to_string()).collect(),
        ops,
        origin: origin.into(),
    };
    let mut v = vec![
        // the diamond project of Props/C12Composed.lean / C19Composed.lean
        mk(
            &["/p/main.graphql", "/p/x.graphql", "/p/sub/y.graphql"],
            &[
                "#import Y from \"./sub/y.graphql\"\n#import X0 from \"x.graphql\"\nquery Q { ...Y ...X0 }\nfragment L on T { d ...Y }\n",
                "fragment X0 on T { a }\nfragment X1 on T { b }\n",
                "#import X1 from \"../sub/../x.graphql\"\nfragment Y on T { c ...X1 }\n",
            ],
            vec![I(0, 0), R(1), L(1, 2, 2), L(1, 1, 1), R(1), E(1), G],
            "corpus:diamond",
        ),
        // the defect repaired by 08fd7e5
        mk(&["/p/main.graphql"], &["query Q { ...Missing }\n"], vec![I(0, 0), E(1), G], "corpus:undefined-spread"),
        // two undefined names: the FIRST in document order is reported (nested before later siblings)
        mk(&["/p/main.graphql"], &["fragment F on T { a { b ...Nope } ...Missing }\nquery Q { ...F ...Undefined1 }\n"], vec![I(0, 0), E(1)], "corpus:undefined-spread-order"),
        // a file that defines AND imports a fragment X0 (`C12_from_files_clash`)
        mk(
            &["/p/main.graphql", "/p/x.graphql"],
            &["#import X0 from \"./x.graphql\"\nfragment X0 on T { local }\nquery Q { ...X0 }\n", "fragment X0 on T { a }\n"],
            vec![I(0, 0), L(1, 1, 1), E(1)],
            "corpus:defines-and-imports-one-name",
        ),
        // FileNotFound before / FragmentNotFound after loading
        mk(
            &["/p/main.graphql", "/p/x.graphql"],
            &["#import Nope, X0 from \"x.graphql\"\nquery Q { ...X0 }\n", "fragment X0 on T { a }\n"],
            vec![I(0, 0), E(1), L(1, 1, 1), E(1), G],
            "corpus:missing-file-then-missing-name",
        ),
        // a cycle of files, wildcard, an operation inside an imported file, the same file under two spellings
        mk(
            &["/p/main.graphql", "/p/x.graphql", "/q/w.graphql"],
            &[
                "#import * from \"./x.graphql\"\n#import W from \"../q/w.graphql\"\n#import W from \"../q/./w.graphql\"\nquery A { ...X0 ...W }\nmutation B { m }\n{ a }\n",
                "#import W from \"/q/w.graphql\"\nquery Inner { a }\nfragment X0 on T { a ...W }\n",
                "#import X0 from \"../p/x.graphql\"\nfragment W on T { w ...X0 }\nfragment Unused on T { u }\n",
            ],
            vec![I(0, 0), L(1, 1, 1), L(1, 2, 2), E(1), I(2, 2), L(2, 1, 1), E(2)],
            "corpus:cycle",
        ),
        // the task's root file name is not normalised and another loaded file carries the normalised name: the code knows the
        // root by `normalize_path(root)` (it is never "finished", `M` is not appended -> FragmentNotDefined M). The first
        // version of `emitFiles` handed the name as supplied to `Imports.resolve` and printed a module (found by this
        // stream as a probe; `Params.norm` repaired it; driver mutant 5 is the old behaviour).
        mk(
            &["/p/sub/../main.graphql", "/p/f.graphql", "/p/main.graphql"],
            &["#import F from \"./f.graphql\"\nquery Q { ...F }\n", "#import M from \"./main.graphql\"\nfragment F on T { a ...M }\n", "fragment M on T { m }\n"],
            vec![I(0, 0), L(1, 1, 1), L(1, 2, 2), R(1), E(1)],
            "corpus:unnormalised-root-name",
        ),
        // a file supplied under a name with a `.` segment: `PathBuf` keys of `loaded_files` compare by components (`/p/./f` =
        // `/p/f`); the driver reads the file names of a history through `Path::components` (`canonStr`)
        mk(
            &["/p/main.graphql", "/p/./f.graphql"],
            &["#import F from \"./f.graphql\"\nquery Q { ...F }\n", "fragment F on T { a }\n"],
            vec![I(0, 0), L(1, 1, 1), R(1), E(1)],
            "corpus:dot-segment-in-a-loaded-file-name",
        ),
        // ... and supplied twice under two spellings of one `PathBuf`: the second supply replaces the first document
        mk(
            &["/p/main.graphql", "/p/./f.graphql", "/p//f.graphql"],
            &["#import F from \"./f.graphql\"\nquery Q { ...F }\n", "fragment F on T { a }\n", "fragment F on T { b }\n"],
            vec![I(0, 0), L(1, 1, 1), L(1, 2, 2), R(1), E(1)],
            "corpus:one-file-under-two-spellings",
        ),
    ];
    // the same diamond under a named-export config
    let mut c = v[0].clone();
    c.cfg = vec![("defaultExportForOperation".into(), json!(false)), ("fragmentVariableSuffix".into(), json!("Doc")), ("capitalizeOperationNames".into(), json!(false))];
    c.config_text = Some("extensions:\n  nitrogql:\n    generate:\n      export:\n        defaultExportForOperation: false\n      name:\n        fragmentVariableSuffix: Doc\n        capitalizeOperationNames: false\n".into());
    c.origin = "corpus:diamond-named-export".into();
    v.push(c);
    v
}

// ---------------------------------------------------------------------------------------- config (as in c14.rs)

const NAME_KEYS: &[&str] = &[
    "capitalizeOperationNames", "queryVariableSuffix", "mutationVariableSuffix", "subscriptionVariableSuffix", "fragmentVariableSuffix",
    "operationResultTypeSuffix", "variablesTypeSuffix", "fragmentTypeSuffix",
];
const EXPORT_KEYS: &[&str] = &["defaultExportForOperation", "operationResultType", "variablesType"];
const SUFFIX_POOL: &[&str] = &["", "", "Query", "Mutation", "Q", "Doc", "Fragment", "_", "$", "2", "Result", "X", "Op_Doc"];

/// c14.rs `random_cfg` (same keys; the suffix pool without the characters that are not identifier characters: the statement
/// reader of this stream reads names as tokens)
fn random_cfg(rng: &mut Rng) -> Vec<(String, Value)> {
    let mut cfg = vec![];
    if rng.chance(1, 3) {
        cfg.push(("mode".to_string(), json!(["with-loader-ts-5.0", "with-loader-ts-4.0", "standalone-ts-4.0"][rng.below(3)])));
    }
    for k in EXPORT_KEYS.iter().chain(["capitalizeOperationNames"].iter()) {
        if rng.coin() {
            cfg.push((k.to_string(), json!(rng.coin())));
        }
    }
    for k in &NAME_KEYS[1..] {
        if rng.chance(1, 3) {
            cfg.push((k.to_string(), json!(SUFFIX_POOL[rng.below(SUFFIX_POOL.len())])));
        }
    }
    cfg
}

fn yaml_scalar(v: &Value) -> String {
    match v {
        Value::Bool(b) => b.to_string(),
        Value::String(s) => serde_json::to_string(s).unwrap(),
        _ => "null".into(),
    }
}

/// the config TEXT for a set of present keys (block YAML or JSON)
fn render_config(cfg: &[(String, Value)], rng: &mut Rng) -> String {
    let mut name = serde_json::Map::new();
    let mut export = serde_json::Map::new();
    let mut generate = serde_json::Map::new();
    for (k, v) in cfg {
        if k == "mode" {
            generate.insert(k.clone(), v.clone());
        } else if NAME_KEYS.contains(&k.as_str()) {
            name.insert(k.clone(), v.clone());
        } else if EXPORT_KEYS.contains(&k.as_str()) {
            export.insert(k.clone(), v.clone());
        }
    }
    if !name.is_empty() {
        generate.insert("name".into(), Value::Object(name));
    }
    if !export.is_empty() {
        generate.insert("export".into(), Value::Object(export));
    }
    let root = json!({ "schema": "schema.graphql", "extensions": { "nitrogql": { "generate": Value::Object(generate) } } });
    if rng.coin() {
        return serde_json::to_string(&root).unwrap();
    }
    fn emit(v: &Value, indent: usize, out: &mut String) {
        if let Value::Object(m) = v {
            for (k, x) in m {
                out.push_str(&" ".repeat(indent));
                out.push_str(k);
                out.push(':');
                match x {
                    Value::Object(mm) if mm.is_empty() => out.push_str(" {}\n"),
                    Value::Object(_) => {
                        out.push('\n');
                        emit(x, indent + 2, out);
                    }
                    _ => {
                        out.push(' ');
                        out.push_str(&yaml_scalar(x));
                        out.push('\n');
                    }
                }
            }
        }
    }
    let mut out = String::new();
    emit(&root, 0, &mut out);
    out
}

// ---------------------------------------------------------------------------------------- reading a module (c14.rs)

#[derive(Clone, Debug, PartialEq)]
enum Tk {
    Ident,
    Str,
    Punct,
}
#[derive(Clone, Debug)]
struct Tok {
    kind: Tk,
    start: usize,
    end: usize,
}

fn tokenize(src: &str) -> Result<Vec<Tok>, String> {
    let b: Vec<(usize, char)> = src.char_indices().collect();
    let n = b.len();
    let pos = |i: usize| if i < n { b[i].0 } else { src.len() };
    let mut i = 0;
    let mut out = vec![];
    while i < n {
        let c = b[i].1;
        if c.is_whitespace() {
            i += 1;
        } else if c == '/' && i + 1 < n && b[i + 1].1 == '/' {
            while i < n && b[i].1 != '\n' {
                i += 1;
            }
        } else if c == '/' && i + 1 < n && b[i + 1].1 == '*' {
            i += 2;
            loop {
                if i + 1 >= n {
                    return Err("unterminated comment".into());
                }
                if b[i].1 == '*' && b[i + 1].1 == '/' {
                    i += 2;
                    break;
                }
                i += 1;
            }
        } else if c == '"' || c == '\'' || c == '`' {
            let st = i;
            i += 1;
            loop {
                if i >= n {
                    return Err("unterminated string".into());
                }
                if b[i].1 == '\\' {
                    i += 2;
                    continue;
                }
                if b[i].1 == c {
                    i += 1;
                    break;
                }
                i += 1;
            }
            out.push(Tok { kind: Tk::Str, start: pos(st), end: pos(i) });
        } else if c.is_alphanumeric() || c == '_' || c == '$' {
            let st = i;
            while i < n && (b[i].1.is_alphanumeric() || b[i].1 == '_' || b[i].1 == '$') {
                i += 1;
            }
            out.push(Tok { kind: Tk::Ident, start: pos(st), end: pos(i) });
        } else {
            out.push(Tok { kind: Tk::Punct, start: pos(i), end: pos(i + 1) });
            i += 1;
        }
    }
    Ok(out)
}

/// a module as this stream compares it: canonical statements and the JSON value of every constant, in order
struct Module {
    stmts: Vec<Sexp>,
    docs: Vec<Value>,
}

/// top-level statements of an emitted JavaScript module: `[export] const N = <object literal>;` and `export { L as default };`
fn read_module(src: &str) -> Result<Module, String> {
    let toks = tokenize(src)?;
    let text = |t: &Tok| &src[t.start..t.end];
    let mut depth = 0i32;
    let mut cur: Vec<(Tok, i32)> = vec![];
    let mut groups: Vec<Vec<(Tok, i32)>> = vec![];
    for t in toks {
        let s = text(&t).to_string();
        if t.kind == Tk::Punct && (s == "(" || s == "[" || s == "{") {
            cur.push((t, depth));
            depth += 1;
        } else if t.kind == Tk::Punct && (s == ")" || s == "]" || s == "}") {
            depth -= 1;
            cur.push((t, depth));
        } else if t.kind == Tk::Punct && s == ";" && depth == 0 {
            groups.push(std::mem::take(&mut cur));
        } else {
            cur.push((t, depth));
        }
    }
    if depth != 0 {
        return Err("unbalanced brackets".into());
    }
    if !cur.is_empty() {
        return Err(format!("trailing tokens without ';': {}", &src[cur[0].0.start..].chars().take(60).collect::<String>()));
    }
    let mut m = Module { stmts: vec![], docs: vec![] };
    for g in groups {
        if g.is_empty() {
            continue;
        }
        let is = |k: usize, w: &str| g.get(k).map(|(t, d)| *d == 0 && text(t) == w).unwrap_or(false);
        let stmt_text = &src[g[0].0.start..g[g.len() - 1].0.end];
        let short: String = stmt_text.chars().take(80).collect();
        let mut k = 0;
        let exported = is(k, "export");
        if exported {
            k += 1;
        }
        if exported && is(k, "{") {
            // export { L as default }   (the local name is empty for an anonymous operation with an empty suffix)
            let close = g.len() - 1;
            if text(&g[close].0) != "}" {
                return Err(format!("unrecognised export list: {short}"));
            }
            let item = &src[g[k].0.end..g[close].0.start];
            let parts: Vec<&str> = item.rsplitn(2, " as ").collect();
            match parts.as_slice() {
                [e, l] if e.trim() == "default" => m.stmts.push(Sexp::call("default", vec![Sexp::str(l.trim())])),
                [e, l] => m.stmts.push(Sexp::call("export-as", vec![Sexp::str(l.trim()), Sexp::str(e.trim())])),
                _ => return Err(format!("unrecognised export list: {short}")),
            }
            continue;
        }
        if is(k, "const") {
            // const NAME = { … }
            let Some(eq) = (k + 1..g.len()).find(|j| is(*j, "=")) else {
                return Err(format!("const without initialiser: {short}"));
            };
            let name = src[g[k].0.end..g[eq].0.start].trim().to_string();
            if !is(eq + 1, "{") {
                return Err(format!("initialiser is not an object literal: {short}"));
            }
            let lit = &src[g[eq + 1].0.start..g[g.len() - 1].0.end];
            let v: Value = serde_json::from_str(lit).map_err(|e| format!("initialiser of {name} is not JSON: {e}"))?;
            m.stmts.push(Sexp::call("const", vec![Sexp::str(name), Sexp::bool(exported)]));
            m.docs.push(v);
            continue;
        }
        return Err(format!("unrecognised statement: {short}"));
    }
    Ok(m)
}

// ---------------------------------------------------------------------------------------- JSON trees (c12.rs)

fn json_to_sexp(v: &Value) -> Sexp {
    match v {
        Value::Null => Sexp::call("null", vec![]),
        Value::Bool(b) => Sexp::call("bool", vec![Sexp::bool(*b)]),
        Value::Number(n) => Sexp::call("num", vec![Sexp::str(n.to_string())]),
        Value::String(s) => Sexp::call("str", vec![Sexp::str(s.as_str())]),
        Value::Array(a) => Sexp::call("arr", a.iter().map(json_to_sexp).collect()),
        Value::Object(m) => {
            let mut kv: Vec<(&String, &Value)> = m.iter().collect();
            kv.sort_by(|a, b| a.0.cmp(b.0));
            Sexp::call("obj", kv.into_iter().map(|(k, v)| Sexp::list(vec![Sexp::str(k.as_str()), json_to_sexp(v)])).collect())
        }
    }
}

/// sort the members of every object (member order is not part of the JSON data model)
fn canon_json(s: &Sexp) -> Sexp {
    match s {
        Sexp::List(v) if s.head() == Some("obj") => {
            let mut kv: Vec<Sexp> = v[1..]
                .iter()
                .map(|m| match m {
                    Sexp::List(p) if p.len() == 2 => Sexp::list(vec![p[0].clone(), canon_json(&p[1])]),
                    x => x.clone(),
                })
                .collect();
            kv.sort_by(|a, b| a.as_list().and_then(|l| l[0].as_str()).cmp(&b.as_list().and_then(|l| l[0].as_str())));
            Sexp::call("obj", kv)
        }
        Sexp::List(v) if s.head() == Some("arr") => Sexp::call("arr", v[1..].iter().map(canon_json).collect()),
        x => x.clone(),
    }
}

fn obj_members(s: &Sexp) -> BTreeMap<String, &Sexp> {
    let mut m = BTreeMap::new();
    for p in s.args() {
        if let Some(l) = p.as_list() {
            if let (Some(k), Some(v)) = (l.first().and_then(|k| k.as_str()), l.get(1)) {
                m.insert(k.to_string(), v);
            }
        }
    }
    m
}

fn kind_of(s: &Sexp) -> String {
    obj_members(s).get("kind").and_then(|k| k.args().first()).and_then(|k| k.as_str()).unwrap_or("?").to_string()
}

/// first difference between the model's and the code's JSON tree: (stable class, detail)
fn json_diff(model: &Sexp, real: &Sexp, ctx: &str) -> Option<(String, String)> {
    if model == real {
        return None;
    }
    match (model.head(), real.head()) {
        (Some("obj"), Some("obj")) => {
            let (mm, rm) = (obj_members(model), obj_members(real));
            let kind = kind_of(model);
            for k in mm.keys() {
                if !rm.contains_key(k) {
                    return Some((format!("{kind}.{k}:only-in-model"), format!("member {k} of {kind} is missing in the code's JSON")));
                }
            }
            for k in rm.keys() {
                if !mm.contains_key(k) {
                    return Some((format!("{}.{k}:only-in-code", kind_of(real)), format!("member {k} is missing in the model's JSON")));
                }
            }
            for (k, v) in &mm {
                if let Some(d) = json_diff(v, rm[k], &format!("{kind}.{k}")) {
                    return Some(d);
                }
            }
            None
        }
        (Some("arr"), Some("arr")) => {
            if model.args().len() != real.args().len() {
                return Some((format!("{ctx}:length"), format!("{ctx}: model has {} elements, code {}", model.args().len(), real.args().len())));
            }
            for (a, b) in model.args().iter().zip(real.args()) {
                if let Some(d) = json_diff(a, b, ctx) {
                    return Some(d);
                }
            }
            None
        }
        _ => Some((format!("{ctx}:value"), format!("{ctx}: model {} code {}", model.to_line(), real.to_line()))),
    }
}

/// names of the definitions of a document literal, e.g. `Q,Y,X1,X0`
fn doc_names(v: &Value) -> String {
    v["definitions"].as_array().map(|a| a.iter().map(|d| d["name"]["value"].as_str().unwrap_or("_").to_string()).collect::<Vec<_>>().join(",")).unwrap_or_else(|| "?".into())
}

// ---------------------------------------------------------------------------------------- comparison

/// a RESULT message in the model's vocabulary
fn classify_msg(msg: &str) -> Sexp {
    if msg == "Task not found" {
        return Sexp::atom("notfound");
    }
    if msg.starts_with("Parse error") {
        return Sexp::call("src", vec![Sexp::int(1)]);
    }
    if msg.starts_with("Wildcard import") {
        return Sexp::call("src", vec![Sexp::int(2)]);
    }
    if let Some(f) = msg.strip_prefix("File '").and_then(|r| r.strip_suffix("' not found.")) {
        return Sexp::call("imp", vec![Sexp::atom("notfound"), Sexp::str(f)]);
    }
    if let Some(r) = msg.strip_prefix('\'').and_then(|r| r.strip_suffix("'.")) {
        if let Some((n, f)) = r.split_once("' is not found in the imported file '") {
            return Sexp::call("imp", vec![Sexp::atom("nofrag"), Sexp::str(f), Sexp::str(n)]);
        }
    }
    if let Some(n) = msg.strip_prefix("Fragment '").and_then(|r| r.strip_suffix("' is not defined. It must be defined in this file or imported with #import.")) {
        return Sexp::call("undef", vec![Sexp::str(n)]);
    }
    Sexp::call("other", vec![Sexp::str(msg)])
}

fn err_kind(e: &Sexp) -> &'static str {
    match (e.as_atom(), e.head()) {
        (Some("notfound"), _) => "task-not-found",
        (_, Some("src")) => "source-error",
        (_, Some("imp")) if e.args().first().and_then(|x| x.as_atom()) == Some("notfound") => "file-not-found",
        (_, Some("imp")) => "fragment-not-found",
        (_, Some("undef")) => "fragment-not-defined",
        _ => "other-error",
    }
}

fn files_sexp(text: &str) -> Sexp {
    let mut v: Vec<&str> = text.split('\n').filter(|s| !s.is_empty()).collect();
    v.sort();
    Sexp::call("files", v.into_iter().map(Sexp::str).collect())
}

/// model `(js (stmts …) (docs …))` against the text of a real module
fn compare_module(m: &Sexp, text: &str) -> Option<(String, String)> {
    let real = match read_module(text) {
        Ok(r) => r,
        Err(e) => return Some(("unreadable-module".into(), format!("the emitted text is not a module this stream can read: {e}"))),
    };
    let a = m.args();
    let (Some(stmts), Some(docs)) = (a.first().filter(|x| x.head() == Some("stmts")), a.get(1).filter(|x| x.head() == Some("docs"))) else {
        return Some(("model-answer".into(), format!("model answered {}", m.to_line())));
    };
    // the model's statements in the vocabulary of `read_module`; a JavaScript constant is never ambient and always has a value
    let mut canon: Vec<Sexp> = vec![];
    let mut doc_of: Vec<usize> = vec![];
    for s in stmts.args() {
        let x = s.args();
        match s.head() {
            Some("const") if x.len() == 5 && x[3].as_atom() == Some("false") && x[4].as_atom() == Some("true") => {
                canon.push(Sexp::call("const", vec![x[0].clone(), x[2].clone()]));
                doc_of.push(x[1].as_int().unwrap_or(-1) as usize);
            }
            Some("default") => canon.push(s.clone()),
            _ => canon.push(Sexp::call("not-javascript", vec![s.clone()])),
        }
    }
    if canon != real.stmts {
        let show = |v: &[Sexp]| v.iter().map(|s| s.to_line()).collect::<Vec<_>>().join(" ");
        return Some(("statements".into(), format!("statements: model [{}] real [{}]", show(&canon), show(&real.stmts))));
    }
    for (k, v) in real.docs.iter().enumerate() {
        let Some(md) = docs.args().get(doc_of[k]) else {
            return Some(("model-answer".into(), format!("constant {k} refers to document {} of {}", doc_of[k], docs.args().len())));
        };
        let md = canon_json(md);
        let rd = json_to_sexp(v);
        if let Some((sig, detail)) = json_diff(&md, &rd, "Document") {
            let mnames = md.to_line();
            let _ = mnames;
            return Some((format!("document:{sig}"), format!("constant {k} ({}): {detail}; the real literal holds the definitions [{}]", real.stmts.iter().filter(|s| s.head() == Some("const")).nth(k).map(|s| s.to_line()).unwrap_or_default(), doc_names(v))));
        }
    }
    None
}

fn show_real(r: &RealResp) -> String {
    let s = r.to_json().to_string();
    if s.len() > 400 {
        let mut n = 400;
        while !s.is_char_boundary(n) {
            n -= 1;
        }
        format!("{}…", &s[..n])
    } else {
        s
    }
}

fn show_model(m: &Sexp) -> String {
    let s = m.to_line();
    if s.len() > 400 {
        let mut n = 400;
        while !s.is_char_boundary(n) {
            n -= 1;
        }
        format!("{}…", &s[..n])
    } else {
        s
    }
}

/// one call: None = model and code agree; Some((signature suffix, what))
fn judge_call(op: &COp, m: &Sexp, r: &RealResp) -> Option<(String, String)> {
    let generic = |exp: Sexp| -> Option<(String, String)> {
        if *m == exp {
            None
        } else {
            Some((format!("call:{}", op.kind()), format!("model {} real {}", show_model(m), show_real(r))))
        }
    };
    if let RealResp::Trap { why } = r {
        if let Some(kind) = super::alloc_kind(why) {
            return Some((format!("ALLOC:{kind}"), format!("allocator discipline violated (checking allocator of the worker): {why}")));
        }
    }
    if r.is_trap() {
        return if m.head() == Some("trap") { None } else { Some((format!("trap:{}", op.kind()), format!("the loader died ({}) where the model answers {}", show_real(r), show_model(m)))) };
    }
    match (op, r) {
        (COp::E(_), RealResp::JsText(text)) => match m.head() {
            Some("js") => compare_module(m, text),
            Some("failed") => {
                let k = m.args().first().map(err_kind).unwrap_or("?");
                Some((format!("outcome:model={k}:real=module"), format!("model {} but the loader emitted a module: {}", show_model(m), show_real(r))))
            }
            h => Some((format!("outcome:model={}:real=module", h.unwrap_or("other")), format!("model {} real {}", show_model(m), show_real(r)))),
        },
        (COp::E(_), RealResp::Fail(msg)) => {
            let real = classify_msg(msg);
            match m.head() {
                Some("failed") => {
                    let me = m.args().first().cloned().unwrap_or(Sexp::atom("?"));
                    if me == real {
                        None
                    } else if err_kind(&me) != err_kind(&real) {
                        Some((format!("outcome:model={}:real={}", err_kind(&me), err_kind(&real)), format!("model {} real {}", show_model(m), show_real(r))))
                    } else {
                        Some((format!("error-detail:{}", err_kind(&me)), format!("model {} real {}", show_model(m), show_real(r))))
                    }
                }
                Some("js") => Some((format!("outcome:model=module:real={}", err_kind(&real)), format!("the model emits a module ({}) but the loader answers {}", show_model(m), show_real(r)))),
                h => Some((format!("outcome:model={}:real={}", h.unwrap_or("other"), err_kind(&real)), format!("model {} real {}", show_model(m), show_real(r)))),
            }
        }
        (COp::G, RealResp::ResText(text)) => {
            let x = if m.head() == Some("result") { m.args().first() } else { None };
            match x.and_then(|x| x.head()) {
                Some("msg") => {
                    let exp = Sexp::call("result", vec![Sexp::call("msg", vec![classify_msg(text)])]);
                    generic(exp)
                }
                Some("files") => generic(Sexp::call("result", vec![files_sexp(text)])),
                Some("js") => compare_module(x.unwrap(), text).map(|(s, w)| (format!("result:{s}"), w)),
                _ => Some(("call:result".into(), format!("model {} real {}", show_model(m), show_real(r)))),
            }
        }
        (_, RealResp::Id(n)) => generic(Sexp::call("id", vec![Sexp::int(*n as i128)])),
        (_, RealResp::Fail(msg)) => generic(Sexp::call("failed", vec![classify_msg(msg)])),
        (_, RealResp::Files(t)) => generic(files_sexp(t)),
        (_, RealResp::Ok) => generic(Sexp::call("loaded", vec![])),
        (_, RealResp::Freed) => generic(Sexp::call("freed", vec![])),
        _ => Some((format!("call:{}", op.kind()), format!("model {} real {}", show_model(m), show_real(r)))),
    }
}

// ---------------------------------------------------------------------------------------- running

/// a history in the worker's (global) tables
struct Line {
    text: String,
    n: usize,
}
impl HistLine for Line {
    fn line(&self) -> String {
        self.text.clone()
    }
    fn n_calls(&self) -> usize {
        self.n
    }
}

#[derive(Clone, Debug)]
pub struct Finding {
    pub sig: String,
    pub what: String,
    pub at: usize,
}

pub struct Outcome {
    pub finding: Option<Finding>,
    /// per call: what kind of answer the model gave (for the distribution)
    pub kinds: Vec<String>,
    pub calls: u64,
}

fn source_entry(src: &str) -> Sexp {
    match nitrogql_parser::parse_operation_document(src) {
        Ok(d) => gm::from_real_doc_ext(&d).to_sexp(),
        Err(_) => Sexp::call("err", vec![Sexp::int(1)]),
    }
}

fn cfg_sexp(cfg: &[(String, Value)]) -> Sexp {
    let mut ks = vec![];
    for (k, v) in cfg {
        let val = match v {
            Value::Bool(b) => Sexp::bool(*b),
            Value::String(s) => Sexp::str(s.as_str()),
            _ => Sexp::atom("bad"),
        };
        ks.push(Sexp::list(vec![Sexp::atom(k.as_str()), val]));
    }
    Sexp::call("cfg", ks)
}

fn op_sexp(c: &Case, op: &COp) -> Sexp {
    match *op {
        COp::I(p, s) => Sexp::call("init", vec![Sexp::str(c.paths[p].as_str()), Sexp::int(s as i128)]),
        COp::R(t) => Sexp::call("req", vec![Sexp::int(t as i128)]),
        COp::L(t, p, s) => Sexp::call("load", vec![Sexp::int(t as i128), Sexp::str(c.paths[p].as_str()), Sexp::int(s as i128)]),
        COp::E(t) => Sexp::call("emit", vec![Sexp::int(t as i128)]),
        COp::F(t) => Sexp::call("free", vec![Sexp::int(t as i128)]),
        COp::G => Sexp::call("res", vec![]),
    }
}

/// model and code on every case; cases that share config / paths / sources are sent to the driver as one request
pub fn evaluate(drv: &mut Driver, exe: &PathBuf, cases: &[Case]) -> Vec<Outcome> {
    if cases.is_empty() {
        return vec![];
    }
    // --- global tables for the worker
    let mut pool: Vec<String> = vec![];
    let mut paths: Vec<String> = vec![];
    let mut lines: Vec<Line> = vec![];
    // --- requests: consecutive cases over the same project share one request
    let mut reqs: Vec<Sexp> = vec![];
    let mut req_of: Vec<(usize, usize)> = vec![]; // case → (request, index of its history)
    let mut prev: Option<usize> = None;
    for (i, c) in cases.iter().enumerate() {
        let same = prev.map(|j| {
            let d = &cases[j];
            d.cfg == c.cfg && d.config_text == c.config_text && d.paths == c.paths && d.sources == c.sources
        }).unwrap_or(false);
        let (pb, sb, cfg_at) = if same {
            let d = &cases[prev.unwrap()];
            (paths.len() - d.paths.len(), pool.len() - d.sources.len() - 1, pool.len() - 1)
        } else {
            let pb = paths.len();
            let sb = pool.len();
            paths.extend(c.paths.iter().cloned());
            pool.extend(c.sources.iter().cloned());
            pool.push(c.config_text.clone().unwrap_or_default());
            (pb, sb, pool.len() - 1)
        };
        let mut ops: Vec<Value> = vec![];
        if c.config_text.is_some() {
            ops.push(json!(["C", cfg_at]));
        }
        for op in &c.ops {
            ops.push(match *op {
                COp::I(p, s) => json!(["I", pb + p, sb + s]),
                COp::R(t) => json!(["R", t]),
                COp::L(t, p, s) => json!(["L", t, pb + p, sb + s]),
                COp::E(t) => json!(["X", t]),
                COp::F(t) => json!(["F", t]),
                COp::G => json!(["Y"]),
            });
        }
        lines.push(Line { n: ops.len(), text: Value::Array(ops).to_string() });
        let hist = Sexp::call("ops", c.ops.iter().map(|o| op_sexp(c, o)).collect());
        if same {
            let rq = reqs.len() - 1;
            let r = reqs.last_mut().unwrap();
            if let Sexp::List(items) = r {
                if let Some(Sexp::List(hs)) = items.last_mut() {
                    hs.push(hist);
                    req_of.push((rq, hs.len() - 2));
                }
            }
        } else {
            let mut items = vec![];
            // self-test only: C19_CONCRETE_MUTANT=k asks the driver for a deliberately wrong variant of the emitter
            if let Some(k) = std::env::var("C19_CONCRETE_MUTANT").ok().and_then(|k| k.parse::<i128>().ok()) {
                items.push(Sexp::call("mutant", vec![Sexp::int(k)]));
            }
            items.extend(vec![
                cfg_sexp(&c.cfg),
                Sexp::call("pool", c.sources.iter().map(|s| source_entry(s)).collect()),
                Sexp::call("hists", vec![hist]),
            ]);
            reqs.push(Sexp::call("concrete", items));
            req_of.push((reqs.len() - 1, 0));
        }
        prev = Some(i);
    }
    let header = json!({ "pool": pool, "paths": paths }).to_string();
    let n_workers = if lines.len() < 64 { 1 } else { std::thread::available_parallelism().map(|n| n.get()).unwrap_or(1).min(4) };
    let mut wp = WorkerPool::new(Cfg { exe: exe.clone(), header }, n_workers);
    let tm = std::time::Instant::now();
    let (model, real) = std::thread::scope(|s| {
        let m = s.spawn(|| {
            let a = drv.batch(&reqs);
            (a, tm.elapsed().as_secs_f64())
        });
        let r = wp.run_histories(&lines);
        let tr = tm.elapsed().as_secs_f64();
        let (a, tmod) = m.join().expect("driver thread");
        if std::env::var("C19_CONCRETE_TIMES").is_ok() {
            eprintln!("concrete: {} histories, model {tmod:.2}s real {tr:.2}s", lines.len());
        }
        (a, r)
    });
    wp.shutdown();
    let dead = RealResp::Dead;
    let mut out = vec![];
    for (i, c) in cases.iter().enumerate() {
        let (rq, hi) = req_of[i];
        let ans = model[rq].args().get(hi).filter(|_| model[rq].head() == Some("ok"));
        let margs: &[Sexp] = match ans {
            Some(a) if a.head() == Some("ok") => a.args(),
            _ => &[],
        };
        let mut o = Outcome { finding: None, kinds: vec![], calls: 0 };
        if margs.len() != c.ops.len() {
            o.finding = Some(Finding { sig: "model-answer".into(), what: format!("the driver answered {} to [{}]", show_model(&model[rq]), c.hist_text()), at: c.ops.len().saturating_sub(1) });
            out.push(o);
            continue;
        }
        let mut reals: &[RealResp] = &real[i];
        if c.config_text.is_some() {
            match reals.first() {
                Some(RealResp::Cfg(true)) => {}
                x => {
                    o.finding = Some(Finding { sig: "load-config".into(), what: format!("load_config answered {:?} for the text {:?}", x.map(show_real), c.config_text), at: 0 });
                    out.push(o);
                    continue;
                }
            }
            reals = &reals[1..];
        }
        for (k, op) in c.ops.iter().enumerate() {
            let r = reals.get(k).unwrap_or(&dead);
            o.calls += 1;
            if std::env::var("C19_CONCRETE_DEBUG").is_ok() {
                eprintln!("--- call {k} `{}`\n    model {}\n    real  {}", op.text(), margs[k].to_line(), r.to_json());
            }
            o.kinds.push(match (op, margs[k].head()) {
                (COp::E(_), Some("js")) => "emit:module".to_string(),
                (COp::E(_), Some("failed")) => format!("emit:{}", margs[k].args().first().map(err_kind).unwrap_or("?")),
                (COp::E(_), _) => "emit:other".to_string(),
                (COp::G, _) => "result".to_string(),
                _ => format!("call:{}", op.kind()),
            });
            if let Some((sig, what)) = judge_call(op, &margs[k], r) {
                o.finding = Some(Finding { sig, what: format!("call {k} `{}` of [{}] ({}): {what}", op.text(), c.hist_text(), c.origin), at: k });
                break;
            }
        }
        if o.finding.is_none() {
            match real[i].last() {
                Some(RealResp::Leak(desc)) => {
                    o.finding = Some(Finding { sig: "ALLOC:leak".into(), what: format!("after [{}] ({}) and the end of its loader instance, blocks it allocated are still live: {desc}", c.hist_text(), c.origin), at: c.ops.len().saturating_sub(1) });
                }
                Some(RealResp::Trap { why }) if real[i].len() > c.ops.len() + c.config_text.is_some() as usize => {
                    let sig = super::alloc_kind(why).map(|k| format!("ALLOC:{k}")).unwrap_or_else(|| "trap:thread-exit".into());
                    o.finding = Some(Finding { sig, what: format!("after [{}] ({}) (the instance's thread exits): {why}", c.hist_text(), c.origin), at: c.ops.len().saturating_sub(1) });
                }
                _ => {}
            }
        }
        out.push(o);
    }
    out
}

fn shrink(drv: &mut Driver, exe: &PathBuf, case: &Case, f: &Finding) -> (Case, String) {
    let mut cur = case.clone();
    let mut what = f.what.clone();
    let mut budget = 24;
    let mut still = |c: &Case, budget: &mut i32| -> Option<String> {
        *budget -= 1;
        evaluate(drv, exe, std::slice::from_ref(c)).pop().and_then(|o| o.finding).filter(|g| g.sig == f.sig).map(|g| g.what)
    };
    if f.at + 1 < cur.ops.len() {
        let mut cand = cur.clone();
        cand.ops.truncate(f.at + 1);
        if let Some(w) = still(&cand, &mut budget) {
            cur = cand;
            what = w;
        }
    }
    let mut i = 0;
    while cur.ops.len() > 1 && i < cur.ops.len() && budget > 0 {
        let mut cand = cur.clone();
        cand.ops.remove(i);
        match still(&cand, &mut budget) {
            Some(w) => {
                cur = cand;
                what = w;
            }
            None => i += 1,
        }
    }
    (cur, what)
}

fn record(rep: &mut Report, drv: &mut Driver, exe: &PathBuf, cases: &[Case], outs: &[Outcome], do_shrink: bool) {
    for (c, o) in cases.iter().zip(outs) {
        rep.k_cases += o.calls;
        rep.count_n("concrete:calls", o.calls);
        for k in &o.kinds {
            if k.starts_with("emit:") {
                rep.count(&format!("concrete:{k}"));
            }
        }
        if let Some(f) = &o.finding {
            // allocator discipline is the property on the real code (O), everything else model vs code (K)
            let (stream, sig) = match f.sig.strip_prefix("ALLOC:") {
                Some(kind) => ("O", format!("alloc:{kind}")),
                None => ("K", format!("emit-concrete:{}", f.sig)),
            };
            let seen = rep.failures.iter().any(|x| x.stream == stream && x.signature == sig);
            if seen || !do_shrink {
                rep.fail(stream, &sig, &f.what, c.to_json());
            } else {
                let (small, what) = shrink(drv, exe, c, f);
                let what = if small.ops.len() < c.ops.len() { format!("{what} (shrunk from [{}])", c.hist_text()) } else { what };
                rep.fail(stream, &sig, &what, small.to_json());
            }
        }
    }
}

/// Inputs OUTSIDE the domain the generator draws from, on which the composed model is known (or suspected) to differ from the
/// code for reasons that are not the composition's subject. They are run and their outcome is written into the report
/// (`extra.concrete_probes`), never as a failure.
fn probes() -> Vec<(&'static str, Case)> {
    let mk = |paths: &[&str], sources: &[&str], ops: Vec<COp>| Case {
        cfg: vec![],
        config_text: None,
        paths: paths.iter().map(|s| s.to_string()).collect(),
        sources: sources.iter().map(|s| s.to_string()).collect(),
        ops,
        origin: "probe".into(),
    };
    // the two probes of the first version (`unnormalised-root-name`, `dot-segment-in-a-loaded-file-name`) are corpus cases now
    let _ = &mk;
    vec![
    ]
}

/// the stream: corpus, then generated projects × histories
pub fn run(rep: &mut Report, drv: &mut Driver, exe: &PathBuf, rng: &mut Rng, thorough: bool) {
    let t0 = std::time::Instant::now();
    let mut cases = corpus();
    for c in &cases {
        rep.count(&format!("concrete:hist:{}", c.origin));
    }
    let n_projects = if thorough { 1500 } else { 120 };
    let mut sampled = 0;
    for _ in 0..n_projects {
        let p = random_project(rng);
        for f in &p.features {
            rep.count(&format!("concrete:feature:{f}"));
        }
        for (ops, kind) in histories(rng, &p) {
            rep.count(&format!("concrete:hist:{kind}"));
            cases.push(Case { cfg: p.cfg.clone(), config_text: p.config_text.clone(), paths: p.paths.clone(), sources: p.sources.clone(), ops, origin: kind.into() });
        }
    }
    for chunk in cases.chunks(2000) {
        let outs = evaluate(drv, exe, chunk);
        rep.evaluations += chunk.len() as u64;
        record(rep, drv, exe, chunk, &outs, true);
        for (c, o) in chunk.iter().zip(&outs) {
            if sampled < 2 && c.origin == "protocol" && c.paths.len() >= 3 && o.kinds.iter().any(|k| k == "emit:module") {
                sampled += 1;
                rep.extra.insert(format!("concrete_sample_{sampled}"), json!({ "case": c.to_json(), "model_answer_kinds": o.kinds }));
            }
        }
    }
    let ps = probes();
    let pcases: Vec<Case> = ps.iter().map(|(_, c)| c.clone()).collect();
    let pouts = evaluate(drv, exe, &pcases);
    let mut pj = serde_json::Map::new();
    for ((name, c), o) in ps.iter().zip(&pouts) {
        pj.insert(name.to_string(), match &o.finding {
            None => json!({ "outcome": "model and code agree", "case": c.to_json() }),
            Some(f) => json!({ "outcome": format!("model and code differ: emit-concrete:{}", f.sig), "what": f.what.chars().take(600).collect::<String>(), "case": c.to_json() }),
        });
    }
    rep.extra.insert("concrete_probes".into(), Value::Object(pj));
    rep.extra.insert("concrete_projects".into(), json!(n_projects));
    rep.extra.insert("concrete_histories".into(), json!(cases.len()));
    rep.extra.insert("concrete_seconds".into(), json!(t0.elapsed().as_secs_f64()));
    rep.notes.push("Stream emit-concrete (K): the CONCRETE emitter model of Lemmas/LoaderComposed.lean (`emitFiles` = C13 import resolver → findUndefined → C14 statements + C12 literals, run inside `Loader.step`) against the real emit_js over generated multi-file projects: per emit call the error kind + name / literal, or the ordered export/const statements and the JSON document of every constant. `load_config` precedes the first call when the case has a config text.".into());
}

pub fn replay(rep: &mut Report, drv: &mut Driver, exe: &PathBuf, case: &Case) {
    let outs = evaluate(drv, exe, std::slice::from_ref(case));
    record(rep, drv, exe, std::slice::from_ref(case), &outs, false);
    rep.evaluations += 1;
}
