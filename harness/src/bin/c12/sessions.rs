//! Interleaved loader sessions for C12 (the idea of c14/session.rs, without configuration handling): several module
//! builds share ONE loader instance, the way a bundler drives `packages/graphql-loader` — a build is suspended at every
//! `await readFile(..)` of an `#import`-ed file while other builds start, continue, finish and are freed. The C12
//! property is per module: whatever the other builds do, the module returned for THE TASK ID OF A BUILD must embed, per
//! definition of that build's source, the definition followed by exactly its transitive fragment closure.
//!
//! `c12 --session-worker` (child process): a panic inside an `extern "C"` function aborts the process, so the real ABI
//! is driven in a child; the loader's state is thread-local, so one fresh thread = one fresh loader instance.
//!
//! Protocol (one JSON line each way):
//!   request  `{"builds":[{"path","text","files":[[path,text]…]}…], "sessions":[{"schedule":[k…], "abandon":[null|n…]}…]}`
//!   answer   one line per session, flushed: `{"out":[["js",text]|["err",msg]|["abandoned"]|["="]…], "live_max":n, "trace":[…]}`;
//!            `["="]` = identical to the same build's result in session 0 (by convention the one-at-a-time session:
//!            empty schedule). The trace is only sent when something differs.
//!   a line `p {"call","msg"}` is written by the panic hook before the process aborts: the ABI call that was running.
//! A schedule item `k` = "perform the next ABI call of build k"; the per-build call sequence is the one of loader-core:
//! initiate_task, get_required_files, load_file per required file, get_required_files …, emit_js, free_task. Each build
//! is served ONLY from its own file list. When the schedule is exhausted the remaining builds are completed one after
//! the other. `abandon[k] = n`: build k is given up after n calls (`free_task` without `emit_js`).
use nvh::Rng;
use serde_json::{json, Value};
use std::io::{BufRead, BufReader, Write};
use std::process::{Child, ChildStdin, ChildStdout, Command, Stdio};

// ------------------------------------------------------------------------------------------------ worker side

const CALLS: [&str; 6] = ["(no ABI call)", "initiate_task", "get_required_files", "load_file", "emit_js", "free_task"];
static CURRENT: std::sync::atomic::AtomicUsize = std::sync::atomic::AtomicUsize::new(0);

fn mark(call: &str) {
    CURRENT.store(CALLS.iter().position(|c| *c == call).unwrap_or(0), std::sync::atomic::Ordering::Relaxed);
}

#[derive(Clone, Debug, PartialEq)]
enum Out {
    Js(String),
    Err(String),
    Abandoned,
}

#[derive(PartialEq)]
enum Phase {
    NotStarted,
    NeedStatus,
    Pending,
    Ready,
    Emitted,
    Done,
}

struct Build {
    path: String,
    text: String,
    files: Vec<(String, String)>,
}

struct TaskState {
    phase: Phase,
    id: usize,
    pending: Vec<String>,
    calls: usize,
    rounds: usize,
    out: Option<Out>,
}

struct Session<'a> {
    builds: &'a [Build],
    abandon: Vec<Option<usize>>,
    st: Vec<TaskState>,
    trace: Vec<String>,
    live: usize,
    live_max: usize,
}

fn short(s: &str) -> String {
    let mut n = s.len().min(120);
    while !s.is_char_boundary(n) {
        n -= 1;
    }
    s[..n].to_string()
}

impl<'a> Session<'a> {
    fn finish(&mut self, k: usize, out: Out) {
        self.st[k].out = Some(out);
        self.st[k].phase = Phase::Done;
    }
    fn step(&mut self, k: usize) {
        if k >= self.st.len() || self.st[k].phase == Phase::Done {
            return;
        }
        let id = self.st[k].id;
        if let Some(n) = self.abandon.get(k).copied().flatten() {
            if self.st[k].calls >= n && self.st[k].phase != Phase::NotStarted && self.st[k].phase != Phase::Emitted {
                mark("free_task");
                loader_native::free_task(id);
                mark("");
                self.trace.push(format!("b{k}: free_task({id}) [build given up]"));
                self.live -= 1;
                self.finish(k, Out::Abandoned);
                return;
            }
        }
        self.st[k].calls += 1;
        match self.st[k].phase {
            Phase::NotStarted => {
                let b = &self.builds[k];
                mark("initiate_task");
                let id = super::abi_call_str(&b.path, |fp, fl| super::abi_call_str(&b.text, |sp, sl| loader_native::initiate_task(fp, fl, sp, sl)));
                mark("");
                if id == 0 {
                    let e = super::abi_result();
                    self.trace.push(format!("b{k}: initiate_task({}) -> 0 ({})", b.path, short(&e)));
                    self.finish(k, Out::Err(format!("initiate_task failed: {e}")));
                } else {
                    self.trace.push(format!("b{k}: initiate_task({}) -> {id}", b.path));
                    self.st[k].id = id;
                    self.st[k].phase = Phase::NeedStatus;
                    self.live += 1;
                    self.live_max = self.live_max.max(self.live);
                }
            }
            Phase::NeedStatus => {
                self.st[k].rounds += 1;
                if self.st[k].rounds > 16 {
                    self.finish(k, Out::Err("too many rounds of required files".into()));
                    return;
                }
                mark("get_required_files");
                let ok = loader_native::get_required_files(id);
                mark("");
                if !ok {
                    let e = super::abi_result();
                    self.trace.push(format!("b{k}: get_required_files({id}) -> false ({})", short(&e)));
                    // loader-core: the error propagates, the task is never freed
                    self.finish(k, Out::Err(format!("get_required_files failed: {e}")));
                    return;
                }
                let mut req: Vec<String> = super::abi_result().split('\n').filter(|s| !s.is_empty()).map(|s| s.to_string()).collect();
                self.trace.push(format!("b{k}: get_required_files({id}) -> {req:?}"));
                if req.is_empty() {
                    self.st[k].phase = Phase::Ready;
                } else {
                    req.reverse(); // `pending` is consumed from the back
                    self.st[k].pending = req;
                    self.st[k].phase = Phase::Pending;
                }
            }
            Phase::Pending => {
                let Some(path) = self.st[k].pending.pop() else {
                    self.st[k].phase = Phase::NeedStatus;
                    return;
                };
                match self.builds[k].files.iter().find(|(p, _)| *p == path) {
                    Some((_, text)) => {
                        mark("load_file");
                        let ok = super::abi_call_str(&path, |fp, fl| super::abi_call_str(text, |sp, sl| loader_native::load_file(id, fp, fl, sp, sl)));
                        mark("");
                        if !ok {
                            let e = super::abi_result();
                            self.trace.push(format!("b{k}: load_file({id}, {path}) -> false ({})", short(&e)));
                            self.finish(k, Out::Err(format!("load_file failed: {e}")));
                            return;
                        }
                        self.trace.push(format!("b{k}: load_file({id}, {path}) -> true"));
                    }
                    None => {
                        // readFile rejects: the build fails, the task is never freed
                        self.trace.push(format!("b{k}: the loader requires {path}, which this build does not have"));
                        self.finish(k, Out::Err(format!("the loader requires a file this build does not have: {path}")));
                        return;
                    }
                }
                if self.st[k].pending.is_empty() {
                    self.st[k].phase = Phase::NeedStatus;
                }
            }
            Phase::Ready => {
                mark("emit_js");
                let ok = loader_native::emit_js(id);
                mark("");
                if ok {
                    let js = super::abi_result();
                    self.trace.push(format!("b{k}: emit_js({id}) -> true ({} bytes)", js.len()));
                    self.st[k].out = Some(Out::Js(js));
                    self.st[k].phase = Phase::Emitted;
                } else {
                    let e = super::abi_result();
                    self.trace.push(format!("b{k}: emit_js({id}) -> false ({})", short(&e)));
                    self.finish(k, Out::Err(format!("emit_js failed: {e}")));
                }
            }
            Phase::Emitted => {
                mark("free_task");
                loader_native::free_task(id);
                mark("");
                self.trace.push(format!("b{k}: free_task({id})"));
                self.live -= 1;
                self.st[k].phase = Phase::Done;
            }
            Phase::Done => {}
        }
    }
}

fn run_session(builds: &[Build], spec: &Value) -> (Vec<Out>, usize, Vec<String>) {
    let abandon: Vec<Option<usize>> = spec["abandon"].as_array().map(|a| a.iter().map(|x| x.as_u64().map(|n| n as usize)).collect()).unwrap_or_default();
    let mut s = Session {
        builds,
        abandon,
        st: builds.iter().map(|_| TaskState { phase: Phase::NotStarted, id: 0, pending: vec![], calls: 0, rounds: 0, out: None }).collect(),
        trace: vec![],
        live: 0,
        live_max: 0,
    };
    for item in spec["schedule"].as_array().cloned().unwrap_or_default() {
        if let Some(k) = item.as_u64() {
            s.step(k as usize);
        }
    }
    for k in 0..builds.len() {
        for _ in 0..200 {
            if s.st[k].phase == Phase::Done {
                break;
            }
            s.step(k);
        }
    }
    (s.st.iter_mut().map(|t| t.out.take().unwrap_or(Out::Err("the build did not finish".into()))).collect(), s.live_max, s.trace)
}

pub fn worker_main() {
    loader_native::init(0);
    std::panic::set_hook(Box::new(|info| {
        let call = CALLS[CURRENT.load(std::sync::atomic::Ordering::Relaxed).min(CALLS.len() - 1)];
        let mut o = std::io::stdout().lock();
        let _ = writeln!(o, "p {}", json!({"call": call, "msg": info.to_string()}));
        let _ = o.flush();
    }));
    let stdin = std::io::stdin();
    let stdout = std::io::stdout();
    for line in stdin.lock().lines() {
        let Ok(line) = line else { break };
        if line.trim().is_empty() {
            continue;
        }
        let req: Value = match serde_json::from_str(&line) {
            Ok(v) => v,
            Err(_) => break,
        };
        let s = |v: &Value| v.as_str().unwrap_or("").to_string();
        let builds: Vec<Build> = req["builds"]
            .as_array()
            .map(|a| {
                a.iter()
                    .map(|b| Build {
                        path: s(&b["path"]),
                        text: s(&b["text"]),
                        files: b["files"].as_array().map(|f| f.iter().map(|p| (s(&p[0]), s(&p[1]))).collect()).unwrap_or_default(),
                    })
                    .collect()
            })
            .unwrap_or_default();
        let mut first: Option<Vec<Out>> = None;
        for spec in req["sessions"].as_array().cloned().unwrap_or_default() {
            // fresh thread = fresh thread-locals = fresh loader instance
            let r = std::thread::scope(|sc| {
                std::thread::Builder::new().stack_size(8 << 20).spawn_scoped(sc, || run_session(&builds, &spec)).expect("spawn session thread").join()
            });
            let answer = match r {
                Ok((out, live_max, trace)) => {
                    let differs = first.as_ref().map(|f| *f != out).unwrap_or(false);
                    let outs: Vec<Value> = out
                        .iter()
                        .enumerate()
                        .map(|(k, o)| match (o, first.as_ref().map(|f| &f[k])) {
                            (Out::Abandoned, _) => json!(["abandoned"]),
                            (o, Some(f)) if o == f => json!(["="]),
                            (Out::Js(t), _) => json!(["js", t]),
                            (Out::Err(e), _) => json!(["err", e]),
                        })
                        .collect();
                    let trace = if differs { json!(trace) } else { json!([]) };
                    if first.is_none() {
                        first = Some(out);
                    }
                    json!({"out": outs, "live_max": live_max, "trace": trace})
                }
                Err(_) => json!({"panic": true}),
            };
            let mut o = stdout.lock();
            let _ = writeln!(o, "{answer}");
            let _ = o.flush();
        }
    }
}

// ------------------------------------------------------------------------------------------------ parent side

pub struct Client {
    exe: std::path::PathBuf,
    proc: Option<(Child, ChildStdin, BufReader<ChildStdout>)>,
    pub spawned: u64,
    pub deaths: u64,
}

#[derive(Clone, Debug)]
pub struct Death {
    /// how the process ended (+ the panic message, when the panic hook could still write it)
    pub why: String,
    /// the ABI call that was running
    pub call: String,
}

pub enum Answer {
    Ok(Value),
    /// the worker process died while executing this session (abort inside the loader)
    Died(Death),
}

impl Client {
    pub fn new() -> Client {
        Client { exe: std::env::current_exe().expect("current exe"), proc: None, spawned: 0, deaths: 0 }
    }
    fn ensure(&mut self) {
        if self.proc.is_none() {
            let mut child = Command::new(&self.exe).arg("--session-worker").stdin(Stdio::piped()).stdout(Stdio::piped()).stderr(Stdio::null()).spawn().expect("spawn session worker");
            let stdin = child.stdin.take().unwrap();
            let stdout = BufReader::with_capacity(1 << 16, child.stdout.take().unwrap());
            self.proc = Some((child, stdin, stdout));
            self.spawned += 1;
        }
    }
    fn reap(&mut self) -> String {
        self.deaths += 1;
        match self.proc.take() {
            Some((mut child, stdin, _)) => {
                drop(stdin);
                let _ = child.kill();
                match child.wait() {
                    Ok(st) => {
                        use std::os::unix::process::ExitStatusExt;
                        match (st.signal(), st.code()) {
                            (Some(6), _) => "killed by SIGABRT".to_string(),
                            (Some(11), _) => "killed by SIGSEGV".to_string(),
                            (Some(s), _) => format!("killed by signal {s}"),
                            (None, Some(c)) => format!("exit code {c}"),
                            _ => "unknown exit status".to_string(),
                        }
                    }
                    Err(e) => format!("wait failed: {e}"),
                }
            }
            None => "no worker".to_string(),
        }
    }
    /// send one request that is answered by `n` lines; the answers received and, if the worker died before the n-th
    /// answer, how it died (the session that killed it is the first unanswered one)
    fn exchange(&mut self, req: &Value, n: usize) -> (Vec<Value>, Option<Death>) {
        self.ensure();
        let line = format!("{}\n", serde_json::to_string(req).unwrap());
        let mut answers = vec![];
        let mut panic_note: Option<(String, String)> = None;
        let (_, stdin, stdout) = self.proc.as_mut().unwrap();
        let dead = std::thread::scope(|sc| {
            // the writer must not block the reader: a large request is written from a thread
            let w = sc.spawn(move || {
                let _ = stdin.write_all(line.as_bytes());
                let _ = stdin.flush();
            });
            let mut dead = false;
            while answers.len() < n {
                let mut text = String::new();
                if stdout.read_line(&mut text).unwrap_or(0) == 0 {
                    dead = true;
                    break;
                }
                if let Some(rest) = text.strip_prefix("p ") {
                    if let Ok(v) = serde_json::from_str::<Value>(rest) {
                        if panic_note.is_none() {
                            panic_note = Some((v["call"].as_str().unwrap_or("").to_string(), v["msg"].as_str().unwrap_or("").to_string()));
                        }
                    }
                    continue;
                }
                answers.push(serde_json::from_str(&text).unwrap_or(Value::Null));
            }
            let _ = w.join();
            dead
        });
        if !dead {
            return (answers, None);
        }
        let status = self.reap();
        let death = match panic_note {
            Some((call, msg)) => Death { why: format!("{status} after a panic inside `{call}` (a panic in an extern \"C\" function cannot unwind): {}", msg.replace('\n', " ")), call },
            None => Death { why: status, call: "unknown-call".into() },
        };
        (answers, Some(death))
    }

    /// run the sessions of one request; the answers are in session order. After a death the remaining sessions are
    /// re-submitted to a fresh worker (session 0 is prepended again so that `["="]` keeps its meaning).
    pub fn run(&mut self, builds: &Value, sessions: &[Value]) -> Vec<Answer> {
        let mut answers: Vec<Answer> = vec![];
        while answers.len() < sessions.len() {
            let done = answers.len();
            let mut batch: Vec<Value> = vec![];
            if done > 0 {
                batch.push(sessions[0].clone());
            }
            batch.extend(sessions[done..].iter().cloned());
            let skip = if done > 0 { 1 } else { 0 };
            let req = json!({"builds": builds, "sessions": batch});
            let (got, death) = self.exchange(&req, batch.len());
            let ngot = got.len();
            for v in got.into_iter().skip(skip) {
                answers.push(Answer::Ok(v));
            }
            if let Some(d) = death {
                if ngot >= skip {
                    answers.push(Answer::Died(d));
                } else {
                    // the one-at-a-time session itself kills the worker: nothing to compare with
                    while answers.len() < sessions.len() {
                        answers.push(Answer::Died(Death { why: format!("{} (already in the one-at-a-time session)", d.why), call: d.call.clone() }));
                    }
                }
            }
        }
        answers
    }
}

impl Drop for Client {
    fn drop(&mut self) {
        if let Some((mut child, stdin, _)) = self.proc.take() {
            drop(stdin);
            let _ = child.wait();
        }
    }
}

// ------------------------------------------------------------------------------------------------ schedules

fn shuffle<T>(rng: &mut Rng, v: &mut [T]) {
    for i in (1..v.len()).rev() {
        v.swap(i, rng.below(i + 1));
    }
}

/// a schedule over builds with the given (estimated) numbers of ABI calls, and the `abandon` vector.
/// Shapes: uniform interleaving; all builds started, then random progress; a pipeline with bounded concurrency (a new
/// build starts whenever one is freed — what a bundler with a parallelism limit does, and what makes the order of frees
/// differ from the order of starts); builds completed in a random order after all were started. Sometimes one build is
/// given up early (`free_task` without `emit_js`).
pub fn gen_schedule(rng: &mut Rng, calls: &[usize]) -> (Value, String) {
    let n = calls.len();
    let mut sched: Vec<usize> = vec![];
    let shape = rng.below(5);
    let label = match shape {
        0 => {
            for (k, c) in calls.iter().enumerate() {
                sched.extend(std::iter::repeat(k).take(*c));
            }
            shuffle(rng, &mut sched);
            "uniform"
        }
        1 => {
            let mut order: Vec<usize> = (0..n).collect();
            shuffle(rng, &mut order);
            let mut rest = vec![];
            for (k, c) in calls.iter().enumerate() {
                rest.extend(std::iter::repeat(k).take(c.saturating_sub(1)));
            }
            shuffle(rng, &mut rest);
            sched.extend(order);
            sched.extend(rest);
            "all-started-then-random"
        }
        2 | 3 => {
            // bounded concurrency: at most w builds live; random live build advances; a finished one makes room
            let wmax = n.saturating_sub(1).clamp(2, 3);
            let w = 2 + rng.below(wmax - 1);
            let mut order: Vec<usize> = (0..n).collect();
            if rng.coin() {
                shuffle(rng, &mut order);
            }
            let mut remaining: Vec<usize> = calls.to_vec();
            let mut waiting: std::collections::VecDeque<usize> = order.into_iter().collect();
            let mut live: Vec<usize> = vec![];
            loop {
                while live.len() < w {
                    match waiting.pop_front() {
                        Some(k) => {
                            // the build starts at once (its initiate_task call)
                            sched.push(k);
                            remaining[k] = remaining[k].saturating_sub(1);
                            live.push(k);
                        }
                        None => break,
                    }
                }
                live.retain(|k| remaining[*k] > 0);
                if live.is_empty() && waiting.is_empty() {
                    break;
                }
                if live.is_empty() {
                    continue;
                }
                // shape 3: the oldest live build is favoured (finishes first: frees in FIFO order)
                let i = if shape == 3 && rng.chance(2, 3) { 0 } else { rng.below(live.len()) };
                let k = live[i];
                sched.push(k);
                remaining[k] -= 1;
            }
            if shape == 2 { "pipeline" } else { "pipeline-fifo" }
        }
        _ => {
            let mut order: Vec<usize> = (0..n).collect();
            sched.extend(order.iter().copied());
            shuffle(rng, &mut order);
            // leave the last one of the permutation unfinished for a while: a later started build overlaps with it
            for k in order {
                sched.extend(std::iter::repeat(k).take(calls[k].saturating_sub(1)));
            }
            "all-started-then-completed-in-random-order"
        }
    };
    let mut abandon: Vec<Value> = vec![Value::Null; n];
    let mut label = label.to_string();
    if rng.chance(1, 4) {
        let k = rng.below(n);
        abandon[k] = json!(1 + rng.below(calls[k].saturating_sub(2).max(1)));
        label.push_str("+one-build-given-up");
    }
    (json!({"schedule": sched, "abandon": abandon}), label)
}
