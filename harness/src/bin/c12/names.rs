//! Name-collision families for C12.
//!
//! GraphQL keeps operation names, fragment names, field names, aliases, variable names, directive names, argument
//! names, enum values and type names in SEPARATE namespaces: `query User($User: ID) { User: user(User: $User) @User
//! { ...User } } fragment User on User { id }` is a legal document. The runtime-document printer decides which
//! fragments to append by NAME, so every place where it compares or looks up a name is a place where a name from
//! another namespace (or one that differs only by case, or one that equals an identifier the printer derives, such as
//! `<Operation>Query`) can be confused with a fragment name. `collide_names` rewrites an already generated document
//! (valid by construction or syntactic) so that such coincidences occur; it only RENAMES fragments (definition and
//! every spread, consistently) and operations, keeps fragment names pairwise distinct and operation names pairwise
//! distinct, and never touches the structure — a document that was valid stays valid.
use nvh::gm::*;
use nvh::Rng;
use std::collections::BTreeSet;

#[derive(Default)]
struct Pools {
    fields: Vec<String>,
    aliases: Vec<String>,
    vars: Vec<String>,
    dirs: Vec<String>,
    types: Vec<String>,
    args: Vec<String>,
    enums: Vec<String>,
}

fn push(v: &mut Vec<String>, s: &str) {
    if !v.iter().any(|x| x == s) {
        v.push(s.to_string());
    }
}

fn pool_val(v: &Val, p: &mut Pools) {
    match v {
        Val::Var(n, _) => push(&mut p.vars, n),
        Val::Enum(n, _) => push(&mut p.enums, n),
        Val::List(xs, _) => xs.iter().for_each(|x| pool_val(x, p)),
        Val::Obj(fs, _) => fs.iter().for_each(|a| {
            push(&mut p.args, &a.name);
            pool_val(&a.value, p)
        }),
        _ => {}
    }
}
fn pool_args(args: &[Arg], p: &mut Pools) {
    for a in args {
        push(&mut p.args, &a.name);
        pool_val(&a.value, p);
    }
}
fn pool_dirs(dirs: &[Dir], p: &mut Pools) {
    for d in dirs {
        push(&mut p.dirs, &d.name);
        pool_args(&d.args, p);
    }
}
fn pool_sels(sels: &[Sel], p: &mut Pools) {
    for s in sels {
        match s {
            Sel::Field { alias, name, args, dirs, sel, .. } => {
                push(&mut p.fields, name);
                if let Some((a, _)) = alias {
                    push(&mut p.aliases, a);
                }
                pool_args(args, p);
                pool_dirs(dirs, p);
                if let Some(ss) = sel {
                    pool_sels(ss, p);
                }
            }
            Sel::Spread { dirs, .. } => pool_dirs(dirs, p),
            Sel::Inline { cond, dirs, sel, .. } => {
                if let Some((c, _)) = cond {
                    push(&mut p.types, c);
                }
                pool_dirs(dirs, p);
                pool_sels(sel, p);
            }
        }
    }
}

fn pools_of(doc: &Doc, extra_types: &[String]) -> Pools {
    let mut p = Pools::default();
    for t in extra_types {
        push(&mut p.types, t);
    }
    for d in &doc.defs {
        match d {
            ExecDef::Op(o) => {
                for v in &o.vars {
                    push(&mut p.vars, &v.name);
                    push(&mut p.types, v.ty.unwrapped());
                    pool_dirs(&v.dirs, &mut p);
                    if let Some(dv) = &v.default {
                        pool_val(dv, &mut p);
                    }
                }
                pool_dirs(&o.dirs, &mut p);
                pool_sels(&o.sel, &mut p);
            }
            ExecDef::Frag(f) => {
                push(&mut p.types, &f.cond);
                pool_dirs(&f.dirs, &mut p);
                pool_sels(&f.sel, &mut p);
            }
            ExecDef::Import(_) => {}
        }
    }
    p
}

fn rename_spreads(sels: &mut [Sel], old: &str, new: &str) {
    for s in sels.iter_mut() {
        match s {
            Sel::Field { sel: Some(ss), .. } => rename_spreads(ss, old, new),
            Sel::Field { .. } => {}
            Sel::Spread { name, .. } => {
                if name == old {
                    *name = new.to_string();
                }
            }
            Sel::Inline { sel, .. } => rename_spreads(sel, old, new),
        }
    }
}

fn frag_names(doc: &Doc) -> Vec<String> {
    doc.defs.iter().filter_map(|d| if let ExecDef::Frag(f) = d { Some(f.name.clone()) } else { None }).collect()
}
fn op_names(doc: &Doc) -> Vec<String> {
    doc.defs.iter().filter_map(|d| if let ExecDef::Op(OpDef { name: Some((n, _)), .. }) = d { Some(n.clone()) } else { None }).collect()
}

fn is_name(s: &str) -> bool {
    let mut cs = s.chars();
    matches!(cs.next(), Some(c) if c == '_' || c.is_ascii_alphabetic()) && cs.all(|c| c == '_' || c.is_ascii_alphanumeric())
}

/// rename fragment `old` to `new` everywhere; refused (false) when it would not stay a legal, unambiguous document
fn rename_frag(doc: &mut Doc, old: &str, new: &str) -> bool {
    if old == new || new == "on" || !is_name(new) || frag_names(doc).iter().any(|n| n == new) {
        return false;
    }
    for d in doc.defs.iter_mut() {
        match d {
            ExecDef::Op(o) => rename_spreads(&mut o.sel, old, new),
            ExecDef::Frag(f) => {
                if f.name == old {
                    f.name = new.to_string();
                }
                rename_spreads(&mut f.sel, old, new);
            }
            ExecDef::Import(_) => {}
        }
    }
    true
}

/// rename the `k`-th named operation; refused when another operation already has that name
fn rename_op(doc: &mut Doc, old: &str, new: &str) -> bool {
    if old == new || !is_name(new) || op_names(doc).iter().any(|n| n == new) {
        return false;
    }
    for d in doc.defs.iter_mut() {
        if let ExecDef::Op(o) = d {
            if let Some((n, _)) = &mut o.name {
                if n == old {
                    *n = new.to_string();
                    return true;
                }
            }
        }
    }
    false
}

fn spreads(sels: &[Sel], out: &mut Vec<String>) {
    for s in sels {
        match s {
            Sel::Field { sel: Some(ss), .. } => spreads(ss, out),
            Sel::Field { .. } => {}
            Sel::Spread { name, .. } => out.push(name.clone()),
            Sel::Inline { sel, .. } => spreads(sel, out),
        }
    }
}

/// fragments transitively spread from the selection set (generator-side helper for BIASING only; the verdict uses the
/// Lean reference closure)
fn reachable(doc: &Doc, sel: &[Sel]) -> Vec<String> {
    let mut seen: Vec<String> = vec![];
    let mut todo = vec![];
    spreads(sel, &mut todo);
    while let Some(n) = todo.pop() {
        if seen.contains(&n) {
            continue;
        }
        if let Some(f) = doc.defs.iter().find_map(|d| match d {
            ExecDef::Frag(f) if f.name == n => Some(f),
            _ => None,
        }) {
            spreads(&f.sel, &mut todo);
            seen.push(n);
        }
    }
    seen
}

fn case_variant(rng: &mut Rng, s: &str) -> String {
    let flip_first = |s: &str| -> String {
        let mut cs: Vec<char> = s.chars().collect();
        if let Some(c) = cs.first_mut() {
            *c = if c.is_ascii_uppercase() { c.to_ascii_lowercase() } else { c.to_ascii_uppercase() };
        }
        cs.into_iter().collect()
    };
    match rng.below(4) {
        0 => s.to_ascii_uppercase(),
        1 => s.to_ascii_lowercase(),
        _ => flip_first(s),
    }
}

const KEYWORDISH: [&str; 14] =
    ["query", "mutation", "subscription", "fragment", "Query", "Mutation", "Subscription", "type", "schema", "default", "anonymous", "undefined", "_", "__typename"];

pub const FAMILIES: usize = 9;

/// apply one collision family; returns the feature label when something was renamed
fn apply(rng: &mut Rng, doc: &mut Doc, extra_types: &[String], family: usize) -> Option<String> {
    let frags = frag_names(doc);
    let ops = op_names(doc);
    let pools = pools_of(doc, extra_types);
    let pick = |rng: &mut Rng, v: &[String]| -> Option<String> { if v.is_empty() { None } else { Some(v[rng.below(v.len())].clone()) } };
    match family {
        // a fragment the operation (transitively) spreads gets the operation's own name
        0 => {
            let cands: Vec<(String, Vec<String>)> = doc
                .defs
                .iter()
                .filter_map(|d| match d {
                    ExecDef::Op(o) => o.name.as_ref().map(|(n, _)| (n.clone(), reachable(doc, &o.sel))),
                    _ => None,
                })
                .filter(|(_, r)| !r.is_empty())
                .collect();
            if cands.is_empty() {
                return None;
            }
            let (op, reach) = &cands[rng.below(cands.len())];
            // the most deeply reached or any
            let f = &reach[rng.below(reach.len())];
            rename_frag(doc, f, op).then(|| "op-name=reachable-fragment-name".to_string())
        }
        // any fragment gets any operation's name (also one the operation does not spread)
        1 => {
            let (f, op) = (pick(rng, &frags)?, pick(rng, &ops)?);
            rename_frag(doc, &f, &op).then(|| "op-name=some-fragment-name".to_string())
        }
        // every operation (of whatever kind) is named like a fragment
        2 => {
            let mut done = 0;
            let mut avail = frags.clone();
            for op in &ops {
                if avail.is_empty() {
                    break;
                }
                let f = avail.remove(rng.below(avail.len()));
                if rename_op(doc, op, &f) {
                    done += 1;
                }
            }
            (done > 0).then(|| format!("all-ops-named-like-fragments:{}", done.min(3)))
        }
        // a fragment is named like a field / alias / variable / directive / type / argument / enum value of the document
        3 | 4 => {
            let cats: [(&str, &Vec<String>); 7] = [
                ("field", &pools.fields),
                ("alias", &pools.aliases),
                ("variable", &pools.vars),
                ("directive", &pools.dirs),
                ("type", &pools.types),
                ("argument", &pools.args),
                ("enum-value", &pools.enums),
            ];
            let nonempty: Vec<&(&str, &Vec<String>)> = cats.iter().filter(|c| !c.1.is_empty()).collect();
            if nonempty.is_empty() {
                return None;
            }
            let (cat, pool) = nonempty[rng.below(nonempty.len())];
            let new = pick(rng, pool)?;
            if family == 3 {
                let f = pick(rng, &frags)?;
                rename_frag(doc, &f, &new).then(|| format!("fragment-name={cat}-name"))
            } else {
                let op = pick(rng, &ops)?;
                rename_op(doc, &op, &new).then(|| format!("op-name={cat}-name"))
            }
        }
        // names that differ only by case
        5 => match rng.below(3) {
            0 => {
                let (f, op) = (pick(rng, &frags)?, pick(rng, &ops)?);
                let new = case_variant(rng, &op);
                (new != op && rename_frag(doc, &f, &new)).then(|| "fragment-name~op-name(case)".to_string())
            }
            1 => {
                let (f, op) = (pick(rng, &frags)?, pick(rng, &ops)?);
                let new = case_variant(rng, &f);
                (new != f && rename_op(doc, &op, &new)).then(|| "op-name~fragment-name(case)".to_string())
            }
            _ => {
                if frags.len() < 2 {
                    return None;
                }
                let a = rng.below(frags.len());
                let b = (a + 1 + rng.below(frags.len() - 1)) % frags.len();
                let new = case_variant(rng, &frags[b]);
                (new != frags[b] && rename_frag(doc, &frags[a], &new)).then(|| "fragment-name~fragment-name(case)".to_string())
            }
        },
        // a fragment is named like the identifier the printers derive for an operation (`<Name>Query` …) or an
        // operation like `<Fragment>` minus nothing: the derived-identifier space
        6 => {
            let ops_k: Vec<(String, OpKind)> = doc
                .defs
                .iter()
                .filter_map(|d| match d {
                    ExecDef::Op(o) => o.name.as_ref().map(|(n, _)| (n.clone(), o.kind)),
                    _ => None,
                })
                .collect();
            if ops_k.is_empty() {
                return None;
            }
            let (op, kind) = &ops_k[rng.below(ops_k.len())];
            let suffix = match kind {
                OpKind::Query => "Query",
                OpKind::Mutation => "Mutation",
                OpKind::Subscription => "Subscription",
            };
            let mut cs: Vec<char> = op.chars().collect();
            if rng.coin() {
                if let Some(c) = cs.first_mut() {
                    *c = c.to_ascii_uppercase();
                }
            }
            let new = format!("{}{suffix}", cs.into_iter().collect::<String>());
            let f = pick(rng, &frags)?;
            rename_frag(doc, &f, &new).then(|| "fragment-name=derived-operation-identifier".to_string())
        }
        // keyword-like and placeholder-like names
        7 => {
            let new = KEYWORDISH[rng.below(KEYWORDISH.len())].to_string();
            if rng.chance(2, 3) || ops.is_empty() {
                let f = pick(rng, &frags)?;
                rename_frag(doc, &f, &new).then(|| "fragment-name=keywordish".to_string())
            } else {
                let op = pick(rng, &ops)?;
                rename_op(doc, &op, &new).then(|| "op-name=keywordish".to_string())
            }
        }
        // the only operation becomes anonymous (its fragments keep whatever names they have, collisions included)
        _ => {
            let n_ops = doc.defs.iter().filter(|d| matches!(d, ExecDef::Op(_))).count();
            if n_ops != 1 || frags.is_empty() {
                return None;
            }
            let mut old = None;
            for d in doc.defs.iter_mut() {
                if let ExecDef::Op(o) = d {
                    old = o.name.take().map(|x| x.0);
                }
            }
            // a fragment takes over the name the operation had
            let old = old?;
            let f = frags[rng.below(frags.len())].clone();
            let _ = rename_frag(doc, &f, &old);
            Some("anonymous-operation+fragment-with-its-former-name".to_string())
        }
    }
}

/// 1–3 collision families on the document; the labels of the ones that took effect (prefixed `collision:`)
pub fn collide_names(rng: &mut Rng, doc: &mut Doc, extra_types: &[String]) -> BTreeSet<String> {
    let mut out = BTreeSet::new();
    let n = 1 + rng.below(3);
    for _ in 0..n {
        // the families about operation = fragment are the ones closest to the printer's own name handling: half of the draws
        let family = if rng.coin() { rng.below(3) } else { 3 + rng.below(FAMILIES - 3) };
        if let Some(label) = apply(rng, doc, extra_types, family) {
            out.insert(format!("collision:{label}"));
        }
    }
    out
}
