//! C04 import stream — multi-file operation documents.
//!
//! A project is a schema plus several `.graphql` files (absolute, normalised paths) that `#import` fragments from
//! each other. The real code is run the way `crates/cli/src/check.rs` composes it: every file is parsed,
//! `resolve_operation_extensions` is applied to every file, an `OperationResolver` over ALL files is built, and
//! then EVERY file in turn is the root: `resolve_operation_imports` → `check_operation_document`.
//!   O  the harness computes the ABSTRACT merge of the root on its own (`abstract_merge`: the root's definitions plus
//!      every fragment some import statement reachable from the root requests — `*` = all fragments of the file —
//!      operations of imported files are never included) from the parsed files; if the Lean reference validator finds
//!      that document spec-valid, the real pipeline must deliver zero diagnostics (and no import error).
//!   K  the document the REAL resolver produced goes through the usual model-vs-code comparison.
//!   O (C03)  projects with ONE labelled fault (`Project.labels`): a single-file mutation operator applied before the
//!      definitions are dealt over the files, or equally named fragments that only meet in the merged document
//!      (`duplicate_fragment_across_files`). For every root whose abstract merge violates the labelled rule
//!      (`valid.rules`) the real pipeline must report a diagnostic of a kind of the rule — located in a file that
//!      holds the faulty definition when the fault is confined to fragment definitions (`fault_files`).
//! Projects are generated from a valid-by-construction document by distributing its definitions over 2–4 files:
//! the first file keeps every operation (so its merge is valid by construction), the other files get fragments and
//! their own operations (copies / small local ones) at random places — operations before, between and after the
//! fragments —, imports are specific or `*`, split over several statements, sometimes left to a transitive import,
//! sometimes placed between definitions, files may import from each other mutually.
use super::mutate::Label;
use super::{Anchors, Triple};
use nitrogql_ast::{base::Pos, set_current_file_of_pos, OperationDocument};
use nitrogql_checker::{check_operation_document, OperationCheckContext};
use nitrogql_error::PositionedError;
use nitrogql_parser::parse_operation_document;
use nitrogql_semantics::{resolve_operation_extensions, resolve_operation_imports, OperationExtension, OperationResolver};
use nvh::gm::*;
use nvh::real::*;
use nvh::render::*;
use nvh::*;
use serde_json::{json, Value as J};
use std::borrow::Cow;
use std::collections::{BTreeMap, BTreeSet, HashMap};
use std::path::{Path, PathBuf};

#[derive(Clone, Debug)]
pub struct PFile {
    pub path: String,
    pub text: String,
}

#[derive(Clone, Debug)]
pub struct Project {
    pub sdl: Vec<String>,
    pub files: Vec<PFile>,
    pub origin: String,
    pub features: Vec<String>,
    /// C03: the injected, labelled faults (empty = a project that is valid by construction)
    pub labels: Vec<Label>,
    /// C03: indices of the files that hold the faulty definition(s) when the fault is confined to fragment
    /// definitions (a diagnostic of the rule's kind must then be located in one of them); empty = no such claim
    pub fault_files: Vec<usize>,
    /// `--replay`: the file-system layout of the CLI leg the failure was found with
    pub cli_layout: Option<usize>,
}

impl Project {
    pub fn to_json(&self, prop: &str, root: usize) -> J {
        json!({
            "prop": prop,
            "sdl": self.sdl,
            "files": self.files.iter().map(|f| json!({"path": f.path, "text": f.text})).collect::<Vec<_>>(),
            "root": root,
            "origin": self.origin,
            "labels": self.labels.iter().map(|l| json!({"rule": l.rule, "class": l.class, "mutation": l.mutation})).collect::<Vec<_>>(),
            "fault_files": self.fault_files,
        })
    }
    pub fn from_json(v: &J) -> Option<Project> {
        let files = v["files"].as_array()?.iter().map(|f| Some(PFile { path: f["path"].as_str()?.to_string(), text: f["text"].as_str()?.to_string() })).collect::<Option<Vec<_>>>()?;
        Some(Project {
            sdl: v["sdl"].as_array().map(|a| a.iter().map(|s| s.as_str().unwrap_or("").to_string()).collect()).unwrap_or_default(),
            files,
            origin: v["origin"].as_str().unwrap_or("replay").to_string(),
            features: vec![],
            labels: v["labels"]
                .as_array()
                .map(|a| a.iter().map(|l| Label { rule: l["rule"].as_str().unwrap_or("").into(), class: l["class"].as_str().unwrap_or("").into(), mutation: l["mutation"].as_str().unwrap_or("").into() }).collect())
                .unwrap_or_default(),
            fault_files: v["fault_files"].as_array().map(|a| a.iter().filter_map(|x| x.as_u64().map(|n| n as usize)).collect()).unwrap_or_default(),
            cli_layout: v["cli_layout"].as_u64().map(|n| n as usize),
        })
    }
    pub fn size(&self) -> usize {
        self.files.iter().map(|f| f.text.len()).sum()
    }
}

// ------------------------------------------------------------------------------------------------
// the real pipeline

pub enum RootOut {
    Checked { doc: Doc, diags: Vec<Triple>, raw: Vec<Diag> },
    /// `resolve_operation_imports` failed: (variant name, message)
    ImportError(String, String),
    Panic(String),
}

pub struct ProjectOut {
    /// every file as the real parser read it (imports included)
    pub parsed: Vec<Doc>,
    pub roots: Vec<RootOut>,
}

struct Files<'a, 'src> {
    by_path: HashMap<&'a Path, (&'a OperationDocument<'src>, &'a OperationExtension<'src>)>,
}

impl<'src> OperationResolver<'src> for Files<'_, 'src> {
    fn resolve(&self, path: &Path) -> Option<(&OperationDocument<'src>, &OperationExtension<'src>)> {
        self.by_path.get(path).copied()
    }
}

/// Err = the project never reaches the checker (parse error / extension error in some file), as in the CLI
pub fn run_project_real(schema: &graphql_type_system::Schema<Cow<str>, Pos>, files: &[PFile]) -> Result<ProjectOut, String> {
    let r = catch(std::panic::AssertUnwindSafe(|| -> Result<ProjectOut, String> {
        let mut parsed = vec![];
        let mut resolved: Vec<(PathBuf, OperationDocument, OperationExtension)> = vec![];
        for (i, f) in files.iter().enumerate() {
            set_current_file_of_pos(i + 1);
            let ext = parse_operation_document(&f.text).map_err(|e| format!("parse-operation:{}: {e:?}", f.path))?;
            parsed.push(from_real_doc_ext(&ext));
            let (doc, x) = resolve_operation_extensions(ext).map_err(|e| format!("resolve-operation:{}:{}", f.path, kind_of_message(&e)))?;
            resolved.push((PathBuf::from(&f.path), doc, x));
        }
        let resolver = Files { by_path: resolved.iter().map(|(p, d, x)| (p.as_path(), (d, x))).collect() };
        let ctx = OperationCheckContext::new(schema);
        let mut roots = vec![];
        for (p, d, x) in resolved.iter() {
            let one = catch(std::panic::AssertUnwindSafe(|| match resolve_operation_imports((p.as_path(), d, x), &resolver) {
                Err(e) => {
                    let kind = kind_of_message(&e.message);
                    let pe: PositionedError = e.into();
                    RootOut::ImportError(kind, pe.into_inner().to_string())
                }
                Ok(merged) => {
                    let errs = check_operation_document(&merged, &ctx);
                    let raw: Vec<Diag> = errs.iter().map(|e| diag_of_check("check-operation", e)).collect();
                    let anchors = Anchors::of(&merged);
                    let diags = raw.iter().map(|d| anchors.canon(d)).collect();
                    RootOut::Checked { doc: from_real_doc(&merged), diags, raw }
                }
            }));
            roots.push(one.unwrap_or_else(RootOut::Panic));
        }
        Ok(ProjectOut { parsed, roots })
    }));
    r.unwrap_or_else(|p| Err(format!("panic: {p}")))
}

// ------------------------------------------------------------------------------------------------
// the CLI leg: the same project through the built `nitrogql-cli check --output-format json`

pub struct CliOut {
    pub code: Option<i32>,
    pub timed_out: bool,
    /// (file path as the CLI prints it, line, column, message)
    pub errors: Vec<(String, usize, usize, String)>,
    /// the output is not the JSON document the command promises
    pub malformed: Option<String>,
}

/// file-system layouts of the CLI leg (all inside the scratch directory)
pub const CLI_LAYOUTS: [&str; 9] = [
    "plain",               // documents: ops/**/*.graphql
    "explicit-globs",      // one glob per directory, with `./` and `/./` components
    "dir-symlink-sibling", // one directory of the documents is a symbolic link to a sibling directory of `ops`
    "dir-symlink-outside", // … to a directory outside the project directory
    "dir-symlink-nested",  // … to a directory stored below `ops` itself
    "file-symlink",        // one operation file is a symbolic link to a file stored elsewhere
    "dir-alias",           // a directory (whose files import nothing) is matched twice: itself and through a link to it
    "duplicate-globs",     // `**`, one glob per directory and a literal file path: every file is matched several times
    "dotdot-globs",        // globs with `..` components (C04 only: known finding, see known-findings.txt)
];

/// the family a layout belongs to (part of the signature)
pub fn layout_family(l: usize) -> &'static str {
    match CLI_LAYOUTS[l % CLI_LAYOUTS.len()] {
        "plain" => "plain",
        "explicit-globs" => "explicit-globs",
        "duplicate-globs" => "duplicate-globs",
        "dotdot-globs" => "dotdot-globs",
        _ => "symlink",
    }
}

fn dir_of(path: &str) -> String {
    match path.rfind('/') {
        Some(i) => path[..i].to_string(),
        None => String::new(),
    }
}

/// write the project under `<scratch>/cli-project` (schema files under `schema/`, operation files under `ops/<path>` —
/// or behind a symbolic link, see `CLI_LAYOUTS` —, `graphql.config.yaml`) and run `check`; returns the layout used
pub fn run_project_cli(cli: &str, scratch: &str, p: &Project, layout: usize) -> (CliOut, &'static str) {
    let dir = nvh::cli::fresh_dir(scratch, "cli-project");
    let shared = nvh::cli::fresh_dir(scratch, "cli-project-shared");
    let mut pr = nvh::cli::Project::default();
    for (i, t) in p.sdl.iter().enumerate() {
        pr.add(&format!("schema/s{i}.graphql"), t);
    }
    let mut dirs: Vec<String> = p.files.iter().map(|f| dir_of(&f.path)).collect();
    dirs.sort();
    dirs.dedup();
    let linkable: Vec<String> = dirs.iter().filter(|d| !d.is_empty()).cloned().collect();
    let h = nvh::report::fnv(&p.files.iter().map(|f| f.text.as_str()).collect::<Vec<_>>().join("|")) as usize;
    let mut name = CLI_LAYOUTS[layout % CLI_LAYOUTS.len()];
    // what is needed for the layout may be missing: fall back to explicit globs
    let imports_nothing = |d: &str| p.files.iter().filter(|f| dir_of(&f.path) == d).all(|f| !f.text.contains("#import"));
    let alias_dir: Option<String> = linkable.iter().find(|d| imports_nothing(d) && !linkable.iter().any(|e| e.starts_with(&format!("{d}/")))).cloned();
    if (name.starts_with("dir-symlink") && linkable.is_empty()) || (name == "dir-alias" && alias_dir.is_none()) {
        name = "explicit-globs";
    }
    // (link location relative to the project directory, link target relative to the link's directory)
    let mut links: Vec<(String, String)> = vec![];
    let up = |from_dir: &str| "../".repeat(from_dir.split('/').filter(|s| !s.is_empty()).count());
    let mut globs: Vec<String> = vec![];
    let per_dir = |dots: bool| -> Vec<String> {
        dirs.iter()
            .enumerate()
            .map(|(i, d)| match (dots, (h >> i) & 3) {
                (true, 1) => format!("./ops{d}/*.graphql"),
                (true, 2) => format!("ops{d}/./*.graphql"),
                (true, 3) => format!("./ops/.{d}/*.graphql"),
                _ => format!("ops{d}/*.graphql"),
            })
            .collect()
    };
    match name {
        "plain" => {
            for f in &p.files {
                pr.add(&format!("ops{}", f.path), &f.text);
            }
            globs.push("ops/**/*.graphql".into());
        }
        "explicit-globs" | "duplicate-globs" | "dotdot-globs" => {
            for f in &p.files {
                pr.add(&format!("ops{}", f.path), &f.text);
            }
            if name == "dotdot-globs" {
                globs = dirs.iter().map(|d| format!("ops/../ops{d}/*.graphql")).collect();
            } else {
                globs = per_dir(true);
                if name == "duplicate-globs" {
                    globs.push("ops/**/*.graphql".into());
                    globs.push(format!("ops{}", p.files[h % p.files.len()].path));
                    globs.extend(per_dir(false));
                }
            }
        }
        "dir-symlink-sibling" | "dir-symlink-outside" | "dir-symlink-nested" => {
            let d = linkable[h % linkable.len()].clone();
            // where the files of `d` (and of the directories below it) really are, relative to the project directory
            let store = match name {
                "dir-symlink-sibling" => "linked/d0".to_string(),
                "dir-symlink-outside" => "../cli-project-shared/d0".to_string(),
                _ => "ops/_store/d0".to_string(),
            };
            for f in &p.files {
                if f.path.starts_with(&format!("{d}/")) {
                    pr.add(&format!("{store}{}", &f.path[d.len()..]), &f.text);
                } else {
                    pr.add(&format!("ops{}", f.path), &f.text);
                }
            }
            let parent = dir_of(&d);
            links.push((format!("ops{d}"), format!("{}{store}", up(&format!("ops{parent}")))));
            globs = per_dir(false);
        }
        "file-symlink" => {
            let k = h % p.files.len();
            for (i, f) in p.files.iter().enumerate() {
                if i == k {
                    pr.add("store/linked-file.graphql", &f.text);
                    links.push((format!("ops{}", f.path), format!("{}store/linked-file.graphql", up(&format!("ops{}", dir_of(&f.path))))));
                } else {
                    pr.add(&format!("ops{}", f.path), &f.text);
                }
            }
            globs = per_dir(false);
            if h & 1 == 1 {
                globs = vec!["ops/**/*.graphql".into()];
            }
        }
        _ => {
            // dir-alias
            let d = alias_dir.clone().unwrap();
            for f in &p.files {
                pr.add(&format!("ops{}", f.path), &f.text);
            }
            let parent = dir_of(&d);
            let leaf = &d[parent.len() + 1..];
            links.push((format!("ops{parent}/zz_alias"), leaf.to_string()));
            globs = per_dir(false);
            globs.push(format!("ops{parent}/zz_alias/*.graphql"));
        }
    }
    let docs: String = globs.iter().map(|g| format!("  - \"{g}\"\n")).collect();
    pr.add("graphql.config.yaml", &format!("schema: \"schema/**/*.graphql\"\ndocuments:\n{docs}"));
    pr.write(&dir);
    for (at, target) in &links {
        let full = dir.join(at);
        if let Some(parent) = full.parent() {
            let _ = std::fs::create_dir_all(parent);
        }
        // (scratch directory only)
        if std::os::unix::fs::symlink(target, &full).is_err() {
            name = "plain";
        }
    }
    let out = run_cli_check(cli, &dir);
    let _ = std::fs::remove_dir_all(&dir);
    let _ = std::fs::remove_dir_all(&shared);
    (out, name)
}

fn run_cli_check(cli: &str, dir: &Path) -> CliOut {
    let run = nvh::cli::run_cli(cli, dir, &["check", "--output-format", "json"], &[], std::time::Duration::from_secs(30));
    let mut out = CliOut { code: run.code, timed_out: run.timed_out, errors: vec![], malformed: None };
    // (a log line may precede the JSON document)
    let json_part = run.stdout.find('{').map(|i| &run.stdout[i..]).unwrap_or("");
    match serde_json::from_str::<J>(json_part.trim()) {
        Ok(v) => {
            if let Some(errs) = v["check"]["errors"].as_array() {
                for e in errs {
                    out.errors.push((
                        e["file"]["path"].as_str().unwrap_or("").to_string(),
                        e["file"]["line"].as_u64().unwrap_or(0) as usize,
                        e["file"]["column"].as_u64().unwrap_or(0) as usize,
                        e["message"].as_str().unwrap_or("").to_string(),
                    ));
                }
            } else if run.code == Some(0) && v["check"].is_null() {
                out.malformed = Some(format!("no `check` object: {}", run.stdout.chars().take(200).collect::<String>()));
            }
        }
        Err(e) => out.malformed = Some(format!("{e}: stdout {:?} stderr {:?}", run.stdout.chars().take(200).collect::<String>(), run.stderr.chars().take(200).collect::<String>())),
    }
    out
}

/// message class: the message with every quoted part and every number blanked
pub fn message_template(m: &str) -> String {
    let mut out = String::new();
    let mut in_quote = false;
    for c in m.chars() {
        if c == '\'' {
            in_quote = !in_quote;
            out.push(c);
        } else if in_quote {
        } else if c.is_ascii_digit() {
            if !out.ends_with('#') {
                out.push('#');
            }
        } else {
            out.push(c);
        }
    }
    out
}

// ------------------------------------------------------------------------------------------------
// the abstract merge (harness' own reading of `#import`)

fn segments(p: &str) -> Vec<String> {
    let mut out: Vec<String> = vec![];
    for s in p.split('/') {
        match s {
            "" | "." => {}
            ".." => {
                out.pop();
            }
            s => out.push(s.to_string()),
        }
    }
    out
}

/// the file an import path written in `from_file` denotes (both files have absolute paths)
pub fn resolve_rel(from_file: &str, rel: &str) -> String {
    let mut dir = segments(from_file);
    dir.pop();
    let joined = if rel.starts_with('/') { rel.to_string() } else { format!("/{}/{}", dir.join("/"), rel) };
    format!("/{}", segments(&joined).join("/"))
}

fn frag_names(d: &Doc) -> Vec<String> {
    d.defs.iter().filter_map(|x| if let ExecDef::Frag(f) = x { Some(f.name.clone()) } else { None }).collect()
}

/// root's own definitions + every fragment requested by an import statement reachable from the root
pub fn abstract_merge(files: &[(String, Doc)], root: usize) -> Result<Doc, String> {
    let index: BTreeMap<String, usize> = files.iter().enumerate().map(|(i, (p, _))| (resolve_rel("/", p), i)).collect();
    let mut requested: BTreeMap<usize, BTreeSet<String>> = BTreeMap::new();
    let mut visited: BTreeSet<usize> = BTreeSet::from([root]);
    let mut todo = vec![root];
    while let Some(x) = todo.pop() {
        for d in &files[x].1.defs {
            let ExecDef::Import(imp) = d else { continue };
            let target = resolve_rel(&files[x].0, &imp.path);
            let Some(&y) = index.get(&target) else { return Err(format!("file-not-found:{}", imp.path)) };
            let names = frag_names(&files[y].1);
            for t in &imp.targets {
                match t {
                    None => requested.entry(y).or_default().extend(names.iter().cloned()),
                    Some((n, _)) => {
                        if !names.contains(n) {
                            return Err(format!("fragment-not-found:{n}"));
                        }
                        requested.entry(y).or_default().insert(n.clone());
                    }
                }
            }
            if visited.insert(y) {
                todo.push(y);
            }
        }
    }
    let mut defs: Vec<ExecDef> = files[root].1.defs.iter().filter(|d| !matches!(d, ExecDef::Import(_))).cloned().collect();
    for (y, names) in &requested {
        if *y == root {
            continue;
        }
        for d in &files[*y].1.defs {
            if let ExecDef::Frag(f) = d {
                if names.contains(&f.name) {
                    defs.push(d.clone());
                }
            }
        }
    }
    Ok(Doc { defs })
}

// ------------------------------------------------------------------------------------------------
// generator

const LAYOUTS: [[&str; 4]; 4] = [
    ["/proj/src/page.graphql", "/proj/src/fragments.graphql", "/proj/src/more.graphql", "/proj/src/other.graphql"],
    ["/proj/src/pages/a.graphql", "/proj/src/fragments/b.graphql", "/proj/src/fragments/deep/c.graphql", "/proj/lib/d.graphql"],
    ["/a.graphql", "/x/b.graphql", "/x/y/c.graphql", "/z/d.graphql"],
    ["/app/features/user/UserPage.graphql", "/app/features/user/UserCard.graphql", "/app/features/post/PostList.graphql", "/app/shared/fragments.graphql"],
];

fn rel_spelling(rng: &mut Rng, from: &str, to: &str) -> String {
    let mut a = segments(from);
    a.pop();
    let b = segments(to);
    let common = a.iter().zip(b.iter()).take_while(|(x, y)| x == y).count().min(b.len() - 1);
    let ups = a.len() - common;
    let rest = b[common..].join("/");
    if ups == 0 {
        match rng.below(8) {
            0 => rest,
            1 => format!("././{rest}"),
            2 if !a.is_empty() => format!("../{}/{}", a[a.len() - 1], rest),
            _ => format!("./{rest}"),
        }
    } else {
        match rng.below(4) {
            0 => format!("./{}{}", "../".repeat(ups), rest),
            _ => format!("{}{}", "../".repeat(ups), rest),
        }
    }
}

fn spreads_of(sels: &[Sel], out: &mut BTreeSet<String>) {
    for s in sels {
        match s {
            Sel::Field { sel: Some(ss), .. } => spreads_of(ss, out),
            Sel::Field { .. } => {}
            Sel::Spread { name, .. } => {
                out.insert(name.clone());
            }
            Sel::Inline { sel, .. } => spreads_of(sel, out),
        }
    }
}

fn def_sel(d: &ExecDef) -> &[Sel] {
    match d {
        ExecDef::Op(o) => &o.sel,
        ExecDef::Frag(f) => &f.sel,
        ExecDef::Import(_) => &[],
    }
}

pub struct GFile {
    pub path: String,
    pub defs: Vec<ExecDef>,
    /// (target file, None = wildcard / Some(names), place: None = top, Some(k) = after definition k-1)
    pub lines: Vec<(usize, Option<Vec<String>>, Option<usize>)>,
}

/// a project before rendering: what the fault operators of the C03 stream work on
pub struct Plan {
    pub files: Vec<GFile>,
    pub feats: BTreeSet<String>,
    layout: [&'static str; 4],
}

pub fn gen_project(rng: &mut Rng, sdl: &[String], doc: &Doc, noisy: bool) -> Option<Project> {
    let plan = plan_project(rng, doc)?;
    Some(render_plan(rng, sdl, &plan, noisy))
}

/// distribute the definitions of a document over several files; None when the document has no fragment
pub fn plan_project(rng: &mut Rng, doc: &Doc) -> Option<Plan> {
    let ops: Vec<&OpDef> = doc.defs.iter().filter_map(|d| if let ExecDef::Op(o) = d { Some(o) } else { None }).collect();
    let frags: Vec<&FragDef> = doc.defs.iter().filter_map(|d| if let ExecDef::Frag(f) = d { Some(f) } else { None }).collect();
    if frags.is_empty() || ops.is_empty() {
        return None;
    }
    let mut feats: BTreeSet<String> = BTreeSet::new();
    // every file but the first owns at least one fragment
    let nf = 1 + (1 + rng.below(3)).min(frags.len());
    let layout = LAYOUTS[rng.below(LAYOUTS.len())];
    let mut order: Vec<usize> = (0..4).collect();
    rng.shuffle(&mut order);
    let mut files: Vec<GFile> = (0..nf).map(|k| GFile { path: layout[order[k]].to_string(), defs: vec![], lines: vec![] }).collect();
    // homes of the fragments
    let mut home: BTreeMap<String, usize> = BTreeMap::new();
    let mut deal: Vec<usize> = (0..frags.len()).collect();
    rng.shuffle(&mut deal);
    for (j, &fi) in deal.iter().enumerate() {
        let h = if j + 1 < nf {
            j + 1
        } else if rng.chance(1, 4) {
            0
        } else {
            1 + rng.below(nf - 1)
        };
        home.insert(frags[fi].name.clone(), h);
    }
    for o in &ops {
        files[0].defs.push(ExecDef::Op((*o).clone()));
    }
    for f in &frags {
        files[home[&f.name]].defs.push(ExecDef::Frag((*f).clone()));
    }
    // operations of the other files
    let anonymous = ops.iter().any(|o| o.name.is_none());
    for k in 1..nf {
        let n_extra = [0, 1, 1, 2][rng.below(4)];
        for j in 0..n_extra {
            if anonymous && j > 0 {
                break;
            }
            let op = if rng.chance(3, 4) {
                let mut o = ops[rng.below(ops.len())].clone();
                if let Some((n, _)) = &mut o.name {
                    if rng.coin() || j > 0 {
                        *n = format!("{n}In{k}x{j}");
                    }
                }
                feats.insert("import:imported-file-has-copied-operation".into());
                o
            } else {
                feats.insert("import:imported-file-has-local-operation".into());
                OpDef {
                    kind: OpKind::Query,
                    name: if anonymous { None } else { Some((format!("Local{k}x{j}"), P::default())) },
                    vars: vec![],
                    dirs: vec![],
                    sel: vec![Sel::field("__typename")],
                    pos: P::default(),
                    shorthand: false,
                }
            };
            if files[k].defs.iter().any(|d| matches!(d, ExecDef::Op(o2) if o2.name == op.name)) {
                continue;
            }
            files[k].defs.push(ExecDef::Op(op));
        }
    }
    for f in files.iter_mut() {
        rng.shuffle(&mut f.defs);
        let first_frag = f.defs.iter().position(|d| matches!(d, ExecDef::Frag(_)));
        let first_op = f.defs.iter().position(|d| matches!(d, ExecDef::Op(_)));
        let last_frag = f.defs.iter().rposition(|d| matches!(d, ExecDef::Frag(_)));
        if let (Some(ff), Some(fo), Some(lf)) = (first_frag, first_op, last_frag) {
            feats.insert(if fo < ff { "import:file-layout:operation-first" } else if fo > lf { "import:file-layout:fragments-first" } else { "import:file-layout:operation-between-fragments" }.into());
        } else if first_op.is_none() {
            feats.insert("import:file-layout:fragments-only".into());
        }
    }
    // what every file needs from the others: closure of its spreads through all fragments
    let body: BTreeMap<String, &FragDef> = frags.iter().map(|f| (f.name.clone(), *f)).collect();
    let needs = |f: &GFile| -> BTreeMap<usize, Vec<String>> {
        let mut seen: BTreeSet<String> = BTreeSet::new();
        let mut todo: BTreeSet<String> = BTreeSet::new();
        for d in &f.defs {
            spreads_of(def_sel(d), &mut todo);
        }
        while let Some(n) = todo.iter().next().cloned() {
            todo.remove(&n);
            if !seen.insert(n.clone()) {
                continue;
            }
            if let Some(fd) = body.get(&n) {
                let mut next = BTreeSet::new();
                spreads_of(&fd.sel, &mut next);
                todo.extend(next.into_iter().filter(|x| !seen.contains(x)));
            }
        }
        let own: BTreeSet<String> = f.defs.iter().filter_map(|d| if let ExecDef::Frag(x) = d { Some(x.name.clone()) } else { None }).collect();
        let mut out: BTreeMap<usize, Vec<String>> = BTreeMap::new();
        for n in seen {
            if !own.contains(&n) {
                if let Some(h) = home.get(&n) {
                    out.entry(*h).or_default().push(n);
                }
            }
        }
        out
    };
    // import statements, files of higher priority first (a file may leave a request to a file of higher priority)
    let mut prio: Vec<usize> = (0..nf).collect();
    rng.shuffle(&mut prio);
    let mut explicit: BTreeMap<usize, BTreeSet<String>> = BTreeMap::new(); // file → names it requests itself ("*" expanded)
    for (rank, &x) in prio.iter().enumerate() {
        let need = needs(&files[x]);
        let higher: Vec<usize> = prio[..rank].iter().copied().filter(|z| need.contains_key(z)).collect();
        let mut mine: BTreeSet<String> = BTreeSet::new();
        let mut lines = vec![];
        for (y, names) in &need {
            if rng.chance(1, 3) {
                feats.insert("import:wildcard".into());
                lines.push((*y, None, None));
                mine.extend(files[*y].defs.iter().filter_map(|d| if let ExecDef::Frag(f) = d { Some(f.name.clone()) } else { None }));
                continue;
            }
            let mut keep: Vec<String> = vec![];
            for (i, n) in names.iter().enumerate() {
                let covered = higher.iter().any(|z| z != y && explicit.get(z).map_or(false, |e| e.contains(n)));
                if i > 0 && covered && rng.coin() {
                    feats.insert("import:left-to-transitive-import".into());
                    continue;
                }
                keep.push(n.clone());
            }
            rng.shuffle(&mut keep);
            mine.extend(keep.iter().cloned());
            feats.insert("import:specific".into());
            if keep.len() >= 2 && rng.chance(1, 4) {
                let cut = 1 + rng.below(keep.len() - 1);
                feats.insert("import:two-statements-for-one-file".into());
                lines.push((*y, Some(keep[..cut].to_vec()), None));
                lines.push((*y, Some(keep[cut..].to_vec()), None));
            } else {
                lines.push((*y, Some(keep), None));
            }
        }
        // now and then an import nothing needs
        if rng.chance(1, 10) {
            let others: Vec<usize> = (0..nf).filter(|y| *y != x && !need.contains_key(y) && files[*y].defs.iter().any(|d| matches!(d, ExecDef::Frag(_)))).collect();
            if !others.is_empty() {
                let y = others[rng.below(others.len())];
                feats.insert("import:unneeded-wildcard".into());
                lines.push((y, None, None));
                mine.extend(files[y].defs.iter().filter_map(|d| if let ExecDef::Frag(f) = d { Some(f.name.clone()) } else { None }));
            }
        }
        rng.shuffle(&mut lines);
        let nd = files[x].defs.len();
        for l in lines.iter_mut() {
            if rng.chance(1, 6) {
                feats.insert("import:statement-between-definitions".into());
                l.2 = Some(1 + rng.below(nd));
            }
        }
        explicit.insert(x, mine);
        files[x].lines = lines;
    }
    for x in 0..nf {
        for (y, _, _) in &files[x].lines {
            if files[*y].lines.iter().any(|(z, _, _)| *z == x) {
                feats.insert("import:mutual".into());
            }
        }
    }
    // the same file imported with `*` a second time under another spelling of its path (still one file)
    for x in 0..nf {
        if rng.chance(1, 8) {
            if let Some(l) = files[x].lines.iter().find(|l| l.1.is_none()).cloned() {
                feats.insert("import:wildcard-twice-under-two-spellings".into());
                files[x].lines.push(l);
            }
        }
    }
    if files.iter().any(|f| f.defs.is_empty()) {
        return None;
    }
    feats.insert(format!("import:files:{nf}"));
    Some(Plan { files, feats, layout })
}

pub fn render_plan(rng: &mut Rng, sdl: &[String], plan: &Plan, noisy: bool) -> Project {
    let files = &plan.files;
    let paths: Vec<String> = files.iter().map(|f| f.path.clone()).collect();
    let mut out = vec![];
    for f in files {
        // `*` and names must not meet under one spelling of a path, and `*` only once per spelling
        let mut wild: BTreeSet<String> = BTreeSet::new();
        let mut named: BTreeSet<String> = BTreeSet::new();
        let mut rendered: Vec<Option<ExecDef>> = vec![];
        for (y, t, _) in &f.lines {
            let mut found = None;
            for _ in 0..8 {
                let sp = rel_spelling(rng, &f.path, &paths[*y]);
                let ok = if t.is_none() { !wild.contains(&sp) && !named.contains(&sp) } else { !wild.contains(&sp) };
                if ok {
                    found = Some(sp);
                    break;
                }
            }
            rendered.push(found.map(|sp| {
                if t.is_none() { wild.insert(sp.clone()) } else { named.insert(sp.clone()) };
                ExecDef::Import(ImportDef {
                    targets: match t {
                        None => vec![None],
                        Some(ns) => ns.iter().map(|n| Some((n.clone(), P::default()))).collect(),
                    },
                    path: sp,
                    pos: P::default(),
                })
            }));
        }
        let mut defs: Vec<ExecDef> = vec![];
        for ((_, _, place), r) in f.lines.iter().zip(rendered.iter()) {
            if place.is_none() {
                defs.extend(r.clone());
            }
        }
        for (k, d) in f.defs.iter().enumerate() {
            defs.push(d.clone());
            for ((_, _, place), r) in f.lines.iter().zip(rendered.iter()) {
                if *place == Some(k + 1) {
                    defs.extend(r.clone());
                }
            }
        }
        let mut d = Doc { defs };
        let text = if noisy { render_doc(&mut d, Style::noisy(), rng.fork()).0 } else { render_doc(&mut d, Style::canonical(), Rng::new(0)).0 };
        out.push(PFile { path: f.path.clone(), text });
    }
    Project { sdl: sdl.to_vec(), files: out, origin: "import".into(), features: plan.feats.iter().cloned().collect(), labels: vec![], fault_files: vec![], cli_layout: None }
}

// ------------------------------------------------------------------------------------------------
// C03: faults whose visibility depends on the import composition

/// what `root` gets from the other files, computed on the plan: file → requested fragment names
fn plan_requested(plan: &Plan, root: usize) -> BTreeMap<usize, BTreeSet<String>> {
    let mut requested: BTreeMap<usize, BTreeSet<String>> = BTreeMap::new();
    let mut visited: BTreeSet<usize> = BTreeSet::from([root]);
    let mut todo = vec![root];
    while let Some(x) = todo.pop() {
        for (y, t, _) in &plan.files[x].lines {
            let names: Vec<String> = plan.files[*y].defs.iter().filter_map(|d| if let ExecDef::Frag(f) = d { Some(f.name.clone()) } else { None }).collect();
            match t {
                None => requested.entry(*y).or_default().extend(names),
                Some(ns) => requested.entry(*y).or_default().extend(ns.iter().cloned()),
            }
            if visited.insert(*y) {
                todo.push(*y);
            }
        }
    }
    requested.remove(&root);
    requested
}

/// Two fragment definitions of one name that meet only in the MERGED document of file 0: a local fragment with the
/// name of an imported one, or equally named fragments imported from two files (directly, or one of them through
/// the import of an imported file). Every file on its own keeps unique fragment names. Returns the class.
pub fn duplicate_fragment_across_files(rng: &mut Rng, plan: &mut Plan) -> Option<String> {
    let req = plan_requested(plan, 0);
    let mut cands: Vec<(usize, FragDef)> = vec![];
    for (y, names) in &req {
        for d in &plan.files[*y].defs {
            if let ExecDef::Frag(f) = d {
                if names.contains(&f.name) {
                    cands.push((*y, f.clone()));
                }
            }
        }
    }
    if cands.is_empty() {
        return None;
    }
    let (y, f) = cands[rng.below(cands.len())].clone();
    // the second definition: an exact copy, or another body on the same type
    let mut dup = f.clone();
    if rng.coin() {
        dup.sel = vec![Sel::field("__typename")];
        dup.dirs = vec![];
    }
    let how = rng.below(3);
    if how == 0 {
        if plan.files[0].defs.iter().any(|d| matches!(d, ExecDef::Frag(g) if g.name == f.name)) {
            return None;
        }
        let at = rng.below(plan.files[0].defs.len() + 1);
        plan.files[0].defs.insert(at, ExecDef::Frag(dup));
        // places of import statements that stand between definitions shift with the insertion
        for l in plan.files[0].lines.iter_mut() {
            if let Some(k) = l.2 {
                if k > at {
                    l.2 = Some(k + 1);
                }
            }
        }
        return Some("import/local-vs-imported".into());
    }
    // a file Z ≠ 0, y without a fragment of that name: an existing one or a new one
    let nf = plan.files.len();
    let existing: Vec<usize> = (1..nf).filter(|z| *z != y && !plan.files[*z].defs.iter().any(|d| matches!(d, ExecDef::Frag(g) if g.name == f.name))).collect();
    let z = if !existing.is_empty() && (nf >= 4 || rng.coin()) {
        existing[rng.below(existing.len())]
    } else if nf < 4 {
        let used: BTreeSet<&str> = plan.files.iter().map(|f| f.path.as_str()).collect();
        let path = plan.layout.iter().find(|p| !used.contains(**p))?.to_string();
        plan.files.push(GFile { path, defs: vec![], lines: vec![] });
        nf
    } else {
        return None;
    };
    let at = rng.below(plan.files[z].defs.len() + 1);
    plan.files[z].defs.insert(at, ExecDef::Frag(dup));
    for l in plan.files[z].lines.iter_mut() {
        if let Some(k) = l.2 {
            if k > at {
                l.2 = Some(k + 1);
            }
        }
    }
    // who imports it: file 0 itself, or (how == 2) a file that file 0 imports from
    let direct: Vec<usize> = plan.files[0].lines.iter().map(|l| l.0).filter(|w| *w != z).collect();
    let (importer, class) = if how == 2 && !direct.is_empty() { (direct[rng.below(direct.len())], "import/imported-vs-transitively-imported") } else { (0, "import/imported-vs-imported") };
    let already = plan.files[importer].lines.iter().any(|l| l.0 == z && l.1.as_ref().map_or(true, |ns| ns.contains(&f.name)));
    if !already {
        let t = if rng.chance(1, 3) && !plan.files[importer].lines.iter().any(|l| l.0 == z) { None } else { Some(vec![f.name.clone()]) };
        plan.files[importer].lines.push((z, t, None));
    }
    Some(class.into())
}

/// An imported fragment spreads a sibling fragment of its own file that the importer does not import: file 0 names F in a
/// specific import of file Y, F spreads G (also in Y), and after the edit nothing requests G for file 0. File Y on its
/// own stays valid; the merge of file 0 spreads an undefined fragment (5.5.2.1) from inside an imported definition.
pub fn drop_sibling_import(rng: &mut Rng, plan: &mut Plan) -> Option<String> {
    let mut cands: Vec<(usize, String)> = vec![]; // (line index in file 0, sibling name G)
    for (li, (y, t, _)) in plan.files[0].lines.iter().enumerate() {
        let Some(names) = t else { continue };
        for g in names {
            // some other requested fragment of the same file spreads g directly
            let spread_by_sibling = plan.files[*y].defs.iter().any(|d| match d {
                ExecDef::Frag(f) if &f.name != g && names.contains(&f.name) => {
                    let mut sp = BTreeSet::new();
                    spreads_of(&f.sel, &mut sp);
                    sp.contains(g)
                }
                _ => false,
            });
            // and file 0 itself does not spread g (the fault must sit in the imported definition only)
            let mut own = BTreeSet::new();
            for d in &plan.files[0].defs {
                spreads_of(def_sel(d), &mut own);
            }
            if spread_by_sibling && !own.contains(g) {
                cands.push((li, g.clone()));
            }
        }
    }
    if cands.is_empty() {
        return None;
    }
    let (li, g) = cands[rng.below(cands.len())].clone();
    if let Some(names) = &mut plan.files[0].lines[li].1 {
        names.retain(|n| n != &g);
        if names.is_empty() {
            return None;
        }
    }
    // nothing else may bring g in
    if plan_requested(plan, 0).values().any(|ns| ns.contains(&g)) {
        return None;
    }
    Some("import/imported-fragment-spreads-unimported-sibling".into())
}

/// the files that hold the definitions a single-file mutation touched, when only fragment definitions were touched
pub fn fault_files_of(before: &Doc, after: &Doc, plan: &Plan) -> Vec<usize> {
    let touched: Vec<&ExecDef> = after.defs.iter().filter(|d| !before.defs.contains(d)).collect();
    if touched.is_empty() || touched.iter().any(|d| !matches!(d, ExecDef::Frag(_))) {
        return vec![];
    }
    let mut out = BTreeSet::new();
    for (i, f) in plan.files.iter().enumerate() {
        if f.defs.iter().any(|d| touched.contains(&d)) {
            out.insert(i);
        }
    }
    out.into_iter().collect()
}

/// hand-written projects of the general shapes (schema `s1` of the corpus)
pub fn corpus(s1: &str) -> Vec<Project> {
    let p = |name: &str, files: &[(&str, &str)]| Project {
        sdl: vec![s1.to_string()],
        files: files.iter().map(|(p, t)| PFile { path: p.to_string(), text: t.to_string() }).collect(),
        origin: format!("corpus-import:{name}"),
        features: vec![format!("import-corpus:{name}")],
        labels: vec![],
        fault_files: vec![],
        cli_layout: None,
    };
    vec![
        p(
            "co-located-fragment-below-its-query",
            &[
                ("/p/src/list.graphql", "#import ACard from \"./detail.graphql\"\nquery List { a { ...ACard } }\n"),
                ("/p/src/detail.graphql", "query Detail { a { ...ACard b { y } } }\nfragment ACard on A { id x }\n"),
            ],
        ),
        p(
            "wildcard-from-file-with-operation-between-fragments",
            &[
                ("/p/a.graphql", "#import * from \"./frags/b.graphql\"\nquery Q { a { ...FA } i { ...FI } }\n"),
                ("/p/frags/b.graphql", "fragment FA on A { x }\nquery Own { a { ...FA } i { ...FI } }\nfragment FI on I { id }\n"),
            ],
        ),
        p(
            "transitive-chain-with-operations-everywhere",
            &[
                ("/p/a.graphql", "query Q($n: Int!) { f(n: $n) a { ...F1 } }\n#import F1 from \"./b.graphql\"\n"),
                ("/p/b.graphql", "#import F2 from \"./sub/c.graphql\"\nquery B1($n: Int!) { f(n: $n) a { ...F1 } }\nfragment F1 on A { id b { ...F2 } }\n"),
                ("/p/sub/c.graphql", "query C1 { __typename }\nquery C2 { a { b { ...F2 } } }\nfragment F2 on B { y t: __typename }\n"),
            ],
        ),
        p(
            "mutual-imports",
            &[
                ("/p/a.graphql", "#import FB from \"./b.graphql\"\nquery QA { a { ...FA } }\nfragment FA on A { x b { ...FB } }\n"),
                ("/p/b.graphql", "query QB { a { ...FA } }\n#import FA from \"./a.graphql\"\nfragment FB on B { y }\n"),
            ],
        ),
    ]
}

/// hand-written projects with one labelled fault each (C03; schema `s1` of the corpus)
pub fn corpus_c03(s1: &str) -> Vec<Project> {
    let p = |name: &str, rule: &str, class: &str, mutation: &str, fault_files: &[usize], files: &[(&str, &str)]| Project {
        sdl: vec![s1.to_string()],
        files: files.iter().map(|(p, t)| PFile { path: p.to_string(), text: t.to_string() }).collect(),
        origin: format!("corpus-import:{name}"),
        features: vec![format!("import-corpus:{name}")],
        labels: vec![Label { rule: rule.into(), class: class.into(), mutation: mutation.into() }],
        fault_files: fault_files.to_vec(),
        cli_layout: None,
    };
    vec![
        p(
            "local-fragment-named-like-an-imported-one",
            "5.5.1.1",
            "import/local-vs-imported",
            "duplicate-fragment-name-across-files",
            &[],
            &[
                ("/p/src/list.graphql", "#import ACard from \"./detail.graphql\"\nquery List { a { ...ACard } }\nfragment ACard on A { x }\n"),
                ("/p/src/detail.graphql", "query Detail { a { ...ACard } }\nfragment ACard on A { id x }\n"),
            ],
        ),
        p(
            "equally-named-fragments-from-two-files",
            "5.5.1.1",
            "import/imported-vs-imported",
            "duplicate-fragment-name-across-files",
            &[],
            &[
                ("/p/a.graphql", "#import * from \"./b.graphql\"\n#import FA from \"./sub/c.graphql\"\nquery Q { a { ...FA } }\n"),
                ("/p/b.graphql", "fragment FA on A { x }\n"),
                ("/p/sub/c.graphql", "query C { a { ...FA } }\nfragment FA on A { id }\n"),
            ],
        ),
        p(
            "unknown-field-in-an-imported-fragment",
            "5.3.1",
            "frag1",
            "rename-field",
            &[1],
            &[
                ("/p/a.graphql", "#import FA from \"./b.graphql\"\nquery Q { a { ...FA } }\n"),
                ("/p/b.graphql", "fragment FA on A { x nonexistent }\n"),
            ],
        ),
        p(
            "undefined-variable-in-a-transitively-imported-fragment",
            "5.8.3",
            "frag2",
            "undefined-variable",
            &[2],
            &[
                ("/p/a.graphql", "#import FQ from \"./b.graphql\"\nquery Q { ...FQ }\n"),
                ("/p/b.graphql", "#import FQ2 from \"./c.graphql\"\nfragment FQ on Query { ...FQ2 }\n"),
                ("/p/c.graphql", "fragment FQ2 on Query { f(n: $nope) }\n"),
            ],
        ),
        p(
            "incompatible-variable-in-an-imported-fragment",
            "5.8.5",
            "frag1",
            "incompatible-variable-type",
            &[],
            &[
                ("/p/page.graphql", "#import Posts from \"./frags.graphql\"\nquery Page($count: String) { ...Posts }\n"),
                ("/p/frags.graphql", "fragment Posts on Query { f(n: 1, l: [$count]) }\n"),
            ],
        ),
        p(
            "imported-fragment-spreads-unimported-sibling",
            "5.5.2.1",
            "import/imported-fragment-spreads-unimported-sibling",
            "drop-sibling-import",
            &[],
            &[
                ("/p/page.graphql", "#import FA from \"./frags.graphql\"\nquery Page { a { ...FA } }\n"),
                ("/p/frags.graphql", "fragment FA on A { x b { ...FB } }\nfragment FB on B { y }\n"),
            ],
        ),
    ]
}
