//! Mutation engine for C03: one labelled fault (rule it breaks + syntactic position class) injected into a
//! valid document. A typed walk over the `gm` document (independent of the checker and of the Lean spec)
//! enumerates the sites: selection sets and selections with their type in scope, directive lists with their
//! location, values with the type expected at their position.
use nvh::gen::*;
use nvh::gm::*;
use nvh::Rng;
use std::collections::{BTreeMap, BTreeSet};

#[derive(Clone, Debug, PartialEq, Eq)]
pub struct Label {
    pub rule: String,
    pub class: String,
    pub mutation: String,
}

pub struct Mutant {
    pub doc: Doc,
    pub label: Label,
}

// ------------------------------------------------------------------------------------------------
// schema view (generated schema + the built-ins the real pipeline adds)

pub struct Sch<'a> {
    pub m: &'a SchemaModel,
}

impl<'a> Sch<'a> {
    pub fn kind_of(&self, n: &str) -> Option<TypeKind> {
        self.m.kind_of(n)
    }
    pub fn field_def(&self, parent: &str, fname: &str) -> Option<FieldDef> {
        let t = self.m.type_def(parent)?;
        if !matches!(t.kind, TypeKind::Object | TypeKind::Interface | TypeKind::Union) {
            return None;
        }
        if fname == "__typename" {
            return Some(FieldDef { desc: None, name: "__typename".into(), pos: P::default(), args: vec![], ty: Ty::non_null(Ty::named("String")), dirs: vec![] });
        }
        t.fields.iter().find(|f| f.name == fname).cloned()
    }
    pub fn directive_def(&self, n: &str) -> Option<DirectiveDef> {
        let b = |name: &str, args: Vec<InputValueDef>, locs: &[&str]| DirectiveDef {
            desc: None,
            name: name.into(),
            name_pos: P::default(),
            args,
            repeatable: false,
            locations: locs.iter().map(|s| s.to_string()).collect(),
            pos: P::default(),
        };
        let iv = |n: &str, ty: Ty, d: Option<Val>| InputValueDef { desc: None, name: n.into(), pos: P::default(), ty, default: d, dirs: vec![] };
        match n {
            "skip" | "include" => Some(b(n, vec![iv("if", Ty::non_null(Ty::named("Boolean")), None)], &["FIELD", "FRAGMENT_SPREAD", "INLINE_FRAGMENT"])),
            "deprecated" => Some(b(
                n,
                vec![iv("reason", Ty::named("String"), Some(Val::Str("No longer supported".into(), P::default())))],
                &["FIELD_DEFINITION", "ARGUMENT_DEFINITION", "INPUT_FIELD_DEFINITION", "ENUM_VALUE"],
            )),
            _ => self.m.directive_defs().find(|d| d.name == n).cloned(),
        }
    }
}

// ------------------------------------------------------------------------------------------------
// addressing

#[derive(Clone, Debug)]
pub struct SelRef {
    pub def: usize,
    pub path: Vec<usize>,
}

#[derive(Clone, Debug)]
pub enum DirsRef {
    Op(usize),
    FragDef(usize),
    VarDef(usize, usize),
    Sel(SelRef),
}

#[derive(Clone, Debug)]
pub enum ValOwner {
    FieldArg(SelRef, usize),
    DirArg(DirsRef, usize, usize),
    VarDefault(usize, usize),
}

pub fn top_sels_mut(doc: &mut Doc, def: usize) -> &mut Vec<Sel> {
    match &mut doc.defs[def] {
        ExecDef::Op(o) => &mut o.sel,
        ExecDef::Frag(f) => &mut f.sel,
        ExecDef::Import(_) => panic!("import has no selection set"),
    }
}

/// the selection list reached by following `path` (each step: index of a selection, then its own selection list)
pub fn selset_mut<'a>(doc: &'a mut Doc, def: usize, path: &[usize]) -> &'a mut Vec<Sel> {
    let mut cur = top_sels_mut(doc, def);
    for &i in path {
        cur = match &mut cur[i] {
            Sel::Field { sel: Some(ss), .. } => ss,
            Sel::Inline { sel, .. } => sel,
            _ => panic!("path does not lead to a selection set"),
        };
    }
    cur
}

pub fn sel_mut<'a>(doc: &'a mut Doc, r: &SelRef) -> &'a mut Sel {
    let n = r.path.len();
    &mut selset_mut(doc, r.def, &r.path[..n - 1])[r.path[n - 1]]
}

pub fn dirs_mut<'a>(doc: &'a mut Doc, r: &DirsRef) -> &'a mut Vec<Dir> {
    match r {
        DirsRef::Op(d) => match &mut doc.defs[*d] {
            ExecDef::Op(o) => &mut o.dirs,
            _ => panic!(),
        },
        DirsRef::FragDef(d) => match &mut doc.defs[*d] {
            ExecDef::Frag(f) => &mut f.dirs,
            _ => panic!(),
        },
        DirsRef::VarDef(d, v) => match &mut doc.defs[*d] {
            ExecDef::Op(o) => &mut o.vars[*v].dirs,
            _ => panic!(),
        },
        DirsRef::Sel(s) => match sel_mut(doc, s) {
            Sel::Field { dirs, .. } | Sel::Spread { dirs, .. } | Sel::Inline { dirs, .. } => dirs,
        },
    }
}

pub fn val_mut<'a>(doc: &'a mut Doc, owner: &ValOwner, inner: &[usize]) -> &'a mut Val {
    let mut cur: &mut Val = match owner {
        ValOwner::FieldArg(s, a) => match sel_mut(doc, s) {
            Sel::Field { args, .. } => &mut args[*a].value,
            _ => panic!(),
        },
        ValOwner::DirArg(d, i, a) => &mut dirs_mut(doc, d)[*i].args[*a].value,
        ValOwner::VarDefault(d, v) => match &mut doc.defs[*d] {
            ExecDef::Op(o) => o.vars[*v].default.as_mut().unwrap(),
            _ => panic!(),
        },
    };
    for &i in inner {
        cur = match cur {
            Val::List(vs, _) => &mut vs[i],
            Val::Obj(fs, _) => &mut fs[i].value,
            _ => panic!("value path"),
        };
    }
    cur
}

// ------------------------------------------------------------------------------------------------
// sites

#[derive(Clone, Debug)]
pub struct SetSite {
    pub def: usize,
    pub path: Vec<usize>,
    pub parent: Option<String>,
    pub class: String,
}

#[derive(Clone, Debug)]
pub struct SelSite {
    pub r: SelRef,
    pub parent: Option<String>,
    pub class: String,
}

#[derive(Clone, Debug)]
pub struct DirSite {
    pub r: DirsRef,
    pub location: &'static str,
    pub class: String,
    pub def: usize,
}

#[derive(Clone, Debug)]
pub struct ValSite {
    pub owner: ValOwner,
    pub inner: Vec<usize>,
    pub ty: Ty,
    pub loc_default: bool,
    pub class: String,
    pub def: usize,
    pub pos: P,
}

#[derive(Default)]
pub struct Sites {
    pub sets: Vec<SetSite>,
    pub sels: Vec<SelSite>,
    pub dirs: Vec<DirSite>,
    pub vals: Vec<ValSite>,
    pub def_base: Vec<String>,
}

fn spreads_deep(sels: &[Sel], out: &mut BTreeSet<String>) {
    for s in sels {
        match s {
            Sel::Field { sel: Some(ss), .. } => spreads_deep(ss, out),
            Sel::Field { .. } => {}
            Sel::Spread { name, .. } => {
                out.insert(name.clone());
            }
            Sel::Inline { sel, .. } => spreads_deep(sel, out),
        }
    }
}

/// per definition: "op", "frag1" (spread directly by an operation), "frag2", "frag3+", "unspread-frag"
pub fn def_bases(doc: &Doc) -> Vec<String> {
    let mut depth: BTreeMap<String, usize> = BTreeMap::new();
    let mut frontier: BTreeSet<String> = BTreeSet::new();
    for d in &doc.defs {
        if let ExecDef::Op(o) = d {
            spreads_deep(&o.sel, &mut frontier);
        }
    }
    let mut k = 1;
    while !frontier.is_empty() && k < 64 {
        let mut next = BTreeSet::new();
        for n in &frontier {
            if depth.contains_key(n) {
                continue;
            }
            depth.insert(n.clone(), k);
            for d in &doc.defs {
                if let ExecDef::Frag(f) = d {
                    if &f.name == n {
                        spreads_deep(&f.sel, &mut next);
                    }
                }
            }
        }
        frontier = next.into_iter().filter(|n| !depth.contains_key(n)).collect();
        k += 1;
    }
    doc.defs
        .iter()
        .map(|d| match d {
            ExecDef::Op(_) => "op".to_string(),
            ExecDef::Frag(f) => match depth.get(&f.name) {
                None => "unspread-frag".to_string(),
                Some(1) => "frag1".to_string(),
                Some(2) => "frag2".to_string(),
                Some(_) => "frag3+".to_string(),
            },
            ExecDef::Import(_) => "import".to_string(),
        })
        .collect()
}

fn closure_from(doc: &Doc, sels: &[Sel]) -> BTreeSet<String> {
    let mut seen: BTreeSet<String> = BTreeSet::new();
    let mut frontier: BTreeSet<String> = BTreeSet::new();
    spreads_deep(sels, &mut frontier);
    while let Some(n) = frontier.iter().next().cloned() {
        frontier.remove(&n);
        if !seen.insert(n.clone()) {
            continue;
        }
        for d in &doc.defs {
            if let ExecDef::Frag(f) = d {
                if f.name == n {
                    let mut next = BTreeSet::new();
                    spreads_deep(&f.sel, &mut next);
                    frontier.extend(next.into_iter().filter(|x| !seen.contains(x)));
                }
            }
        }
    }
    seen
}

/// fragment name → indices of the operation definitions that reach it through spreads, in document order
pub fn reaching_ops(doc: &Doc) -> BTreeMap<String, Vec<usize>> {
    let mut out: BTreeMap<String, Vec<usize>> = BTreeMap::new();
    for (i, d) in doc.defs.iter().enumerate() {
        if let ExecDef::Op(o) = d {
            for n in closure_from(doc, &o.sel) {
                out.entry(n).or_default().push(i);
            }
        }
    }
    out
}

#[derive(Clone, Copy, Default)]
struct Mods {
    untyped_inline: bool,
    same_iface_inline: bool,
}

/// position class of something inside a selection set: the feature most likely to matter wins, so that the
/// class of a given defect is stable
fn class_of(base: &str, m: Mods, extra: &str) -> String {
    if base == "unspread-frag" {
        return base.to_string();
    }
    if m.same_iface_inline {
        return "same-interface-inline".to_string();
    }
    let mut s = base.to_string();
    if m.untyped_inline {
        s.push_str("+untyped-inline");
    }
    if !extra.is_empty() {
        s.push('/');
        s.push_str(extra);
    }
    s
}

fn container_tag(containers: &[char]) -> &'static str {
    // 'l' = list item, 'o' = input-object field
    let mut seen_list = false;
    let mut list_of_obj = false;
    for c in containers {
        if *c == 'l' {
            seen_list = true;
        }
        if *c == 'o' && seen_list {
            list_of_obj = true;
        }
    }
    if list_of_obj {
        "list-of-input-object"
    } else {
        match containers.last() {
            Some('o') => "input-field",
            Some('l') => "list-item",
            _ => "top",
        }
    }
}

fn strip_nn(t: &Ty) -> &Ty {
    match t {
        Ty::NonNull(i) => strip_nn(i),
        t => t,
    }
}

struct Walker<'a> {
    sch: &'a Sch<'a>,
    out: Sites,
}

impl<'a> Walker<'a> {
    #[allow(clippy::too_many_arguments)]
    fn values(&mut self, v: &Val, ty: &Ty, loc_default: bool, owner: &ValOwner, inner: &mut Vec<usize>, containers: &mut Vec<char>, def: usize, base: &str, mods: Mods, kind: &str) {
        let pos = match v {
            Val::Var(_, p) | Val::Int(_, p) | Val::Float(_, p) | Val::Str(_, p) | Val::Bool(_, p) | Val::Null(p) | Val::Enum(_, p) | Val::List(_, p) | Val::Obj(_, p) => *p,
        };
        let extra = format!("{}:{}", kind, container_tag(containers));
        let class = if kind == "var-default" { "var-default".to_string() } else { class_of(base, mods, &extra) };
        self.out.vals.push(ValSite { owner: owner.clone(), inner: inner.clone(), ty: ty.clone(), loc_default, class, def, pos });
        match v {
            Val::List(vs, _) => {
                if let Ty::List(item, _) = strip_nn(ty) {
                    for (i, x) in vs.iter().enumerate() {
                        inner.push(i);
                        containers.push('l');
                        self.values(x, item, false, owner, inner, containers, def, base, mods, kind);
                        containers.pop();
                        inner.pop();
                    }
                }
            }
            Val::Obj(fs, _) => {
                if let Some(t) = self.sch.m.type_def(ty.unwrapped()) {
                    if t.kind == TypeKind::Input {
                        for (i, f) in fs.iter().enumerate() {
                            if let Some(d) = t.inputs.iter().find(|d| d.name == f.name) {
                                inner.push(i);
                                containers.push('o');
                                self.values(&f.value, &d.ty, d.default.is_some(), owner, inner, containers, def, base, mods, kind);
                                containers.pop();
                                inner.pop();
                            }
                        }
                    }
                }
            }
            _ => {}
        }
    }

    fn dir_list(&mut self, dirs: &[Dir], r: DirsRef, location: &'static str, def: usize, base: &str, mods: Mods) {
        let class = class_of(base, mods, &format!("dir@{location}"));
        self.out.dirs.push(DirSite { r: r.clone(), location, class, def });
        for (i, d) in dirs.iter().enumerate() {
            if let Some(dd) = self.sch.directive_def(&d.name) {
                for (a, arg) in d.args.iter().enumerate() {
                    if let Some(ad) = dd.args.iter().find(|x| x.name == arg.name) {
                        let owner = ValOwner::DirArg(r.clone(), i, a);
                        let kind = format!("directive-arg@{location}");
                        self.values(&arg.value, &ad.ty, ad.default.is_some(), &owner, &mut vec![], &mut vec![], def, base, mods, &kind);
                    }
                }
            }
        }
    }

    fn set(&mut self, sels: &[Sel], def: usize, path: &mut Vec<usize>, parent: Option<String>, base: &str, mods: Mods) {
        self.out.sets.push(SetSite { def, path: path.clone(), parent: parent.clone(), class: class_of(base, mods, "") });
        for (i, s) in sels.iter().enumerate() {
            path.push(i);
            let r = SelRef { def, path: path.clone() };
            self.out.sels.push(SelSite { r: r.clone(), parent: parent.clone(), class: class_of(base, mods, "") });
            match s {
                Sel::Field { name, args, dirs, sel, .. } => {
                    self.dir_list(dirs, DirsRef::Sel(r.clone()), "FIELD", def, base, mods);
                    let fd = parent.as_ref().and_then(|p| self.sch.field_def(p, name));
                    if let Some(fd) = &fd {
                        for (a, arg) in args.iter().enumerate() {
                            if let Some(ad) = fd.args.iter().find(|x| x.name == arg.name) {
                                let owner = ValOwner::FieldArg(r.clone(), a);
                                self.values(&arg.value, &ad.ty, ad.default.is_some(), &owner, &mut vec![], &mut vec![], def, base, mods, "arg");
                            }
                        }
                    }
                    if let Some(ss) = sel {
                        let p = fd.map(|f| f.ty.unwrapped().to_string());
                        self.set(ss, def, path, p, base, mods);
                    }
                }
                Sel::Spread { dirs, .. } => {
                    self.dir_list(dirs, DirsRef::Sel(r.clone()), "FRAGMENT_SPREAD", def, base, mods);
                }
                Sel::Inline { cond, dirs, sel, .. } => {
                    self.dir_list(dirs, DirsRef::Sel(r.clone()), "INLINE_FRAGMENT", def, base, mods);
                    let mut m2 = mods;
                    let p = match cond {
                        None => {
                            m2.untyped_inline = true;
                            parent.clone()
                        }
                        Some((c, _)) => {
                            if parent.as_deref() == Some(c.as_str()) && self.sch.kind_of(c) == Some(TypeKind::Interface) {
                                m2.same_iface_inline = true;
                            }
                            Some(c.clone())
                        }
                    };
                    self.set(sel, def, path, p, base, m2);
                }
            }
            path.pop();
        }
    }
}

pub fn collect_sites(sch: &Sch, doc: &Doc) -> Sites {
    let bases = def_bases(doc);
    let mut w = Walker { sch, out: Sites::default() };
    for (di, d) in doc.defs.iter().enumerate() {
        let base = bases[di].clone();
        match d {
            ExecDef::Op(o) => {
                let loc = match o.kind {
                    OpKind::Query => "QUERY",
                    OpKind::Mutation => "MUTATION",
                    OpKind::Subscription => "SUBSCRIPTION",
                };
                w.dir_list(&o.dirs, DirsRef::Op(di), loc, di, &base, Mods::default());
                for (vi, v) in o.vars.iter().enumerate() {
                    w.dir_list(&v.dirs, DirsRef::VarDef(di, vi), "VARIABLE_DEFINITION", di, &base, Mods::default());
                    if let Some(dv) = &v.default {
                        let owner = ValOwner::VarDefault(di, vi);
                        w.values(dv, &v.ty, false, &owner, &mut vec![], &mut vec![], di, &base, Mods::default(), "var-default");
                    }
                }
                let root = sch.m.root(o.kind).map(|s| s.to_string());
                w.set(&o.sel, di, &mut vec![], root, &base, Mods::default());
            }
            ExecDef::Frag(f) => {
                w.dir_list(&f.dirs, DirsRef::FragDef(di), "FRAGMENT_DEFINITION", di, &base, Mods::default());
                w.set(&f.sel, di, &mut vec![], Some(f.cond.clone()), &base, Mods::default());
            }
            ExecDef::Import(_) => {}
        }
    }
    w.out.def_base = bases;
    w.out
}

// ------------------------------------------------------------------------------------------------
// mutations

pub struct MCtx<'a> {
    pub rng: &'a mut Rng,
    pub sch: &'a Sch<'a>,
    pub doc: &'a Doc,
    pub sites: &'a Sites,
    /// restrict site choice to one definition (used for the "unspread fragment" position class)
    pub only_def: Option<usize>,
}

fn pick<T: Clone>(rng: &mut Rng, xs: &[T]) -> Option<T> {
    if xs.is_empty() {
        None
    } else {
        Some(xs[rng.below(xs.len())].clone())
    }
}

fn p0() -> P {
    P::default()
}

fn is_leaf_literal(v: &Val) -> bool {
    matches!(v, Val::Int(..) | Val::Float(..) | Val::Str(..) | Val::Bool(..) | Val::Enum(..))
}

impl<'a> MCtx<'a> {
    fn ok_def(&self, d: usize) -> bool {
        self.only_def.map_or(true, |x| x == d)
    }
    fn label(&self, rule: &str, class: &str, mutation: &str) -> Label {
        Label { rule: rule.into(), class: class.into(), mutation: mutation.into() }
    }
    fn get_sel(&self, r: &SelRef) -> Sel {
        let mut d = self.doc.clone();
        sel_mut(&mut d, r).clone()
    }
    fn get_val(&self, s: &ValSite) -> Val {
        let mut d = self.doc.clone();
        val_mut(&mut d, &s.owner, &s.inner).clone()
    }

    // ---- selections ----
    pub fn rename_field(&mut self) -> Option<Mutant> {
        let c: Vec<SelSite> = self.sites.sels.iter().filter(|s| self.ok_def(s.r.def) && s.parent.is_some() && matches!(self.get_sel(&s.r), Sel::Field { .. })).cloned().collect();
        let s = pick(self.rng, &c)?;
        let mut doc = self.doc.clone();
        if let Sel::Field { name, .. } = sel_mut(&mut doc, &s.r) {
            *name = "nonexistent_zz".into();
        }
        Some(Mutant { doc, label: self.label("5.3.1", &s.class, "rename-field") })
    }
    pub fn subselection_on_leaf(&mut self) -> Option<Mutant> {
        let c: Vec<SelSite> = self
            .sites
            .sels
            .iter()
            .filter(|s| {
                self.ok_def(s.r.def)
                    && match (&s.parent, self.get_sel(&s.r)) {
                        (Some(p), Sel::Field { name, sel: None, .. }) => {
                            self.sch.field_def(p, &name).map_or(false, |f| matches!(self.sch.kind_of(f.ty.unwrapped()), Some(TypeKind::Scalar | TypeKind::Enum)))
                        }
                        _ => false,
                    }
            })
            .cloned()
            .collect();
        let s = pick(self.rng, &c)?;
        let mut doc = self.doc.clone();
        if let Sel::Field { sel, .. } = sel_mut(&mut doc, &s.r) {
            *sel = Some(vec![Sel::field("__typename")]);
        }
        Some(Mutant { doc, label: self.label("5.3.3", &s.class, "subselection-on-leaf") })
    }
    pub fn drop_subselection(&mut self) -> Option<Mutant> {
        let c: Vec<SelSite> = self
            .sites
            .sels
            .iter()
            .filter(|s| {
                self.ok_def(s.r.def)
                    && match (&s.parent, self.get_sel(&s.r)) {
                        (Some(p), Sel::Field { name, sel: Some(_), .. }) => self.sch.field_def(p, &name).map_or(false, |f| self.sch.m.is_composite(f.ty.unwrapped())),
                        _ => false,
                    }
            })
            .cloned()
            .collect();
        let s = pick(self.rng, &c)?;
        let mut doc = self.doc.clone();
        if let Sel::Field { sel, .. } = sel_mut(&mut doc, &s.r) {
            *sel = None;
        }
        Some(Mutant { doc, label: self.label("5.3.3", &s.class, "drop-subselection") })
    }
    pub fn unknown_argument(&mut self) -> Option<Mutant> {
        let c: Vec<SelSite> = self
            .sites
            .sels
            .iter()
            .filter(|s| {
                self.ok_def(s.r.def)
                    && match (&s.parent, self.get_sel(&s.r)) {
                        (Some(p), Sel::Field { name, .. }) => self.sch.field_def(p, &name).is_some(),
                        _ => false,
                    }
            })
            .cloned()
            .collect();
        let s = pick(self.rng, &c)?;
        let mut doc = self.doc.clone();
        if let Sel::Field { args, .. } = sel_mut(&mut doc, &s.r) {
            let at = self.rng.below(args.len() + 1);
            args.insert(at, Arg::new("zz_unknown", Val::Int("1".into(), p0())));
        }
        Some(Mutant { doc, label: self.label("5.4.1", &format!("{}/field-arg", s.class), "unknown-argument") })
    }
    pub fn unknown_directive_argument(&mut self) -> Option<Mutant> {
        let mut c = vec![];
        for s in self.sites.dirs.iter().filter(|s| self.ok_def(s.def)) {
            let mut d = self.doc.clone();
            for (i, dir) in dirs_mut(&mut d, &s.r).iter().enumerate() {
                if self.sch.directive_def(&dir.name).is_some() {
                    c.push((s.clone(), i));
                }
            }
        }
        let (s, i) = pick(self.rng, &c)?;
        let mut doc = self.doc.clone();
        dirs_mut(&mut doc, &s.r)[i].args.push(Arg::new("zz_unknown", Val::Int("1".into(), p0())));
        Some(Mutant { doc, label: self.label("5.4.1", &format!("{}/directive-arg", s.class), "unknown-directive-argument") })
    }
    /// a second argument with the name of an existing one and a value of the wrong type: the value violates
    /// 5.6.1 (and the repetition 5.4.2)
    pub fn duplicate_argument_wrong_value(&mut self) -> Option<Mutant> {
        let mut c = vec![];
        for s in self.sites.sels.iter().filter(|s| self.ok_def(s.r.def)) {
            if let (Some(p), Sel::Field { name, args, .. }) = (&s.parent, self.get_sel(&s.r)) {
                if let Some(fd) = self.sch.field_def(p, &name) {
                    for (i, a) in args.iter().enumerate() {
                        if let Some(d) = fd.args.iter().find(|d| d.name == a.name) {
                            if BUILTIN_SCALARS.contains(&d.ty.unwrapped()) {
                                c.push((s.clone(), i, d.ty.unwrapped().to_string()));
                            }
                        }
                    }
                }
            }
        }
        let (s, i, tyname) = pick(self.rng, &c)?;
        let wrong = match tyname.as_str() {
            "Boolean" => Val::Int("1".into(), p0()),
            "Int" | "Float" => Val::Str("wrong".into(), p0()),
            "String" => Val::Int("1".into(), p0()),
            _ => Val::Bool(true, p0()),
        };
        let mut doc = self.doc.clone();
        if let Sel::Field { args, .. } = sel_mut(&mut doc, &s.r) {
            let name = args[i].name.clone();
            args.push(Arg::new(&name, wrong));
        }
        Some(Mutant { doc, label: self.label("5.4.2", &format!("{}/repeated-argument", s.class), "duplicate-argument-wrong-value") })
    }
    pub fn drop_required_argument(&mut self) -> Option<Mutant> {
        let mut c = vec![];
        for s in self.sites.sels.iter().filter(|s| self.ok_def(s.r.def)) {
            if let (Some(p), Sel::Field { name, args, .. }) = (&s.parent, self.get_sel(&s.r)) {
                if let Some(fd) = self.sch.field_def(p, &name) {
                    for (i, a) in args.iter().enumerate() {
                        if fd.args.iter().any(|d| d.name == a.name && d.ty.is_non_null() && d.default.is_none()) {
                            c.push((s.clone(), i));
                        }
                    }
                }
            }
        }
        let (s, i) = pick(self.rng, &c)?;
        let mut doc = self.doc.clone();
        if let Sel::Field { args, .. } = sel_mut(&mut doc, &s.r) {
            args.remove(i);
        }
        Some(Mutant { doc, label: self.label("5.4.2.1", &format!("{}/field-arg", s.class), "drop-required-argument") })
    }
    pub fn drop_required_directive_argument(&mut self) -> Option<Mutant> {
        let mut c = vec![];
        for s in self.sites.dirs.iter().filter(|s| self.ok_def(s.def)) {
            let mut d = self.doc.clone();
            for (i, dir) in dirs_mut(&mut d, &s.r).iter().enumerate() {
                if let Some(dd) = self.sch.directive_def(&dir.name) {
                    for (ai, a) in dir.args.iter().enumerate() {
                        if dd.args.iter().any(|x| x.name == a.name && x.ty.is_non_null() && x.default.is_none()) {
                            c.push((s.clone(), i, ai));
                        }
                    }
                }
            }
        }
        let (s, i, ai) = pick(self.rng, &c)?;
        let mut doc = self.doc.clone();
        dirs_mut(&mut doc, &s.r)[i].args.remove(ai);
        Some(Mutant { doc, label: self.label("5.4.2.1", &format!("{}/directive-arg", s.class), "drop-required-directive-argument") })
    }

    // ---- values ----
    fn val_sites(&self, f: impl Fn(&ValSite, &Val) -> bool) -> Vec<ValSite> {
        self.sites.vals.iter().filter(|s| self.ok_def(s.def) && f(s, &self.get_val(s))).cloned().collect()
    }
    pub fn wrong_literal(&mut self) -> Option<Mutant> {
        let sch = self.sch;
        let c = self.val_sites(|s, v| {
            (is_leaf_literal(v) || matches!(v, Val::Obj(..)))
                && match sch.kind_of(s.ty.unwrapped()) {
                    Some(TypeKind::Scalar) => BUILTIN_SCALARS.contains(&s.ty.unwrapped()),
                    Some(TypeKind::Enum) | Some(TypeKind::Input) => true,
                    _ => false,
                }
        });
        let s = pick(self.rng, &c)?;
        let k = self.rng.below(4);
        let wrong = match s.ty.unwrapped() {
            "Boolean" => [Val::Int("1".into(), p0()), Val::Int("0".into(), p0()), Val::Str("true".into(), p0()), Val::Float("1.0".into(), p0())][k].clone(),
            // a Float literal is no Int, whatever its value (spec 3.5.1)
            "Int" => [Val::Str("wrong".into(), p0()), Val::Float("1.0".into(), p0()), Val::Float("2e3".into(), p0()), Val::Float("-0.0".into(), p0())][k].clone(),
            "Float" => [Val::Str("wrong".into(), p0()), Val::Str("1.5".into(), p0()), Val::Bool(true, p0()), Val::Str("1e3".into(), p0())][k].clone(),
            "String" => [Val::Int("1".into(), p0()), Val::Float("1.5".into(), p0()), Val::Bool(false, p0()), Val::Int("-0".into(), p0())][k].clone(),
            // ID takes strings and integer literals, not Float literals (spec 3.5.5)
            "ID" => [Val::Bool(true, p0()), Val::Float("1.5".into(), p0()), Val::Float("1e3".into(), p0()), Val::Float("4294967296.0".into(), p0())][k].clone(),
            n if self.sch.kind_of(n) == Some(TypeKind::Enum) => Val::Str("x".into(), p0()),
            _ => Val::Int("1".into(), p0()),
        };
        let mut doc = self.doc.clone();
        *val_mut(&mut doc, &s.owner, &s.inner) = wrong;
        Some(Mutant { doc, label: self.label("5.6.1", &s.class, "wrong-literal-type") })
    }
    /// an integer literal outside the signed 32-bit range where `Int` is expected (spec 3.5.1 input coercion inside
    /// 5.6.1 — `Valid.leafCoercible` requires the range since fix e3584a3, so this is an ordinary 5.6.1 fault the real
    /// checker must report as TypeMismatch): argument of a field or directive, input field, list item, single value
    /// for a list, variable default. Class = the site's class + `/int32`.
    pub fn int_literal_outside_32_bit_range(&mut self) -> Option<Mutant> {
        let c = self.val_sites(|s, v| s.ty.unwrapped() == "Int" && (is_leaf_literal(v) || matches!(v, Val::Null(_))));
        let s = pick(self.rng, &c)?;
        let text = OUT_OF_INT32[self.rng.below(OUT_OF_INT32.len())];
        let mut doc = self.doc.clone();
        *val_mut(&mut doc, &s.owner, &s.inner) = Val::Int(text.into(), p0());
        Some(Mutant { doc, label: self.label("5.6.1", &format!("{}/int32", s.class), "int-literal-outside-32-bit-range") })
    }
    pub fn bad_enum_member(&mut self) -> Option<Mutant> {
        let sch = self.sch;
        let c = self.val_sites(|s, v| matches!(v, Val::Enum(..)) && sch.kind_of(s.ty.unwrapped()) == Some(TypeKind::Enum));
        let s = pick(self.rng, &c)?;
        let mut doc = self.doc.clone();
        *val_mut(&mut doc, &s.owner, &s.inner) = Val::Enum("ZZ_NOT_A_MEMBER".into(), p0());
        Some(Mutant { doc, label: self.label("5.6.1", &format!("{}/enum", s.class), "bad-enum-member") })
    }
    fn obj_sites(&self) -> Vec<ValSite> {
        let sch = self.sch;
        self.val_sites(|s, v| matches!(v, Val::Obj(..)) && sch.kind_of(s.ty.unwrapped()) == Some(TypeKind::Input))
    }
    pub fn unknown_input_field(&mut self) -> Option<Mutant> {
        let s = pick(self.rng, &self.obj_sites())?;
        let mut doc = self.doc.clone();
        let mut omitted = false;
        if let Val::Obj(fs, _) = val_mut(&mut doc, &s.owner, &s.inner) {
            if let Some(t) = self.sch.m.type_def(s.ty.unwrapped()) {
                omitted = t.inputs.iter().any(|d| !fs.iter().any(|f| f.name == d.name));
            }
            let at = self.rng.below(fs.len() + 1);
            fs.insert(at, Arg::new("zz_unknown", Val::Int("1".into(), p0())));
        }
        let class = format!("{}/{}", s.class, if omitted { "optional-field-omitted" } else { "all-fields-given" });
        Some(Mutant { doc, label: self.label("5.6.2", &class, "unknown-input-field") })
    }
    pub fn duplicate_input_field(&mut self) -> Option<Mutant> {
        let c: Vec<ValSite> = self.obj_sites().into_iter().filter(|s| matches!(self.get_val(s), Val::Obj(fs, _) if !fs.is_empty())).collect();
        let s = pick(self.rng, &c)?;
        let mut doc = self.doc.clone();
        let mut omitted = false;
        if let Val::Obj(fs, _) = val_mut(&mut doc, &s.owner, &s.inner) {
            if let Some(t) = self.sch.m.type_def(s.ty.unwrapped()) {
                omitted = t.inputs.iter().any(|d| !fs.iter().any(|f| f.name == d.name));
            }
            let i = self.rng.below(fs.len());
            let f = fs[i].clone();
            fs.push(f);
        }
        let class = format!("{}/{}", s.class, if omitted { "optional-field-omitted" } else { "all-fields-given" });
        Some(Mutant { doc, label: self.label("5.6.3", &class, "duplicate-input-field") })
    }
    pub fn missing_input_field(&mut self) -> Option<Mutant> {
        let mut c = vec![];
        for s in self.obj_sites() {
            if let (Val::Obj(fs, _), Some(t)) = (self.get_val(&s), self.sch.m.type_def(s.ty.unwrapped())) {
                for (i, f) in fs.iter().enumerate() {
                    if t.inputs.iter().any(|d| d.name == f.name && d.ty.is_non_null() && d.default.is_none()) {
                        c.push((s.clone(), i));
                    }
                }
            }
        }
        let (s, i) = pick(self.rng, &c)?;
        let mut doc = self.doc.clone();
        if let Val::Obj(fs, _) = val_mut(&mut doc, &s.owner, &s.inner) {
            fs.remove(i);
        }
        Some(Mutant { doc, label: self.label("5.6.4", &s.class, "missing-input-field") })
    }

    // ---- variables ----
    fn op_defs(&self) -> Vec<usize> {
        self.doc.defs.iter().enumerate().filter(|(i, d)| matches!(d, ExecDef::Op(_)) && self.ok_def(*i)).map(|(i, _)| i).collect()
    }
    pub fn duplicate_variable(&mut self) -> Option<Mutant> {
        let c: Vec<usize> = self.op_defs().into_iter().filter(|i| matches!(&self.doc.defs[*i], ExecDef::Op(o) if !o.vars.is_empty())).collect();
        let d = pick(self.rng, &c)?;
        let mut doc = self.doc.clone();
        if let ExecDef::Op(o) = &mut doc.defs[d] {
            let i = self.rng.below(o.vars.len());
            let v = o.vars[i].clone();
            o.vars.push(v);
        }
        Some(Mutant { doc, label: self.label("5.8.1", "variable-definition", "duplicate-variable") })
    }
    pub fn variable_of_output_type(&mut self) -> Option<Mutant> {
        let d = pick(self.rng, &self.op_defs())?;
        let mut outs: Vec<String> = self.sch.m.names_of_kind(TypeKind::Object);
        outs.extend(self.sch.m.names_of_kind(TypeKind::Interface));
        outs.extend(self.sch.m.names_of_kind(TypeKind::Union));
        let unknown = self.rng.chance(1, 3);
        let tname = if unknown { "NopeType_zz".to_string() } else { pick(self.rng, &outs)? };
        let mut ty = Ty::named(&tname);
        let shape = self.rng.below(3);
        if shape == 1 {
            ty = Ty::non_null(ty);
        } else if shape == 2 {
            ty = Ty::list(Ty::non_null(ty));
        }
        let mut doc = self.doc.clone();
        if let ExecDef::Op(o) = &mut doc.defs[d] {
            o.vars.push(VarDef { name: "zz_bad".into(), pos: p0(), ty, default: None, dirs: vec![] });
        }
        let class = format!("variable-definition/{}/{}", if unknown { "unknown-type" } else { "output-type" }, ["named", "non-null", "list"][shape]);
        Some(Mutant { doc, label: self.label("5.8.2", &class, "variable-of-output-type") })
    }
    pub fn undefined_variable(&mut self) -> Option<Mutant> {
        let c = self.val_sites(|s, v| !matches!(s.owner, ValOwner::VarDefault(..)) && (is_leaf_literal(v) || matches!(v, Val::Null(_))));
        let s = pick(self.rng, &c)?;
        let mut doc = self.doc.clone();
        *val_mut(&mut doc, &s.owner, &s.inner) = Val::Var("undefined_zz".into(), p0());
        Some(Mutant { doc, label: self.label("5.8.3", &s.class, "undefined-variable") })
    }
    fn var_use_sites(&self) -> Vec<(ValSite, String)> {
        let mut out = vec![];
        for s in self.sites.vals.iter().filter(|s| self.ok_def(s.def)) {
            if let Val::Var(n, _) = self.get_val(s) {
                out.push((s.clone(), n));
            }
        }
        out
    }
    pub fn incompatible_variable(&mut self) -> Option<Mutant> {
        let (s, n) = pick(self.rng, &self.var_use_sites())?;
        let mut doc = self.doc.clone();
        let mut changed = false;
        for d in doc.defs.iter_mut() {
            if let ExecDef::Op(o) = d {
                for v in o.vars.iter_mut().filter(|v| v.name == n) {
                    v.ty = Ty::list(v.ty.clone());
                    v.default = None;
                    changed = true;
                }
            }
        }
        if !changed {
            return None;
        }
        Some(Mutant { doc, label: self.label("5.8.5", &s.class, "incompatible-variable-type") })
    }
    pub fn nullable_variable_at_nonnull(&mut self) -> Option<Mutant> {
        let c: Vec<(ValSite, String)> = self.var_use_sites().into_iter().filter(|(s, _)| s.ty.is_non_null() && !s.loc_default).collect();
        let (s, n) = pick(self.rng, &c)?;
        let mut doc = self.doc.clone();
        let mut changed = false;
        for d in doc.defs.iter_mut() {
            if let ExecDef::Op(o) = d {
                for v in o.vars.iter_mut().filter(|v| v.name == n) {
                    if let Ty::NonNull(inner) = v.ty.clone() {
                        v.ty = *inner;
                        v.default = None;
                        changed = true;
                    }
                }
            }
        }
        if !changed {
            return None;
        }
        Some(Mutant { doc, label: self.label("5.8.5", &format!("{}/nullable-at-non-null", s.class), "nullable-variable-at-non-null") })
    }

    // ---- 5.8.5 variants that INTRODUCE a variable at a typed value position (argument, directive argument,
    //      input-object field, list item — the position class records which) ----

    /// replace the value at `site` by `$zz_v` and declare `$zz_v: ty (= default)` in every operation
    fn introduce_var(&mut self, s: &ValSite, ty: Ty, default: Option<Val>, variant: &str, mutation: &str) -> Option<Mutant> {
        let mut doc = self.doc.clone();
        *val_mut(&mut doc, &s.owner, &s.inner) = Val::Var("zz_v".into(), p0());
        let mut any = false;
        for d in doc.defs.iter_mut() {
            if let ExecDef::Op(o) = d {
                o.vars.push(VarDef { name: "zz_v".into(), pos: p0(), ty: ty.clone(), default: default.clone(), dirs: vec![] });
                any = true;
            }
        }
        if !any {
            return None;
        }
        Some(Mutant { doc, label: self.label("5.8.5", &format!("{}/{}", s.class, variant), mutation) })
    }
    /// value positions (not inside a variable default, not already a variable) matching `f`
    fn plain_sites(&self, f: impl Fn(&ValSite) -> bool) -> Vec<ValSite> {
        self.val_sites(|s, v| !matches!(s.owner, ValOwner::VarDefault(..)) && !matches!(v, Val::Var(..)) && f(s))
    }
    /// (a) `$zz_v: T = null` at a `T!` position that has no default of its own
    pub fn null_default_at_non_null(&mut self) -> Option<Mutant> {
        let c = self.plain_sites(|s| s.ty.is_non_null() && !s.loc_default);
        let s = pick(self.rng, &c)?;
        let Ty::NonNull(inner) = strip_ty(&s.ty) else { return None };
        self.introduce_var(&s, *inner, Some(Val::Null(p0())), "null-default-at-non-null", "null-default-at-non-null")
    }
    /// (c) `$zz_v: T` (no default anywhere) at a `T!` position
    pub fn nullable_no_default_at_non_null(&mut self) -> Option<Mutant> {
        let c = self.plain_sites(|s| s.ty.is_non_null() && !s.loc_default);
        let s = pick(self.rng, &c)?;
        let Ty::NonNull(inner) = strip_ty(&s.ty) else { return None };
        self.introduce_var(&s, *inner, None, "nullable-no-default-at-non-null", "nullable-no-default-at-non-null")
    }
    /// (b) remove the default of a nullable variable that is used at a non-null position without location default
    pub fn remove_needed_default(&mut self) -> Option<Mutant> {
        let mut c = vec![];
        for (s, n) in self.var_use_sites() {
            if !s.ty.is_non_null() || s.loc_default {
                continue;
            }
            let needs = self.doc.defs.iter().any(|d| matches!(d, ExecDef::Op(o) if o.vars.iter().any(|v| v.name == n && !v.ty.is_non_null() && v.default.is_some())));
            if needs {
                c.push((s, n));
            }
        }
        let (s, n) = pick(self.rng, &c)?;
        let mut doc = self.doc.clone();
        let to_null = self.rng.coin();
        for d in doc.defs.iter_mut() {
            if let ExecDef::Op(o) = d {
                for v in o.vars.iter_mut().filter(|v| v.name == n && !v.ty.is_non_null()) {
                    v.default = if to_null { Some(Val::Null(p0())) } else { None };
                }
            }
        }
        let variant = if to_null { "needed-default-replaced-by-null" } else { "needed-default-removed" };
        Some(Mutant { doc, label: self.label("5.8.5", &format!("{}/{}", s.class, variant), "remove-needed-default") })
    }
    /// (d) `[Int]` variable at an `[Int!]` position (inner nullability), one list level too many / too few
    pub fn list_shape_mismatch(&mut self) -> Option<Mutant> {
        fn weaken_inner(t: &Ty, under_list: bool) -> Option<Ty> {
            match t {
                Ty::NonNull(i) if under_list => Some((**i).clone()),
                Ty::NonNull(i) => weaken_inner(i, under_list).map(Ty::non_null),
                Ty::List(i, _) => weaken_inner(i, true).map(Ty::list),
                Ty::Named(..) => None,
            }
        }
        let how = self.rng.below(3);
        let c = self.plain_sites(|s| match how {
            0 => weaken_inner(&strip_ty(&s.ty), false).is_some(),
            2 => matches!(strip_nn(&s.ty), Ty::List(..)),
            _ => true,
        });
        let s = pick(self.rng, &c)?;
        let loc = strip_ty(&s.ty);
        let (ty, variant) = match how {
            0 => (weaken_inner(&loc, false)?, "nullable-item-at-non-null-item"),
            1 => (if loc.is_non_null() { Ty::non_null(Ty::list(loc.clone())) } else { Ty::list(loc.clone()) }, "one-list-level-too-many"),
            _ => {
                let Ty::List(item, _) = strip_nn(&loc).clone() else { return None };
                let item = match *item {
                    Ty::NonNull(i) => *i,
                    t => t,
                };
                (if loc.is_non_null() { Ty::non_null(item) } else { item }, "one-list-level-too-few")
            }
        };
        self.introduce_var(&s, ty, None, variant, "list-shape-mismatch")
    }

    // ---- faults whose visibility depends on WHICH operation reaches a shared fragment ----
    //      A literal inside a fragment that ≥ 2 operations reach is replaced by `$zz_v`; every reaching operation but
    //      one declares `$zz_v` with the type of the position, the remaining one does not declare it (5.8.3) or
    //      declares it with an incompatible type (5.8.5). The class records whether the faulty operation is the
    //      first (document order) or a later one among those that reach the fragment.

    /// plain value sites inside fragment definitions reached by ≥ 2 operations, with the reaching operations
    fn shared_fragment_sites(&self) -> Vec<(ValSite, Vec<usize>)> {
        let reach = reaching_ops(self.doc);
        let mut out = vec![];
        for s in self.plain_sites(|_| true) {
            if let ExecDef::Frag(f) = &self.doc.defs[s.def] {
                if let Some(ops) = reach.get(&f.name) {
                    if ops.len() >= 2 {
                        out.push((s, ops.clone()));
                    }
                }
            }
        }
        out
    }
    fn one_operation_fault(&mut self, incompatible: bool) -> Option<Mutant> {
        let c = self.shared_fragment_sites();
        let (s, ops) = pick(self.rng, &c)?;
        // the first reaching operation is the least interesting choice: take a later one two times out of three
        let k = if self.rng.chance(1, 3) { 0 } else { 1 + self.rng.below(ops.len() - 1) };
        let good = strip_ty(&s.ty);
        let (bad, variant): (Option<Ty>, &str) = if !incompatible {
            (None, "undefined")
        } else if s.ty.is_non_null() && !s.loc_default && self.rng.coin() {
            let Ty::NonNull(inner) = good.clone() else { return None };
            (Some(*inner), "nullable")
        } else {
            (Some(Ty::list(good.clone())), "list-of")
        };
        let mut doc = self.doc.clone();
        *val_mut(&mut doc, &s.owner, &s.inner) = Val::Var("zz_v".into(), p0());
        for (j, &oi) in ops.iter().enumerate() {
            if let ExecDef::Op(o) = &mut doc.defs[oi] {
                let ty = if j == k {
                    match &bad {
                        None => continue,
                        Some(t) => t.clone(),
                    }
                } else {
                    good.clone()
                };
                let at = self.rng.below(o.vars.len() + 1);
                o.vars.insert(at, VarDef { name: "zz_v".into(), pos: p0(), ty, default: None, dirs: vec![] });
            }
        }
        let rank = if k == 0 { "first" } else { "later" };
        let (rule, mutation) = if incompatible { ("5.8.5", "incompatible-variable-in-one-operation") } else { ("5.8.3", "undefined-variable-in-one-operation") };
        // the class names WHICH operation is at fault, not the site: the site (`s.class`) does not matter for this kind of fault
        let base = s.class.split(|c| c == '/' || c == '+').next().unwrap_or("frag").to_string();
        Some(Mutant { doc, label: self.label(rule, &format!("shared-{}/{}-in-{}-reaching-operation", base, variant, rank), mutation) })
    }
    pub fn undefined_variable_in_one_operation(&mut self) -> Option<Mutant> {
        self.one_operation_fault(false)
    }
    pub fn incompatible_variable_in_one_operation(&mut self) -> Option<Mutant> {
        self.one_operation_fault(true)
    }

    // ---- document level ----
    pub fn duplicate_operation_name(&mut self) -> Option<Mutant> {
        let named: Vec<usize> = self.doc.defs.iter().enumerate().filter(|(_, d)| matches!(d, ExecDef::Op(o) if o.name.is_some())).map(|(i, _)| i).collect();
        let mut doc = self.doc.clone();
        if named.len() >= 2 && self.rng.coin() {
            let n = match &doc.defs[named[0]] {
                ExecDef::Op(o) => o.name.clone(),
                _ => None,
            };
            if let ExecDef::Op(o) = &mut doc.defs[named[1]] {
                o.name = n;
            }
        } else {
            let i = pick(self.rng, &named)?;
            let c = doc.defs[i].clone();
            let at = self.rng.below(doc.defs.len() + 1);
            doc.defs.insert(at, c);
        }
        Some(Mutant { doc, label: self.label("5.2.1.1", "document", "duplicate-operation-name") })
    }
    pub fn second_anonymous_operation(&mut self) -> Option<Mutant> {
        let mut doc = self.doc.clone();
        let anon = ExecDef::Op(OpDef { kind: OpKind::Query, name: None, vars: vec![], dirs: vec![], sel: vec![Sel::field("__typename")], pos: p0(), shorthand: false });
        let at = self.rng.below(doc.defs.len() + 1);
        doc.defs.insert(at, anon);
        Some(Mutant { doc, label: self.label("5.2.2.1", "document", "second-anonymous-operation") })
    }
    pub fn duplicate_fragment_name(&mut self) -> Option<Mutant> {
        let fr: Vec<usize> = self.doc.defs.iter().enumerate().filter(|(_, d)| matches!(d, ExecDef::Frag(_))).map(|(i, _)| i).collect();
        let i = pick(self.rng, &fr)?;
        let mut doc = self.doc.clone();
        let c = doc.defs[i].clone();
        let at = self.rng.below(doc.defs.len() + 1);
        doc.defs.insert(at, c);
        Some(Mutant { doc, label: self.label("5.5.1.1", "document", "duplicate-fragment-name") })
    }
    /// A second root field for a subscription (5.2.3.1). The second field is a copy of the ordinary root field under
    /// another alias, or the meta field `__typename` (plain or aliased) — a response key like any other (spec
    /// CollectFields). It stands beside the ordinary field (before or after it), under an untyped inline fragment with
    /// `@include(if: true)`, under `... on <Root>`, or behind one or two levels of named fragments. A document without
    /// a subscription gets one (`subscription ZzSub { <a root field> }`) when the schema has a subscription root.
    pub fn two_subscription_roots(&mut self) -> Option<Mutant> {
        let root = self.sch.m.subscription.clone()?;
        let mut doc = self.doc.clone();
        let mut subs: Vec<usize> = doc.defs.iter().enumerate().filter(|(_, d)| matches!(d, ExecDef::Op(o) if o.kind == OpKind::Subscription)).map(|(i, _)| i).collect();
        if subs.is_empty() {
            if doc.defs.iter().any(|d| matches!(d, ExecDef::Op(o) if o.name.is_none())) {
                return None;
            }
            let fields = self.sch.m.type_def(&root)?.fields.clone();
            let usable: Vec<&FieldDef> = fields.iter().filter(|f| f.args.iter().all(|a| !a.ty.is_non_null() || a.default.is_some())).collect();
            if usable.is_empty() {
                return None;
            }
            let f = usable[self.rng.below(usable.len())];
            let sel = if self.sch.m.is_composite(f.ty.unwrapped()) { Some(vec![Sel::field("__typename")]) } else { None };
            let one = Sel::Field { alias: None, name: f.name.clone(), name_pos: p0(), args: vec![], dirs: vec![], sel };
            doc.defs.push(ExecDef::Op(OpDef { kind: OpKind::Subscription, name: Some(("ZzSub".into(), p0())), vars: vec![], dirs: vec![], sel: vec![one], pos: p0(), shorthand: false }));
            subs.push(doc.defs.len() - 1);
        }
        let i = pick(self.rng, &subs)?;
        let first = match &doc.defs[i] {
            ExecDef::Op(o) => o.sel[0].clone(),
            _ => return None,
        };
        let Sel::Field { .. } = &first else { return None };
        let what = self.rng.below(4);
        let (second, what_name) = match what {
            0 | 1 => {
                let mut c = first.clone();
                if let Sel::Field { alias, .. } = &mut c {
                    *alias = Some(("zz_second".into(), p0()));
                }
                (c, "ordinary")
            }
            2 => (Sel::field("__typename"), "__typename"),
            _ => (Sel::Field { alias: Some(("zz_t".into(), p0())), name: "__typename".into(), name_pos: p0(), args: vec![], dirs: vec![], sel: None }, "aliased-__typename"),
        };
        let spread = |n: &str| Sel::Spread { name: n.into(), name_pos: p0(), dirs: vec![], pos: p0() };
        let frag = |n: &str, on: &str, sel: Vec<Sel>| ExecDef::Frag(FragDef { name: n.into(), name_pos: p0(), cond: on.into(), cond_pos: p0(), dirs: vec![], sel, pos: p0() });
        let how = self.rng.below(5);
        let (extra, how_name): (Sel, &str) = match how {
            0 => (second, "direct"),
            1 => (Sel::Inline { cond: None, dirs: vec![Dir::new("include", vec![Arg::new("if", Val::Bool(true, p0()))])], sel: vec![second], pos: p0() }, "untyped-inline-with-include"),
            2 => (Sel::Inline { cond: Some((root.clone(), p0())), dirs: vec![], sel: vec![second], pos: p0() }, "inline-on-root"),
            3 => {
                doc.defs.push(frag("ZzSubRoot", &root, vec![second]));
                (spread("ZzSubRoot"), "named-fragment")
            }
            _ => {
                doc.defs.push(frag("ZzSubRoot2", &root, vec![second]));
                doc.defs.push(frag("ZzSubRoot", &root, vec![spread("ZzSubRoot2")]));
                (spread("ZzSubRoot"), "two-named-fragments")
            }
        };
        let before = self.rng.coin();
        if let ExecDef::Op(o) = &mut doc.defs[i] {
            if before {
                o.sel.insert(0, extra);
            } else {
                o.sel.push(extra);
            }
        }
        let mutation = format!("two-subscription-root-fields({how_name},{})", if before { "before" } else { "after" });
        Some(Mutant { doc, label: self.label("5.2.3.1", &format!("subscription-root/second-field-is-{what_name}"), &mutation) })
    }

    // ---- fragments ----
    pub fn fragment_on_unknown_type(&mut self) -> Option<Mutant> {
        self.fragment_cond("NopeType_zz".to_string(), "5.5.1.2", "fragment-on-unknown-type")
    }
    pub fn fragment_on_non_composite(&mut self) -> Option<Mutant> {
        let mut names: Vec<String> = self.sch.m.names_of_kind(TypeKind::Enum);
        names.extend(self.sch.m.names_of_kind(TypeKind::Input));
        names.extend(self.sch.m.names_of_kind(TypeKind::Scalar));
        names.push("Int".into());
        let n = pick(self.rng, &names)?;
        self.fragment_cond(n, "5.5.1.3", "fragment-on-non-composite")
    }
    fn fragment_cond(&mut self, cond_name: String, rule: &str, mutation: &str) -> Option<Mutant> {
        let mut doc = self.doc.clone();
        let frs: Vec<usize> = self.doc.defs.iter().enumerate().filter(|(i, d)| matches!(d, ExecDef::Frag(_)) && self.ok_def(*i)).map(|(i, _)| i).collect();
        let inl: Vec<SelSite> = self.sites.sels.iter().filter(|s| self.ok_def(s.r.def) && matches!(self.get_sel(&s.r), Sel::Inline { cond: Some(_), .. })).cloned().collect();
        let use_def = !frs.is_empty() && (inl.is_empty() || self.rng.coin());
        let class;
        if use_def {
            let i = pick(self.rng, &frs)?;
            class = format!("fragment-definition/{}", self.sites.def_base[i]);
            if let ExecDef::Frag(f) = &mut doc.defs[i] {
                f.cond = cond_name;
            }
        } else {
            let s = pick(self.rng, &inl)?;
            class = format!("{}/inline-fragment", s.class);
            if let Sel::Inline { cond, .. } = sel_mut(&mut doc, &s.r) {
                *cond = Some((cond_name, p0()));
            }
        }
        Some(Mutant { doc, label: self.label(rule, &class, mutation) })
    }
    pub fn undefined_spread(&mut self) -> Option<Mutant> {
        let c: Vec<SetSite> = self.sites.sets.iter().filter(|s| self.ok_def(s.def)).cloned().collect();
        let s = pick(self.rng, &c)?;
        let mut doc = self.doc.clone();
        let set = selset_mut(&mut doc, s.def, &s.path);
        let at = self.rng.below(set.len() + 1);
        set.insert(at, Sel::Spread { name: "UndefinedZz".into(), name_pos: p0(), dirs: vec![], pos: p0() });
        Some(Mutant { doc, label: self.label("5.5.2.1", &s.class, "undefined-spread") })
    }
    pub fn fragment_cycle(&mut self) -> Option<Mutant> {
        let frs: Vec<usize> = self.doc.defs.iter().enumerate().filter(|(i, d)| matches!(d, ExecDef::Frag(_)) && self.ok_def(*i)).map(|(i, _)| i).collect();
        let i = pick(self.rng, &frs)?;
        let (fname, fcond) = match &self.doc.defs[i] {
            ExecDef::Frag(f) => (f.name.clone(), f.cond.clone()),
            _ => return None,
        };
        let mut doc = self.doc.clone();
        let two = self.rng.chance(1, 3);
        let class;
        if two {
            // F → ZzCycle → F
            doc.defs.push(ExecDef::Frag(FragDef {
                name: "ZzCycle".into(),
                name_pos: p0(),
                cond: fcond.clone(),
                cond_pos: p0(),
                dirs: vec![],
                sel: vec![Sel::Spread { name: fname.clone(), name_pos: p0(), dirs: vec![], pos: p0() }],
                pos: p0(),
            }));
            top_sels_mut(&mut doc, i).push(Sel::Spread { name: "ZzCycle".into(), name_pos: p0(), dirs: vec![], pos: p0() });
            class = format!("{}/two-cycle", self.sites.def_base[i]);
        } else {
            // self spread, at the top level or inside a nested selection set of the fragment with the same scope type
            let sets: Vec<SetSite> = self.sites.sets.iter().filter(|s| s.def == i && s.parent.as_deref() == Some(fcond.as_str())).cloned().collect();
            let s = pick(self.rng, &sets)?;
            selset_mut(&mut doc, i, &s.path).push(Sel::Spread { name: fname, name_pos: p0(), dirs: vec![], pos: p0() });
            class = format!("{}/self-cycle", self.sites.def_base[i]);
        }
        Some(Mutant { doc, label: self.label("5.5.2.2", &class, "fragment-cycle") })
    }
    pub fn impossible_spread(&mut self) -> Option<Mutant> {
        let mut c = vec![];
        let comps: Vec<String> = self.sch.m.types().filter(|t| matches!(t.kind, TypeKind::Object | TypeKind::Interface | TypeKind::Union)).map(|t| t.name.clone()).collect();
        for s in self.sites.sets.iter().filter(|s| self.ok_def(s.def)) {
            if let Some(p) = &s.parent {
                if !self.sch.m.is_composite(p) {
                    continue;
                }
                let pp = self.sch.m.possible_types(p);
                if pp.is_empty() {
                    // an interface nobody implements: every spread is "impossible" by the letter of the rule
                    continue;
                }
                for t in &comps {
                    let tp = self.sch.m.possible_types(t);
                    if !tp.iter().any(|x| pp.contains(x)) {
                        c.push((s.clone(), t.clone(), format!("{:?}-in-{:?}", self.sch.kind_of(t).unwrap(), self.sch.kind_of(p).unwrap())));
                    }
                }
            }
        }
        let (s, t, kinds) = pick(self.rng, &c)?;
        let mut doc = self.doc.clone();
        let via_spread = self.rng.chance(1, 3);
        if via_spread {
            doc.defs.push(ExecDef::Frag(FragDef { name: "ZzImpossible".into(), name_pos: p0(), cond: t, cond_pos: p0(), dirs: vec![], sel: vec![Sel::field("__typename")], pos: p0() }));
            selset_mut(&mut doc, s.def, &s.path).push(Sel::Spread { name: "ZzImpossible".into(), name_pos: p0(), dirs: vec![], pos: p0() });
        } else {
            selset_mut(&mut doc, s.def, &s.path).push(Sel::Inline { cond: Some((t, p0())), dirs: vec![], sel: vec![Sel::field("__typename")], pos: p0() });
        }
        let class = format!("{}/{}/{}", s.class, if via_spread { "spread" } else { "inline" }, kinds);
        Some(Mutant { doc, label: self.label("5.5.2.3", &class, "impossible-spread") })
    }

    /// A spread that can never apply between ANY two composite types of the schema whose possible-type sets (object
    /// types only) are disjoint — the nine kind combinations get equal weight (interface-in-interface twice), and of
    /// two interfaces those that only another INTERFACE implements together are preferred. The host scope of type P
    /// is reached through fields from a query root (fresh alias) or is an unspread fragment on P; the narrowing to T
    /// is an inline fragment, a named fragment, an inline fragment inside a named fragment on P, or a named fragment
    /// under an untyped inline fragment (depth).
    pub fn impossible_spread_between_types(&mut self) -> Option<Mutant> {
        if self.only_def.is_some() {
            return None;
        }
        let m = self.sch.m;
        let comps: Vec<(String, TypeKind, BTreeSet<String>)> = m
            .types()
            .filter(|t| matches!(t.kind, TypeKind::Object | TypeKind::Interface | TypeKind::Union))
            .map(|t| (t.name.clone(), t.kind, m.possible_types(&t.name).into_iter().collect()))
            .collect();
        let joined = |a: &str, b: &str| m.types().any(|t| t.kind == TypeKind::Interface && t.implements.iter().any(|i| i.0 == a) && t.implements.iter().any(|i| i.0 == b));
        let mut groups: BTreeMap<(String, String), Vec<(String, String, bool)>> = BTreeMap::new();
        for (p, pk, pp) in &comps {
            if pp.is_empty() {
                // an interface nobody implements as the SCOPE: every narrowing is "impossible" by the letter of the rule
                continue;
            }
            for (t, tk, tp) in &comps {
                if p != t && pp.is_disjoint(tp) {
                    let j = *pk == TypeKind::Interface && *tk == TypeKind::Interface && joined(p, t);
                    groups.entry((format!("{pk:?}"), format!("{tk:?}"))).or_default().push((p.clone(), t.clone(), j));
                }
            }
        }
        let mut keys: Vec<(String, String)> = groups.keys().cloned().collect();
        if keys.is_empty() {
            return None;
        }
        if let Some(ii) = keys.iter().find(|k| k.0 == "Interface" && k.1 == "Interface").cloned() {
            keys.push(ii);
        }
        let key = keys[self.rng.below(keys.len())].clone();
        let mut pairs = groups[&key].clone();
        if pairs.iter().any(|x| x.2) && self.rng.chance(2, 3) {
            pairs.retain(|x| x.2);
        }
        let (p, t, j) = pairs[self.rng.below(pairs.len())].clone();
        let mut doc = self.doc.clone();
        let spread = |n: &str| Sel::Spread { name: n.into(), name_pos: p0(), dirs: vec![], pos: p0() };
        let frag = |n: &str, on: &str, sel: Vec<Sel>| ExecDef::Frag(FragDef { name: n.into(), name_pos: p0(), cond: on.into(), cond_pos: p0(), dirs: vec![], sel, pos: p0() });
        let inline_t = Sel::Inline { cond: Some((t.clone(), p0())), dirs: vec![], sel: vec![Sel::field("__typename")], pos: p0() };
        // what stands inside the P-typed scope
        let form = self.rng.below(4);
        let (inner, form_name): (Vec<Sel>, &str) = match form {
            0 => (vec![Sel::field("__typename"), inline_t], "inline"),
            1 => {
                doc.defs.push(frag("ZzImpT", &t, vec![Sel::field("__typename")]));
                (vec![spread("ZzImpT"), Sel::field("__typename")], "spread")
            }
            2 => {
                doc.defs.push(frag("ZzHostP", &p, vec![Sel::field("__typename"), inline_t]));
                (vec![spread("ZzHostP")], "inline-inside-named-fragment")
            }
            _ => {
                doc.defs.push(frag("ZzImpT", &t, vec![Sel::field("__typename")]));
                (vec![Sel::Inline { cond: None, dirs: vec![], sel: vec![Sel::field("__typename"), Sel::Inline { cond: Some((p.clone(), p0())), dirs: vec![], sel: vec![spread("ZzImpT")], pos: p0() }], pos: p0() }], "named-fragment-at-depth")
            }
        };
        // the P-typed scope
        let queries: Vec<usize> = doc.defs.iter().enumerate().filter(|(_, d)| matches!(d, ExecDef::Op(o) if o.kind == OpKind::Query)).map(|(i, _)| i).collect();
        let path = if self.rng.chance(2, 3) && !queries.is_empty() { field_path(m, &m.query, &p, 4) } else { None };
        let host = match path {
            Some(path) => {
                let mut sel = inner;
                for (k, f) in path.iter().enumerate().rev() {
                    let alias = if k == 0 { Some(("zz_imp".to_string(), p0())) } else { None };
                    sel = vec![Sel::Field { alias, name: f.clone(), name_pos: p0(), args: vec![], dirs: vec![], sel: Some(sel) }];
                }
                let qi = queries[self.rng.below(queries.len())];
                top_sels_mut(&mut doc, qi).extend(sel);
                "operation"
            }
            None => {
                let at = self.rng.below(doc.defs.len() + 1);
                doc.defs.insert(at, frag("ZzScopeP", &p, inner));
                "unspread-fragment"
            }
        };
        // the class names the pair of kinds; where the scope is and how the narrowing is written go into the mutation name
        let class = format!("between-types/{}-in-{}{}", key.1, key.0, if j { "/joined-only-by-an-interface" } else { "" });
        Some(Mutant { doc, label: self.label("5.5.2.3", &class, &format!("impossible-spread-between-types({host},{form_name})")) })
    }

    // ---- directives ----
    fn dir_sites(&self) -> Vec<DirSite> {
        self.sites.dirs.iter().filter(|s| self.ok_def(s.def)).cloned().collect()
    }
    pub fn unknown_directive(&mut self) -> Option<Mutant> {
        let s = pick(self.rng, &self.dir_sites())?;
        let mut doc = self.doc.clone();
        let ds = dirs_mut(&mut doc, &s.r);
        let at = self.rng.below(ds.len() + 1);
        ds.insert(at, Dir::new("zz_unknown", vec![]));
        Some(Mutant { doc, label: self.label("5.7.1", &s.class, "unknown-directive") })
    }
    pub fn directive_wrong_location(&mut self) -> Option<Mutant> {
        let s = pick(self.rng, &self.dir_sites())?;
        let mut doc = self.doc.clone();
        let d = match s.location {
            "FIELD" | "FRAGMENT_SPREAD" | "INLINE_FRAGMENT" => Dir::new("deprecated", vec![]),
            _ => Dir::new("skip", vec![Arg::new("if", Val::Bool(true, p0()))]),
        };
        dirs_mut(&mut doc, &s.r).push(d);
        Some(Mutant { doc, label: self.label("5.7.2", &s.class, "directive-at-wrong-location") })
    }
    pub fn repeated_directive(&mut self) -> Option<Mutant> {
        let tag_ok = self.sch.directive_def("tag").map_or(false, |d| !d.repeatable);
        let c: Vec<DirSite> = self.dir_sites().into_iter().filter(|s| tag_ok || matches!(s.location, "FIELD" | "FRAGMENT_SPREAD" | "INLINE_FRAGMENT")).collect();
        let s = pick(self.rng, &c)?;
        let mut doc = self.doc.clone();
        let d = if matches!(s.location, "FIELD" | "FRAGMENT_SPREAD" | "INLINE_FRAGMENT") && !(tag_ok && self.rng.coin()) {
            Dir::new("skip", vec![Arg::new("if", Val::Bool(false, p0()))])
        } else {
            Dir::new("tag", vec![])
        };
        let ds = dirs_mut(&mut doc, &s.r);
        ds.push(d.clone());
        ds.push(d);
        Some(Mutant { doc, label: self.label("5.7.3", &s.class, "repeated-directive") })
    }
}

pub const MUTATIONS: [&str; 38] = [
    "rename-field",
    "subselection-on-leaf",
    "drop-subselection",
    "unknown-argument",
    "unknown-directive-argument",
    "duplicate-argument-wrong-value",
    "drop-required-argument",
    "drop-required-directive-argument",
    "wrong-literal-type",
    "int-literal-outside-32-bit-range",
    "bad-enum-member",
    "unknown-input-field",
    "duplicate-input-field",
    "missing-input-field",
    "duplicate-variable",
    "variable-of-output-type",
    "undefined-variable",
    "incompatible-variable-type",
    "nullable-variable-at-non-null",
    "null-default-at-non-null",
    "nullable-no-default-at-non-null",
    "remove-needed-default",
    "list-shape-mismatch",
    "undefined-variable-in-one-operation",
    "incompatible-variable-in-one-operation",
    "duplicate-operation-name",
    "second-anonymous-operation",
    "duplicate-fragment-name",
    "two-subscription-root-fields",
    "fragment-on-unknown-type",
    "fragment-on-non-composite",
    "undefined-spread",
    "fragment-cycle",
    "impossible-spread",
    "impossible-spread-between-types",
    "unknown-directive",
    "directive-at-wrong-location",
    "repeated-directive",
];

pub fn apply(name: &str, ctx: &mut MCtx) -> Option<Mutant> {
    match name {
        "rename-field" => ctx.rename_field(),
        "subselection-on-leaf" => ctx.subselection_on_leaf(),
        "drop-subselection" => ctx.drop_subselection(),
        "unknown-argument" => ctx.unknown_argument(),
        "unknown-directive-argument" => ctx.unknown_directive_argument(),
        "duplicate-argument-wrong-value" => ctx.duplicate_argument_wrong_value(),
        "drop-required-argument" => ctx.drop_required_argument(),
        "drop-required-directive-argument" => ctx.drop_required_directive_argument(),
        "wrong-literal-type" => ctx.wrong_literal(),
        "int-literal-outside-32-bit-range" => ctx.int_literal_outside_32_bit_range(),
        "bad-enum-member" => ctx.bad_enum_member(),
        "unknown-input-field" => ctx.unknown_input_field(),
        "duplicate-input-field" => ctx.duplicate_input_field(),
        "missing-input-field" => ctx.missing_input_field(),
        "duplicate-variable" => ctx.duplicate_variable(),
        "variable-of-output-type" => ctx.variable_of_output_type(),
        "undefined-variable" => ctx.undefined_variable(),
        "incompatible-variable-type" => ctx.incompatible_variable(),
        "nullable-variable-at-non-null" => ctx.nullable_variable_at_nonnull(),
        "null-default-at-non-null" => ctx.null_default_at_non_null(),
        "nullable-no-default-at-non-null" => ctx.nullable_no_default_at_non_null(),
        "remove-needed-default" => ctx.remove_needed_default(),
        "list-shape-mismatch" => ctx.list_shape_mismatch(),
        "undefined-variable-in-one-operation" => ctx.undefined_variable_in_one_operation(),
        "incompatible-variable-in-one-operation" => ctx.incompatible_variable_in_one_operation(),
        "duplicate-operation-name" => ctx.duplicate_operation_name(),
        "second-anonymous-operation" => ctx.second_anonymous_operation(),
        "duplicate-fragment-name" => ctx.duplicate_fragment_name(),
        "two-subscription-root-fields" => ctx.two_subscription_roots(),
        "fragment-on-unknown-type" => ctx.fragment_on_unknown_type(),
        "fragment-on-non-composite" => ctx.fragment_on_non_composite(),
        "undefined-spread" => ctx.undefined_spread(),
        "fragment-cycle" => ctx.fragment_cycle(),
        "impossible-spread" => ctx.impossible_spread(),
        "impossible-spread-between-types" => ctx.impossible_spread_between_types(),
        "unknown-directive" => ctx.unknown_directive(),
        "directive-at-wrong-location" => ctx.directive_wrong_location(),
        "repeated-directive" => ctx.repeated_directive(),
        _ => None,
    }
}

/// Clone one fragment definition under a fresh name that nobody spreads; returns the new document and the
/// index of the clone (mutations restricted to it get the position class "unspread-frag").
pub fn add_unspread_clone(rng: &mut Rng, doc: &Doc) -> Option<(Doc, usize)> {
    let fr: Vec<usize> = doc.defs.iter().enumerate().filter(|(_, d)| matches!(d, ExecDef::Frag(_))).map(|(i, _)| i).collect();
    let i = pick(rng, &fr)?;
    let mut out = doc.clone();
    let mut c = match &doc.defs[i] {
        ExecDef::Frag(f) => f.clone(),
        _ => return None,
    };
    c.name = "ZzUnspread".into();
    out.defs.push(ExecDef::Frag(c));
    let idx = out.defs.len() - 1;
    Some((out, idx))
}

/// field names leading from composite type `from` to a selection set of type `to` (fields without required
/// arguments only), shortest first; Some(vec![]) when `from` is `to`
pub fn field_path(m: &SchemaModel, from: &str, to: &str, max: usize) -> Option<Vec<String>> {
    let mut seen: BTreeSet<String> = BTreeSet::from([from.to_string()]);
    let mut frontier: Vec<(String, Vec<String>)> = vec![(from.to_string(), vec![])];
    for _ in 0..=max {
        let mut next = vec![];
        for (t, path) in &frontier {
            if t == to {
                return Some(path.clone());
            }
            if let Some(td) = m.type_def(t) {
                if !matches!(td.kind, TypeKind::Object | TypeKind::Interface) {
                    continue;
                }
                for f in &td.fields {
                    let target = f.ty.unwrapped().to_string();
                    if m.is_composite(&target) && f.args.iter().all(|a| !a.ty.is_non_null() || a.default.is_some()) && seen.insert(target.clone()) {
                        let mut p2 = path.clone();
                        p2.push(f.name.clone());
                        next.push((target, p2));
                    }
                }
            }
        }
        frontier = next;
    }
    None
}

/// Schema post-processing (valid by construction): interfaces implementing SEVERAL interfaces, an interface without
/// any object implementer, objects implementing only some of the interfaces, with or without an object that implements
/// both sides of the diamond; all reachable from the query root.
///   interface ZiA { zfa zpeer: ZiB }   interface ZiB { zfb zback: ZiA }
///   interface ZiC implements ZiA & ZiB   (no object implements ZiC)     interface ZiD implements ZiC & ZiA & ZiB (sometimes)
///   type ZoA implements ZiA   type ZoB implements ZiB   type ZoAB implements ZiA & ZiB (one time out of three)
///   interface ZiLonely { zfl }   union ZuAB = ZoA | ZoB
pub fn add_interface_diamonds(rng: &mut Rng, schema: &mut SchemaModel) -> Vec<String> {
    if schema.type_def("ZiA").is_some() {
        return vec![];
    }
    let mut feats = vec!["schema:interface-diamond".to_string()];
    let fd = |n: &str, ty: Ty| FieldDef { desc: None, name: n.into(), pos: P::default(), args: vec![], ty, dirs: vec![] };
    let fa = vec![fd("zfa", Ty::named("Int")), fd("zpeer", Ty::named("ZiB"))];
    let fb = vec![fd("zfb", Ty::named("String")), fd("zback", Ty::list(Ty::named("ZiA")))];
    let both: Vec<FieldDef> = fa.iter().chain(fb.iter()).cloned().collect();
    let imp = |ns: &[&str]| -> Vec<(String, P)> { ns.iter().map(|n| (n.to_string(), P::default())).collect() };
    let mk = |kind: TypeKind, name: &str, implements: Vec<(String, P)>, fields: Vec<FieldDef>| {
        let mut t = TypeDef::new(kind, name);
        t.implements = implements;
        t.fields = fields;
        t
    };
    let mut new: Vec<TypeDef> = vec![
        mk(TypeKind::Interface, "ZiA", vec![], fa.clone()),
        mk(TypeKind::Interface, "ZiB", vec![], fb.clone()),
        mk(TypeKind::Interface, "ZiC", imp(&["ZiA", "ZiB"]), both.iter().cloned().chain(std::iter::once(fd("zfc", Ty::named("ID")))).collect()),
        mk(TypeKind::Object, "ZoA", imp(&["ZiA"]), fa.iter().cloned().chain(std::iter::once(fd("zoa", Ty::named("Boolean")))).collect()),
        mk(TypeKind::Object, "ZoB", imp(&["ZiB"]), fb.clone()),
        mk(TypeKind::Interface, "ZiLonely", vec![], vec![fd("zfl", Ty::named("Int"))]),
    ];
    if rng.coin() {
        feats.push("schema:interface-implements-three".into());
        new.push(mk(TypeKind::Interface, "ZiD", imp(&["ZiC", "ZiA", "ZiB"]), both.iter().cloned().chain([fd("zfc", Ty::named("ID")), fd("zfd", Ty::named("Int"))]).collect()));
    }
    if rng.chance(1, 3) {
        feats.push("schema:diamond-with-common-object".into());
        new.push(mk(TypeKind::Object, "ZoAB", imp(&["ZiA", "ZiB"]), both.clone()));
    } else {
        feats.push("schema:diamond-without-common-object".into());
    }
    let mut u = TypeDef::new(TypeKind::Union, "ZuAB");
    u.members = imp(&["ZoA", "ZoB"]);
    new.push(u);
    let q = schema.query.clone();
    for item in schema.doc.items.iter_mut() {
        if let TsItem::TypeDef(t) = item {
            if t.name == q {
                for (n, ty) in [("zia", "ZiA"), ("zib", "ZiB"), ("zic", "ZiC"), ("zil", "ZiLonely"), ("zu", "ZuAB")] {
                    t.fields.push(fd(n, if rng.coin() { Ty::named(ty) } else { Ty::list(Ty::non_null(Ty::named(ty))) }));
                }
            }
        }
    }
    for t in new {
        let at = rng.below(schema.doc.items.len() + 1);
        schema.doc.items.insert(at.max(1), TsItem::TypeDef(t));
    }
    feats
}

// ------------------------------------------------------------------------------------------------
// shape transformations: the document keeps satisfying every implemented rule, but definitions are shared /
// ordered differently (several operations reaching the same fragments, a fragment reached from an unspread
// fragment defined before the operations, fragments before operations)

/// a copy of a named operation under a fresh name at a random place: two operations reach exactly the same fragments
pub fn shape_clone_operation(rng: &mut Rng, doc: &Doc) -> Option<Doc> {
    let named: Vec<usize> = doc.defs.iter().enumerate().filter(|(_, d)| matches!(d, ExecDef::Op(o) if o.name.is_some())).map(|(i, _)| i).collect();
    let i = pick(rng, &named)?;
    let mut c = doc.defs[i].clone();
    if let ExecDef::Op(o) = &mut c {
        let base = o.name.as_ref().map(|n| n.0.clone()).unwrap_or_default();
        let mut k = 0;
        loop {
            let cand = if k == 0 { format!("ZzClone{base}") } else { format!("ZzClone{k}{base}") };
            if !doc.defs.iter().any(|d| matches!(d, ExecDef::Op(o2) if o2.name.as_ref().map(|n| n.0.as_str()) == Some(cand.as_str()))) {
                o.name = Some((cand, p0()));
                break;
            }
            k += 1;
        }
    }
    let mut out = doc.clone();
    // after the original more often than before it
    let at = if rng.chance(2, 3) { i + 1 + rng.below(doc.defs.len() - i) } else { rng.below(i + 1) };
    out.defs.insert(at, c);
    Some(out)
}

/// `fragment ZzWrap on T { ...F }` (never spread) placed before every operation: F and everything F spreads are
/// reached from an unspread fragment first. Returns the document and the names reached from the wrapper.
pub fn shape_unspread_wrapper_first(rng: &mut Rng, doc: &Doc) -> Option<(Doc, BTreeSet<String>)> {
    let fr: Vec<&FragDef> = doc.defs.iter().filter_map(|d| if let ExecDef::Frag(f) = d { Some(f) } else { None }).collect();
    if fr.is_empty() || fr.iter().any(|f| f.name == "ZzWrap") {
        return None;
    }
    let f = fr[rng.below(fr.len())];
    let sel = vec![Sel::Spread { name: f.name.clone(), name_pos: p0(), dirs: vec![], pos: p0() }];
    let reached = closure_from(doc, &sel);
    let w = FragDef { name: "ZzWrap".into(), name_pos: p0(), cond: f.cond.clone(), cond_pos: p0(), dirs: vec![], sel, pos: p0() };
    let first_op = doc.defs.iter().position(|d| matches!(d, ExecDef::Op(_))).unwrap_or(0);
    let mut out = doc.clone();
    out.defs.insert(rng.below(first_op + 1), ExecDef::Frag(w));
    Some((out, reached))
}

/// the same definitions in another order
pub fn shape_reorder(rng: &mut Rng, doc: &Doc) -> Doc {
    let mut out = doc.clone();
    rng.shuffle(&mut out.defs);
    out
}

/// names of the definitions of `after` that are not (unchanged) in `before` — the definitions a mutation touched
pub fn touched_definitions(before: &Doc, after: &Doc) -> Vec<String> {
    after.defs.iter().filter(|d| !before.defs.contains(d)).filter_map(|d| d.name().map(|s| s.to_string())).collect()
}

// ------------------------------------------------------------------------------------------------
// numeric boundary literals

/// integer literals that are no 32-bit values
pub const OUT_OF_INT32: [&str; 8] = ["2147483648", "-2147483649", "4294967296", "3000000000", "9007199254740992", "-9007199254740993", "12345678901234567890", "-9223372036854775809"];
/// integer literals that are 32-bit values, boundaries included
pub const IN_INT32: [&str; 9] = ["0", "-0", "1", "-1", "2147483647", "-2147483647", "-2147483648", "1000000000", "-2000000000"];
/// Float literals at and beyond the usual boundaries
pub const FLOATS: [&str; 10] = ["0.0", "-0.0", "1e0", "2147483648.0", "-2.147483649e9", "9007199254740993.0", "1e308", "1.5E-300", "1e400", "-123456789012345678901234567890.5"];

/// C04: boundary numbers at Int / Float / ID positions (arguments of fields and directives, input fields, list items, a
/// single value for a list, variable defaults). Int positions get 32-bit values only, Float positions any integer or
/// Float literal, ID positions any integer literal. Returns None when the document has no such position.
pub fn boundary_numbers(rng: &mut Rng, sch: &Sch, doc: &Doc) -> Option<(Doc, BTreeSet<String>)> {
    let sites = collect_sites(sch, doc);
    let mut out = doc.clone();
    let mut feats = BTreeSet::new();
    for s in &sites.vals {
        let base = s.ty.unwrapped();
        if !matches!(base, "Int" | "Float" | "ID") {
            continue;
        }
        // a site below an already replaced list no longer exists
        let cur = {
            let mut d = out.clone();
            let mut ok = true;
            let mut v: &Val = match &s.owner {
                ValOwner::FieldArg(r, a) => match sel_mut(&mut d, r) {
                    Sel::Field { args, .. } => &args[*a].value,
                    _ => continue,
                },
                ValOwner::DirArg(r, i, a) => &dirs_mut(&mut d, r)[*i].args[*a].value,
                ValOwner::VarDefault(di, vi) => match &d.defs[*di] {
                    ExecDef::Op(o) => match &o.vars[*vi].default {
                        Some(x) => x,
                        None => continue,
                    },
                    _ => continue,
                },
            };
            for &i in &s.inner {
                v = match v {
                    Val::List(vs, _) if i < vs.len() => &vs[i],
                    Val::Obj(fs, _) if i < fs.len() => &fs[i].value,
                    _ => {
                        ok = false;
                        break;
                    }
                };
            }
            if !ok {
                continue;
            }
            v.clone()
        };
        let is_list_here = matches!(cur, Val::List(..));
        if is_list_here {
            // a list that holds a variable stays: dropping the only use of a variable would break 5.8.4
            let mut vs = vec![];
            cur.vars(&mut vs);
            if !vs.is_empty() {
                continue;
            }
        }
        if !(is_leaf_literal(&cur) || is_list_here) || !rng.chance(2, 3) {
            continue;
        }
        if is_list_here && !rng.chance(1, 3) {
            continue; // mostly keep lists: their items are sites of their own
        }
        let new = match base {
            "Int" => Val::Int(IN_INT32[rng.below(IN_INT32.len())].into(), p0()),
            "Float" => match rng.below(3) {
                0 => Val::Int(IN_INT32[rng.below(IN_INT32.len())].into(), p0()),
                1 => Val::Int(OUT_OF_INT32[rng.below(OUT_OF_INT32.len())].into(), p0()),
                _ => Val::Float(FLOATS[rng.below(FLOATS.len())].into(), p0()),
            },
            _ => match rng.below(3) {
                0 => Val::Int(IN_INT32[rng.below(IN_INT32.len())].into(), p0()),
                1 => Val::Int(OUT_OF_INT32[rng.below(OUT_OF_INT32.len())].into(), p0()),
                _ => Val::Str("2147483648".into(), p0()),
            },
        };
        let kind = match &new {
            Val::Int(t, _) if OUT_OF_INT32.contains(&t.as_str()) => "int-literal-beyond-32-bit",
            Val::Int(..) => "int-literal-32-bit-boundary",
            Val::Float(..) => "float-literal-boundary",
            _ => "string",
        };
        let place = if matches!(s.owner, ValOwner::VarDefault(..)) { "variable-default".to_string() } else { container_tag_of(&s.class) };
        feats.insert(format!("boundary:{kind}-for-{base}@{place}{}", if is_list_here { "(single-value-for-list)" } else { "" }));
        *val_mut(&mut out, &s.owner, &s.inner) = new;
    }
    if feats.is_empty() {
        None
    } else {
        Some((out, feats))
    }
}

fn container_tag_of(class: &str) -> String {
    class.rsplit(':').next().unwrap_or("top").split('/').next().unwrap_or("top").to_string()
}

// ------------------------------------------------------------------------------------------------
// validity-preserving variations for the C04 stream

/// `$v: T!` → `$v: T = <non-null literal>`: still usable at non-null positions (spec IsVariableUsageAllowed)
pub fn nullable_with_default(rng: &mut Rng, sch: &Sch, doc: &Doc, cfg: &GenCfg) -> Option<Doc> {
    let sites = collect_sites(sch, doc);
    let mut names: Vec<String> = vec![];
    for s in &sites.vals {
        let mut d = doc.clone();
        if let Val::Var(n, _) = val_mut(&mut d, &s.owner, &s.inner) {
            if s.ty.is_non_null() && !s.loc_default {
                names.push(n.clone());
            }
        }
    }
    let n = pick(rng, &names)?;
    let mut out = doc.clone();
    let mut changed = false;
    for d in out.defs.iter_mut() {
        if let ExecDef::Op(o) = d {
            for v in o.vars.iter_mut().filter(|v| v.name == n) {
                if let Ty::NonNull(inner) = v.ty.clone() {
                    let mut f = BTreeSet::new();
                    let c2 = GenCfg { variables: false, coercions: false, ..cfg.clone() };
                    let mut ctx = ValueCtx { schema: sch.m, cfg: &c2, vars: None, features: &mut f, depth: 1, loc_default: false };
                    let mut lit = gen_value(rng, &v.ty, &mut ctx);
                    if matches!(lit, Val::Null(_)) {
                        lit = gen_value(rng, &v.ty, &mut ctx);
                    }
                    if matches!(lit, Val::Null(_)) {
                        continue;
                    }
                    v.ty = *inner;
                    v.default = Some(lit);
                    changed = true;
                }
            }
        }
    }
    if changed {
        Some(out)
    } else {
        None
    }
}

/// `subscription { f }` → the same response key selected a second time — directly, under `... on <Root>`, under an
/// untyped inline fragment with `@include(if: true)`, or behind one / two named fragments: still ONE root field
pub fn duplicate_subscription_root(rng: &mut Rng, root: Option<&str>, doc: &Doc) -> Option<(Doc, &'static str)> {
    let root = root?;
    let mut out = doc.clone();
    let how = rng.below(5);
    let mut changed = None;
    let mut new_frags: Vec<ExecDef> = vec![];
    let frag = |n: String, on: &str, sel: Vec<Sel>| ExecDef::Frag(FragDef { name: n, name_pos: p0(), cond: on.into(), cond_pos: p0(), dirs: vec![], sel, pos: p0() });
    let spread = |n: &str| Sel::Spread { name: n.into(), name_pos: p0(), dirs: vec![], pos: p0() };
    for (k, d) in out.defs.iter_mut().enumerate() {
        if let ExecDef::Op(o) = d {
            if o.kind == OpKind::Subscription && o.sel.len() == 1 && matches!(o.sel[0], Sel::Field { .. }) {
                let c = o.sel[0].clone();
                let (extra, name) = match how {
                    0 => (c, "direct"),
                    1 => (Sel::Inline { cond: Some((root.to_string(), p0())), dirs: vec![], sel: vec![c], pos: p0() }, "inline-on-root"),
                    2 => (Sel::Inline { cond: None, dirs: vec![Dir::new("include", vec![Arg::new("if", Val::Bool(true, p0()))])], sel: vec![c], pos: p0() }, "untyped-inline-with-include"),
                    3 => {
                        new_frags.push(frag(format!("ZzSame{k}"), root, vec![c]));
                        (spread(&format!("ZzSame{k}")), "named-fragment")
                    }
                    _ => {
                        new_frags.push(frag(format!("ZzSameB{k}"), root, vec![c]));
                        new_frags.push(frag(format!("ZzSame{k}"), root, vec![spread(&format!("ZzSameB{k}"))]));
                        (spread(&format!("ZzSame{k}")), "two-named-fragments")
                    }
                };
                if rng.coin() {
                    o.sel.insert(0, extra);
                } else {
                    o.sel.push(extra);
                }
                changed = Some(name);
            }
        }
    }
    out.defs.extend(new_frags);
    changed.map(|n| (out, n))
}
