//! C03 / C04 — the operation checker (`check_operation_document`).
//!   K  generated schema + document (valid by construction, and mutated) → REAL checker vs the Lean model
//!      `CheckOp.checkOp`: the multisets of (kind, line, column) must be equal.
//!   O  C03: labelled single/double faults, confirmed by the Lean reference validator (`valid.rules`);
//!           failure = the real checker reports nothing, or nothing of a kind belonging to the broken rule.
//!      C04: valid-by-construction documents confirmed by `valid.spec`; failure = any real diagnostic.
//! Every case is the triple (schema SDL texts, document text, labels) — corpus, generated cases and replays go
//! through the same function.
//!   C03 mutants are also injected into SHAPED documents (mutate.rs `shape_*`: a cloned operation, an unspread wrapper
//!   fragment before the operations, shuffled definitions) and two operators put a variable fault into ONE of several
//!   operations that reach a shared fragment. C04 has a second O stream over multi-file projects with `#import`
//!   (imports.rs; cases with a `files` array). Of all failures with one signature the smallest input is reported.
//!   A `--search 1` run (second run of `./check` in the quick tier when P/K is broken) is cut by the clock.
use nitrogql_ast::{
    directive::Directive as RDirective,
    operation::ExecutableDefinition,
    selection_set::{Selection as RSelection, SelectionSet as RSelectionSet},
    OperationDocument,
};
use nvh::gen::*;
use nvh::gm::*;
use nvh::real::*;
use nvh::render::*;
use nvh::*;
use serde_json::{json, Value as J};
use std::collections::{BTreeMap, BTreeSet, HashMap};

#[path = "mutate.rs"]
pub mod mutate;
use mutate::{Label, Sch};
#[path = "imports.rs"]
pub mod imports;
/// validity-preserving renamings that make names of GraphQL's separate namespaces coincide (written for C12, reused as is)
#[path = "../c12/names.rs"]
#[allow(dead_code)]
mod names;

#[derive(Clone, Debug)]
pub struct Case {
    pub sdl: Vec<String>,
    pub text: String,
    pub labels: Vec<Label>,
    /// "valid", "valid-variant:…", "mutant", "double-mutant", "corpus:…"
    pub origin: String,
    pub features: Vec<String>,
    /// skip the schema check when building the type system (K only: reaches the TypeSystemError branches)
    pub raw_schema: bool,
}

impl Case {
    fn to_json(&self, prop: &str) -> J {
        json!({
            "prop": prop,
            "sdl": self.sdl,
            "doc": self.text,
            "origin": self.origin,
            "raw_schema": self.raw_schema,
            "labels": self.labels.iter().map(|l| json!({"rule": l.rule, "class": l.class, "mutation": l.mutation})).collect::<Vec<_>>(),
        })
    }
    fn from_json(v: &J) -> Case {
        Case {
            sdl: v["sdl"].as_array().map(|a| a.iter().map(|s| s.as_str().unwrap_or("").to_string()).collect()).unwrap_or_default(),
            text: v["doc"].as_str().unwrap_or("").to_string(),
            labels: v["labels"]
                .as_array()
                .map(|a| {
                    a.iter()
                        .map(|l| Label {
                            rule: l["rule"].as_str().unwrap_or("").into(),
                            class: l["class"].as_str().unwrap_or("").into(),
                            mutation: l["mutation"].as_str().unwrap_or("").into(),
                        })
                        .collect()
                })
                .unwrap_or_default(),
            origin: v["origin"].as_str().unwrap_or("replay").to_string(),
            features: vec![],
            raw_schema: v["raw_schema"].as_bool().unwrap_or(false),
        }
    }
}

type Triple = (String, usize, usize);

enum RealOut {
    Checked { doc: Doc, diags: Vec<Triple>, raw: Vec<Diag> },
    NotChecked(String),
}

/// owner anchors of the positions the shared AST has no slot for: "(" of an argument list, "{" of a selection set
#[derive(Default)]
struct Anchors {
    // keyed by (file, line, column): a merged multi-file document has equal (line, column) pairs in different files
    args: HashMap<(usize, usize, usize), (usize, usize, usize)>,
    sels: HashMap<(usize, usize, usize), (usize, usize, usize)>,
}

fn lc(p: &nitrogql_ast::base::Pos) -> (usize, usize, usize) {
    (p.file, p.line, p.column)
}

impl Anchors {
    fn dirs(&mut self, ds: &[RDirective]) {
        for d in ds {
            if let Some(a) = &d.arguments {
                self.args.insert(lc(&a.position), lc(&d.position));
            }
        }
    }
    fn selset(&mut self, ss: &RSelectionSet, owner: (usize, usize, usize)) {
        self.sels.insert(lc(&ss.position), owner);
        for s in &ss.selections {
            match s {
                RSelection::Field(f) => {
                    self.dirs(&f.directives);
                    if let Some(a) = &f.arguments {
                        self.args.insert(lc(&a.position), lc(&f.name.position));
                    }
                    if let Some(sub) = &f.selection_set {
                        self.selset(sub, lc(&f.name.position));
                    }
                }
                RSelection::FragmentSpread(f) => self.dirs(&f.directives),
                RSelection::InlineFragment(f) => {
                    self.dirs(&f.directives);
                    self.selset(&f.selection_set, lc(&f.position));
                }
            }
        }
    }
    fn of(doc: &OperationDocument) -> Anchors {
        let mut a = Anchors::default();
        for d in &doc.definitions {
            match d {
                ExecutableDefinition::OperationDefinition(o) => {
                    a.dirs(&o.directives);
                    if let Some(vs) = &o.variables_definition {
                        for v in &vs.definitions {
                            a.dirs(&v.directives);
                        }
                    }
                    a.selset(&o.selection_set, lc(&o.position));
                }
                ExecutableDefinition::FragmentDefinition(f) => {
                    a.dirs(&f.directives);
                    a.selset(&f.selection_set, lc(&f.position));
                }
            }
        }
        a
    }
    fn canon(&self, d: &Diag) -> Triple {
        let key = (d.file, d.line, d.col);
        let p = match d.kind.as_str() {
            "ArgumentsNotNeeded" | "RequiredArgumentNotSpecified" => self.args.get(&key).copied().unwrap_or(key),
            "SelectionOnInvalidType" => self.sels.get(&key).copied().unwrap_or(key),
            _ => key,
        };
        (d.kind.clone(), p.1, p.2)
    }
}

/// the schema stages without `check_type_system_document` (K only)
fn with_schema_unchecked<R>(
    texts: &[String],
    f: impl FnOnce(&nitrogql_ast::TypeSystemDocument, &graphql_type_system::Schema<std::borrow::Cow<str>, nitrogql_ast::base::Pos>) -> R,
) -> Result<R, String> {
    let texts = texts.to_vec();
    let nb_text = NITROGQL_BUILTINS_SDL.to_string();
    catch(std::panic::AssertUnwindSafe(|| {
        let mut docs = vec![];
        for (i, t) in texts.iter().enumerate() {
            nitrogql_ast::set_current_file_of_pos(i);
            docs.push(nitrogql_parser::parse_type_system_document(t).map_err(|e| format!("schema parse: {e:?}"))?);
        }
        let mut merged = nitrogql_ast::TypeSystemOrExtensionDocument::merge(docs);
        merged.extend(graphql_builtins::generate_builtins());
        let nb = nitrogql_parser::parse_type_system_document(&nb_text).expect("builtin sdl");
        merged.extend(nb.definitions);
        let resolved = nitrogql_semantics::resolve_schema_extensions(merged).map_err(|e| format!("resolve: {e:?}"))?;
        let schema = nitrogql_semantics::ast_to_type_system(&resolved);
        Ok(f(&resolved, &schema))
    }))
    .unwrap_or_else(|p| Err(format!("panic: {p}")))
}

/// run the real pipeline on one schema and several document texts
fn run_real(sdl: &[String], texts: &[String], raw_schema: bool) -> Result<(Sexp, Vec<RealOut>), String> {
    let body = |resolved: &nitrogql_ast::TypeSystemDocument, schema: &graphql_type_system::Schema<std::borrow::Cow<str>, nitrogql_ast::base::Pos>| {
        let ts = from_real_tsdoc(resolved).to_sexp();
        let mut outs = vec![];
        for t in texts {
            let r = with_operation(schema, t, 1, |doc, diags| {
                let anchors = Anchors::of(doc);
                let triples: Vec<Triple> = diags.iter().map(|d| anchors.canon(d)).collect();
                (from_real_doc(doc), triples, diags)
            });
            outs.push(match r {
                Ok((doc, diags, raw)) => RealOut::Checked { doc, diags, raw },
                Err(Stage::Diags(d)) => RealOut::NotChecked(format!("{}:{}", d[0].stage, d[0].kind)),
                Err(Stage::Panic(s, m)) => RealOut::NotChecked(format!("panic:{s}:{m}")),
            });
        }
        (ts, outs)
    };
    if raw_schema {
        with_schema_unchecked(sdl, body)
    } else {
        match with_schema(sdl, body) {
            Ok(x) => Ok(x),
            Err(Stage::Diags(d)) => Err(format!("schema rejected: {}:{} {}", d[0].stage, d[0].kind, d[0].message)),
            Err(Stage::Panic(s, m)) => Err(format!("schema panic {s}: {m}")),
        }
    }
}

/// rebuild a `SchemaModel` (for the typed walk of the harness) from SDL texts
fn schema_model_from_sdl(sdl: &[String]) -> Option<SchemaModel> {
    let mut items = vec![];
    for t in sdl {
        let d = nitrogql_parser::parse_type_system_document(t).ok()?;
        items.extend(from_real_tsdoc_ext(&d).items);
    }
    let doc = TsDoc { items };
    let mut roots: BTreeMap<&str, String> = BTreeMap::new();
    let mut explicit = false;
    for i in &doc.items {
        if let TsItem::SchemaDef(s) | TsItem::SchemaExt(s) = i {
            explicit = true;
            for (k, n, _) in &s.roots {
                roots.insert(k.as_str(), n.clone());
            }
        }
    }
    let get = |k: &str, dflt: &str| -> Option<String> {
        if explicit {
            roots.get(k).cloned()
        } else if doc.type_def(dflt).is_some() {
            Some(dflt.to_string())
        } else {
            None
        }
    };
    Some(SchemaModel { query: get("query", "Query").unwrap_or_else(|| "Query".into()), mutation: get("mutation", "Mutation"), subscription: get("subscription", "Subscription"), doc })
}

struct Ctx<'a> {
    prop: String,
    rep: &'a mut Report,
    drv: &'a mut Driver,
    kinds: BTreeMap<String, Vec<String>>,
    /// per (stream, signature): the SMALLEST failing case seen so far (size, what, case) and the number of failures
    best: Best,
    /// the generator's abstract merged schema (un-split model + built-ins) of the group being evaluated, with its wire
    /// text; None = the reference validator gets the really resolved schema (hand-written cases)
    abstract_ts: Option<(Sexp, String)>,
    /// message class (imports::message_template) → diagnostic kind, learned from every diagnostic of the library leg
    templates: BTreeMap<String, String>,
    /// the built nitrogql-cli (`--cli`), the scratch directory, and how many CLI runs this harness run may still make
    cli: String,
    scratch: String,
    cli_budget: usize,
    cli_seen: usize,
    /// number of CLI runs made so far (rotates the file-system layouts)
    cli_total: usize,
    /// CLI runs made for the current schema group (capped so that the budget is spread over the whole run)
    cli_group: usize,
    /// `--replay`: the CLI leg is run whatever the sampling says
    replaying: bool,
}

type Best = BTreeMap<(String, String), (usize, String, J, u64)>;

fn record(best: &mut Best, abs: &Option<(Sexp, String)>, stream: &str, signature: &str, what: &str, mut case: J, size: usize) {
    if let (Some((_, line)), Some(obj)) = (abs, case.as_object_mut()) {
        // the reference validator judged over this schema (the generator's abstract one), not over the resolved text
        obj.insert("abstract_schema".into(), J::String(line.clone()));
    }
    let e = best.entry((stream.to_string(), signature.to_string())).or_insert((usize::MAX, String::new(), J::Null, 0));
    e.3 += 1;
    if size < e.0 {
        e.0 = size;
        e.1 = what.to_string();
        e.2 = case;
    }
}

/// the answers of `(all ts d)` for many documents over ONE schema, asked as `(all* ts d …)` in chunks: the driver parses,
/// decodes and judges the schema once per chunk instead of once per document
fn all_many(drv: &mut Driver, ts: &Sexp, abs: Option<&Sexp>, docs: Vec<Sexp>) -> Vec<Sexp> {
    let many = |drv: &mut Driver, head: &str, ts: &Sexp, docs: &[Sexp]| -> Vec<Sexp> {
        let mut reqs = vec![];
        let mut sizes = vec![];
        for ch in docs.chunks(100) {
            let mut v = vec![ts.clone()];
            v.extend(ch.iter().cloned());
            reqs.push(Sexp::call(head, v));
            sizes.push(ch.len());
        }
        let mut out = vec![];
        for (a, n) in drv.batch(&reqs).into_iter().zip(sizes) {
            if a.head() == Some(head) && a.args().len() == n {
                out.extend(a.args().iter().cloned());
            } else {
                out.extend(std::iter::repeat(a).take(n));
            }
        }
        out
    };
    match abs {
        None => many(drv, "all*", ts, &docs),
        // K over the really resolved schema, the reference validator over the generator's ABSTRACT schema: a defect of the
        // schema pipeline (parser, merge, extension resolver) must not reach the oracle
        Some(abs) => {
            let errs = many(drv, "errs*", ts, &docs);
            let judged = many(drv, "judge*", abs, &docs);
            errs.into_iter()
                .zip(judged)
                .map(|(e, j)| {
                    if e.head() == Some("errs") && j.head() == Some("judge") && j.args().len() == 3 {
                        Sexp::call("all", vec![e, j.args()[0].clone(), j.args()[1].clone(), j.args()[2].clone()])
                    } else if e.head() != Some("errs") {
                        e
                    } else {
                        j
                    }
                })
                .collect()
        }
    }
}

fn triple_of(e: &Sexp) -> Triple {
    let l = e.as_list().unwrap_or(&[]);
    (l.first().and_then(|x| x.as_atom()).unwrap_or("?").to_string(), l.get(1).and_then(|x| x.as_int()).unwrap_or(-1) as usize, l.get(2).and_then(|x| x.as_int()).unwrap_or(-1) as usize)
}

fn strs(s: &Sexp) -> Vec<String> {
    s.args().iter().filter_map(|x| x.as_str().map(|t| t.to_string())).collect()
}

fn value_kind(v: &Val) -> &'static str {
    match v {
        Val::Var(..) => "variable",
        Val::Int(..) => "int-literal",
        Val::Float(..) => "float-literal",
        Val::Str(..) => "string-literal",
        Val::Bool(..) => "boolean-literal",
        Val::Null(..) => "null",
        Val::Enum(..) => "enum-literal",
        Val::List(..) => "list-literal",
        Val::Obj(..) => "object-literal",
    }
}

/// C04 signature: what stands at the position of the false alarm (computed from the node, not from the random input)
fn classify_c04(sm: Option<&SchemaModel>, doc: &Doc, d: &Triple) -> String {
    let Some(sm) = sm else { return "unclassified".into() };
    let sch = Sch { m: sm };
    let sites = mutate::collect_sites(&sch, doc);
    if d.0 == "SubscriptionMustHaveExactlyOneRootField" {
        return "subscription-root".into();
    }
    if d.0 == "FragmentConditionNeverMatches" {
        return "spread-applicability".into();
    }
    if d.0 == "DuplicateOperationName" || d.0 == "DuplicateFragmentName" || d.0 == "UnNamedOperationMustBeSingle" {
        return "definition-name".into();
    }
    for s in &sites.vals {
        if s.pos.known && s.pos.line == d.1 && s.pos.col == d.2 {
            let mut dd = doc.clone();
            let v = mutate::val_mut(&mut dd, &s.owner, &s.inner).clone();
            let stripped = match &s.ty {
                Ty::NonNull(i) => (**i).clone(),
                t => t.clone(),
            };
            if let Val::Var(n, _) = &v {
                for def in &doc.defs {
                    if let ExecDef::Op(o) = def {
                        if let Some(vd) = o.vars.iter().find(|x| &x.name == n) {
                            if !vd.ty.is_non_null() && s.ty.is_non_null() {
                                return if vd.default.is_some() {
                                    "nullable-variable-with-default-at-non-null-position".into()
                                } else if s.loc_default {
                                    "nullable-variable-at-non-null-position-with-default".into()
                                } else {
                                    "nullable-variable-at-non-null-position".into()
                                };
                            }
                        }
                    }
                }
                return "variable".into();
            }
            if matches!(stripped, Ty::List(..)) && !matches!(v, Val::List(..) | Val::Null(..)) {
                return format!("single-{}-for-list-type", value_kind(&v));
            }
            let tk = match s.ty.unwrapped() {
                n if BUILTIN_SCALARS.contains(&n) => n.to_string(),
                n => format!("{:?}", sm.kind_of(n)),
            };
            return format!("{}-for-{}", value_kind(&v), tk);
        }
    }
    "other-position".into()
}

impl<'a> Ctx<'a> {
    /// record a failure; of all failures with one signature the smallest input is reported (`flush`)
    fn fail(&mut self, stream: &str, signature: &str, what: &str, case: J, size: usize) {
        record(&mut self.best, &self.abstract_ts, stream, signature, what, case, size)
    }
    fn flush(&mut self) {
        for ((stream, sig), (_, what, case, n)) in std::mem::take(&mut self.best) {
            self.rep.fail(&stream, &sig, &what, case);
            if n > 1 {
                self.rep.count_n(&format!("fail:{stream}:{sig}"), n - 1);
            }
        }
    }

    /// all projects (multi-file documents) of one schema — see imports.rs
    fn group_projects(&mut self, sdl: &[String], projects: Vec<imports::Project>) {
        if projects.is_empty() {
            return;
        }
        let run = with_schema(sdl, |resolved, schema| {
            let ts = from_real_tsdoc(resolved).to_sexp();
            let outs: Vec<Result<imports::ProjectOut, String>> = projects.iter().map(|p| imports::run_project_real(schema, &p.files)).collect();
            (ts, outs)
        });
        let (ts, outs) = match run {
            Ok(x) => x,
            Err(_) => {
                self.rep.count("schema-not-usable:import-stream");
                return;
            }
        };
        // requests: per root `all` on the really merged document (K) and `valid.spec` on the abstract merge (O)
        let mut reqs = vec![];
        let mut idx: Vec<(usize, usize, bool, bool)> = vec![]; // (project, root, has `all`, has `valid.spec`)
        let mut abstracts: BTreeMap<(usize, usize), Result<(), String>> = BTreeMap::new();
        for (pi, o) in outs.iter().enumerate() {
            let o = match o {
                Ok(o) => o,
                Err(why) => {
                    self.rep.count(&format!("import:not-checked:{}", why.split(':').next().unwrap_or("")));
                    if why.starts_with("panic") {
                        let size = projects[pi].size();
                        self.fail("O", "import:panic", &format!("the real pipeline panicked on a multi-file project: {why}"), projects[pi].to_json(&self.prop, 0), size);
                    } else if self.rep.notes.len() < 5 {
                        self.rep.notes.push(format!("import project not checked: {why}"));
                    }
                    continue;
                }
            };
            let files: Vec<(String, Doc)> = projects[pi].files.iter().zip(o.parsed.iter()).map(|(f, d)| (f.path.clone(), d.clone())).collect();
            for (ri, r) in o.roots.iter().enumerate() {
                let has_all = if let imports::RootOut::Checked { doc, .. } = r {
                    reqs.push(doc.to_sexp());
                    true
                } else {
                    false
                };
                let has_spec = match imports::abstract_merge(&files, ri) {
                    Ok(d) => {
                        reqs.push(d.to_sexp());
                        abstracts.insert((pi, ri), Ok(()));
                        true
                    }
                    Err(e) => {
                        abstracts.insert((pi, ri), Err(e));
                        false
                    }
                };
                idx.push((pi, ri, has_all, has_spec));
            }
        }
        let ans = all_many(self.drv, &ts, self.abstract_ts.as_ref().map(|a| &a.0), reqs);
        let mut k = 0;
        self.cli_group = 0;
        // per project: number of roots judged spec-valid (C04), roots whose merge violates the labelled rule (C03)
        let mut tally: BTreeMap<usize, (usize, Vec<usize>)> = BTreeMap::new();
        for (pi, ri, has_all, has_spec) in idx {
            let p = &projects[pi];
            let Ok(o) = &outs[pi] else { continue };
            let size = p.size();
            self.rep.evaluations += 1;
            // ---- K on the really merged document ----
            if has_all {
                let a = &ans[k];
                k += 1;
                if let imports::RootOut::Checked { diags, .. } = &o.roots[ri] {
                    if a.head() == Some("all") && a.args().len() == 4 {
                        let mut model: Vec<Triple> = a.args()[0].args().iter().map(triple_of).collect();
                        let mut realv = diags.clone();
                        model.sort();
                        realv.sort();
                        self.rep.k_cases += 1;
                        if model != realv {
                            let only_real: Vec<&Triple> = realv.iter().filter(|t| !model.contains(t)).collect();
                            let only_model: Vec<&Triple> = model.iter().filter(|t| !realv.contains(t)).collect();
                            let sig = only_real.first().or(only_model.first()).map(|t| t.0.clone()).unwrap_or_else(|| "multiplicity".into());
                            self.fail("K", &format!("check:{sig}"), &format!("model ≠ code on (import, root {}) only-code {:?} only-model {:?}", p.files[ri].path, only_real, only_model), p.to_json(&self.prop, ri), size);
                        }
                    } else {
                        self.fail("K", "driver-answer", &format!("unexpected driver answer {}", a.to_line().chars().take(200).collect::<String>()), p.to_json(&self.prop, ri), size);
                    }
                }
            }
            // ---- O: the abstract merge is spec-valid ⇒ no diagnostic ----
            if !has_spec {
                self.rep.count(&format!("import:abstract-merge-undefined:{}", abstracts.get(&(pi, ri)).and_then(|r| r.as_ref().err()).map(|e| e.split(':').next().unwrap_or("").to_string()).unwrap_or_default()));
                continue;
            }
            // of the `all` answer on the abstract merge: (rules …) for labelled projects, (spec …) for valid ones
            let whole = &ans[k];
            k += 1;
            let dummy = Sexp::call("none", vec![]);
            let a = if whole.head() == Some("all") { whole.args().get(if p.labels.is_empty() { 2 } else { 1 }).unwrap_or(&dummy) } else { &dummy };
            if self.prop == "C03" && !p.labels.is_empty() {
                // ---- O (C03): the abstract merge violates the labelled rule(s) ⇒ a diagnostic of a kind of the rule ----
                let rules = strs(a);
                if a.head() != Some("rules") || !p.labels.iter().all(|l| rules.contains(&l.rule)) {
                    self.rep.count(&format!("import:fault-not-in-this-root's-merge:{}", p.labels[0].mutation));
                    continue;
                }
                self.rep.o_cases += 1;
                tally.entry(pi).or_default().1.push(ri);
                if ri == 0 {
                    for f in &p.features {
                        self.rep.count(&format!("feature:{f}"));
                    }
                }
                self.rep.nontrivial(&format!("{}|{}|{}", p.sdl.join("\n"), ri, p.files.iter().map(|f| format!("{}\n{}", f.path, f.text)).collect::<Vec<_>>().join("\n--\n")));
                let l = &p.labels[0];
                self.rep.count(&format!("import-mutation:{}", l.mutation));
                let kinds: Vec<String> = p.labels.iter().flat_map(|l| self.kinds.get(&l.rule).cloned().unwrap_or_default()).collect();
                // signature: the rule and WHERE the fault sits relative to the root — not the site inside the definition
                let place = if l.class.starts_with("import/") {
                    l.class.clone()
                } else if p.fault_files.is_empty() {
                    "import/document-or-operation-level-fault".to_string()
                } else if p.fault_files.contains(&ri) {
                    "import/fault-in-importing-file".to_string()
                } else {
                    "import/fault-in-imported-file".to_string()
                };
                self.rep.count(&format!("class:{place}"));
                match &o.roots[ri] {
                    imports::RootOut::Checked { raw, diags, .. } => {
                        let of_kind: Vec<&Diag> = raw.iter().zip(diags.iter()).filter(|(_, t)| kinds.contains(&t.0)).map(|(d, _)| d).collect();
                        if raw.is_empty() {
                            self.fail("O", &format!("{}:{}", l.rule, place), &format!("multi-file document (root {}) accepted with no diagnostic although its merge violates rule {} ({} at {})", p.files[ri].path, l.rule, l.mutation, l.class), p.to_json(&self.prop, ri), size);
                        } else if of_kind.is_empty() {
                            self.fail(
                                "O",
                                &format!("{}:{}", l.rule, place),
                                &format!("multi-file document (root {}): rule {} is violated ({} at {}) but no diagnostic of its kinds {:?}; got {:?}", p.files[ri].path, l.rule, l.mutation, l.class, kinds, diags.iter().map(|d| &d.0).collect::<BTreeSet<_>>()),
                                p.to_json(&self.prop, ri),
                                size,
                            );
                        } else if !p.fault_files.is_empty() && !of_kind.iter().any(|d| d.file >= 1 && p.fault_files.contains(&(d.file - 1))) {
                            self.fail(
                                "O",
                                &format!("{}:{}/diagnostic-not-located-in-the-faulty-file", l.rule, place),
                                &format!("multi-file document (root {}): the fault ({} at {}) is confined to fragment definitions of file(s) {:?}, but every diagnostic of the rule's kinds is located elsewhere: {:?}", p.files[ri].path, l.mutation, l.class, p.fault_files.iter().map(|i| p.files[*i].path.clone()).collect::<Vec<_>>(), of_kind.iter().map(|d| (d.kind.clone(), d.file, d.line, d.col)).collect::<Vec<_>>()),
                                p.to_json(&self.prop, ri),
                                size,
                            );
                        }
                    }
                    imports::RootOut::ImportError(kind, _) => self.rep.count(&format!("import:labelled-root-import-error:{kind}")),
                    imports::RootOut::Panic(m) => {
                        self.fail("O", "import:panic", &format!("the real pipeline panicked (root {}): {m}", p.files[ri].path), p.to_json(&self.prop, ri), size);
                    }
                }
                continue;
            }
            if self.prop != "C04" || !p.labels.is_empty() {
                continue;
            }
            let spec_ok = a.head() == Some("spec") && a.args().first().and_then(|x| x.as_atom()) == Some("true");
            if !spec_ok {
                let v: Vec<String> = a.args().iter().skip(1).filter_map(|x| x.as_str().map(|s| s.to_string())).collect();
                self.rep.count(&format!("import:root-not-spec-valid:{}", v.join("+")));
                continue;
            }
            self.rep.o_cases += 1;
            tally.entry(pi).or_default().0 += 1;
            self.rep.count(&format!("o:{}", p.origin.split(':').next().unwrap_or("")));
            if ri == 0 {
                for f in &p.features {
                    self.rep.count(&format!("feature:{f}"));
                }
            }
            self.rep.nontrivial(&format!("{}|{}|{}", p.sdl.join("\n"), ri, p.files.iter().map(|f| format!("{}\n{}", f.path, f.text)).collect::<Vec<_>>().join("\n--\n")));
            match &o.roots[ri] {
                imports::RootOut::Checked { raw, diags, .. } => {
                    if let (Some(d), Some(t)) = (raw.first(), diags.first()) {
                        let place = if d.file == ri + 1 { "in-importing-file" } else { "in-imported-definition" };
                        self.fail(
                            "O",
                            &format!("import:{}:{}", t.0, place),
                            &format!("false alarm on a spec-valid multi-file document (root {}): {} at {}:{} of file #{} ({}) — {} diagnostics in all", p.files[ri].path, t.0, d.line, d.col, d.file, d.message, raw.len()),
                            p.to_json(&self.prop, ri),
                            size,
                        );
                    }
                }
                imports::RootOut::ImportError(kind, msg) => {
                    self.fail("O", &format!("import:import-error:{kind}"), &format!("import resolution fails on a spec-valid multi-file document (root {}): {msg}", p.files[ri].path), p.to_json(&self.prop, ri), size);
                }
                imports::RootOut::Panic(m) => {
                    self.fail("O", "import:panic", &format!("the real pipeline panicked (root {}): {m}", p.files[ri].path), p.to_json(&self.prop, ri), size);
                }
            }
        }
        for (pi, (valid_roots, violating)) in tally {
            if let Ok(o) = &outs[pi] {
                self.cli_leg(&projects[pi], o, valid_roots, &violating);
            }
        }
    }

    /// the CLI leg: the whole project through `nitrogql-cli check --output-format json` (every file is checked by the
    /// command). `valid_roots` / `violating_roots`: what the reference validator said about the abstract merges.
    fn cli_leg(&mut self, p: &imports::Project, o: &imports::ProjectOut, valid_roots: usize, violating_roots: &[usize]) {
        if self.cli_budget == 0 {
            return;
        }
        let reaches_checker = o.roots.iter().all(|r| matches!(r, imports::RootOut::Checked { .. }));
        let mut local: BTreeMap<String, String> = BTreeMap::new();
        for r in &o.roots {
            if let imports::RootOut::Checked { raw, .. } = r {
                for d in raw {
                    local.entry(imports::message_template(&d.message)).or_insert_with(|| d.kind.clone());
                    self.templates.entry(imports::message_template(&d.message)).or_insert_with(|| d.kind.clone());
                }
            }
        }
        let size = p.size();
        if self.prop == "C04" && p.labels.is_empty() {
            if valid_roots != p.files.len() || self.cli_group >= 2 {
                return; // some file's merge is not spec-valid (e.g. an unused fragment): nothing is claimed about the command
            }
            self.cli_group += 1;
            self.cli_budget -= 1;
            // file-system layouts in turn (plain, explicit globs, symbolic links to directories / a file, one directory
            // under two paths, duplicate globs, `..` in globs)
            let layout = p.cli_layout.unwrap_or(self.cli_total % imports::CLI_LAYOUTS.len());
            self.cli_total += 1;
            let (run, layout_name) = imports::run_project_cli(&self.cli, &self.scratch, p, layout);
            let family = imports::layout_family(imports::CLI_LAYOUTS.iter().position(|n| *n == layout_name).unwrap_or(0));
            self.rep.count(&format!("cli-leg:layout:{layout_name}"));
            let mut cj = p.to_json(&self.prop, 0);
            cj["cli_layout"] = json!(layout);
            self.rep.count("cli-leg:valid-project");
            self.rep.o_cases += 1;
            self.rep.evaluations += 1;
            if let Some(m) = &run.malformed {
                self.fail("O", "cli:malformed-output", &format!("`check --output-format json` on a spec-valid project (layout {layout_name}): {m}"), cj, size);
            } else if run.code != Some(0) || !run.errors.is_empty() {
                let class = run
                    .errors
                    .first()
                    .map(|e| {
                        if e.3.starts_with("File '") && e.3.trim_end().ends_with("not found.") {
                            "import-file-not-found".to_string()
                        } else {
                            self.templates.get(&imports::message_template(&e.3)).cloned().unwrap_or_else(|| "unknown-message".into())
                        }
                    })
                    .unwrap_or_else(|| "no-diagnostic".into());
                self.fail(
                    "O",
                    &format!("cli:{class}@{family}"),
                    &format!("`nitrogql-cli check` exits {:?} with {} diagnostics on a project whose every file is spec-valid (file-system layout {layout_name}): {:?}", run.code, run.errors.len(), run.errors.first()),
                    cj,
                    size,
                );
            }
        }
        if self.prop == "C03" && !p.labels.is_empty() && !violating_roots.is_empty() && reaches_checker {
            let l = &p.labels[0];
            // faults that only the importing operation can expose come first; of the others every fourth project
            self.cli_seen += 1;
            let priority = matches!(l.rule.as_str(), "5.8.3" | "5.8.5" | "5.5.2.1");
            if !self.replaying && ((!priority && self.cli_seen % 4 != 0) || self.cli_group >= 3) {
                return;
            }
            self.cli_group += 1;
            self.cli_budget -= 1;
            // (the `..`-glob layout is left to C04: it is a known finding that would hide the labelled fault)
            let layout = p.cli_layout.unwrap_or(self.cli_total % (imports::CLI_LAYOUTS.len() - 1));
            self.cli_total += 1;
            let (run, layout_name) = imports::run_project_cli(&self.cli, &self.scratch, p, layout);
            self.rep.count(&format!("cli-leg:layout:{layout_name}"));
            self.rep.count("cli-leg:faulty-project");
            self.rep.count(&format!("cli-leg:rule:{}", l.rule));
            self.rep.o_cases += 1;
            self.rep.evaluations += 1;
            let kinds: Vec<String> = self.kinds.get(&l.rule).cloned().unwrap_or_default();
            let class_of = |m: &str| -> String { local.get(&imports::message_template(m)).or_else(|| self.templates.get(&imports::message_template(m))).cloned().unwrap_or_else(|| "unknown-message".into()) };
            let got: BTreeSet<String> = run.errors.iter().map(|e| class_of(&e.3)).collect();
            let ri = violating_roots[0];
            let cjf = |p: &imports::Project, prop: &str| {
                let mut cj = p.to_json(prop, ri);
                cj["cli_layout"] = json!(layout);
                cj
            };
            if let Some(m) = &run.malformed {
                self.fail("O", "cli:malformed-output", &format!("`check --output-format json` (layout {layout_name}): {m}"), cjf(p, &self.prop), size);
            } else if run.code == Some(0) {
                self.fail(
                    "O",
                    &format!("cli:{}:exit-0", l.rule),
                    &format!("`nitrogql-cli check` exits 0 ({} diagnostics) although the merged document of {} violates rule {} ({} at {}; file-system layout {layout_name})", run.errors.len(), p.files[ri].path, l.rule, l.mutation, l.class),
                    cjf(p, &self.prop),
                    size,
                );
            } else if !got.iter().any(|k| kinds.contains(k)) {
                self.fail(
                    "O",
                    &format!("cli:{}:no-diagnostic-of-the-rule", l.rule),
                    &format!("`nitrogql-cli check` exits {:?} but reports no diagnostic of the kinds {:?} of rule {} ({} at {}; merged document of {}; file-system layout {layout_name}); message classes {:?}; first message {:?}", run.code, kinds, l.rule, l.mutation, l.class, p.files[ri].path, got, run.errors.first().map(|e| &e.3)),
                    cjf(p, &self.prop),
                    size,
                );
            }
        }
    }

    /// all cases of one schema
    fn group(&mut self, sdl: &[String], cases: Vec<Case>) {
        if cases.is_empty() {
            return;
        }
        let raw = cases[0].raw_schema;
        let texts: Vec<String> = cases.iter().map(|c| c.text.clone()).collect();
        let (ts, outs) = match run_real(sdl, &texts, raw) {
            Ok(x) => x,
            Err(e) => {
                self.rep.count(&format!("schema-not-usable:{}", e.split(':').next().unwrap_or("")));
                if self.rep.notes.len() < 5 {
                    self.rep.notes.push(format!("schema not usable: {e}"));
                }
                return;
            }
        };
        let sm = schema_model_from_sdl(sdl);
        let mut reqs = vec![];
        let mut idx = vec![];
        for (i, o) in outs.iter().enumerate() {
            match o {
                RealOut::Checked { doc, .. } => {
                    reqs.push(doc.to_sexp());
                    idx.push(i);
                }
                RealOut::NotChecked(why) => {
                    self.rep.count(&format!("not-checked:{}:{}", cases[i].origin.split(':').next().unwrap_or(""), why.split(':').take(2).collect::<Vec<_>>().join(":")));
                    if why.starts_with("panic") {
                        let cj = cases[i].to_json(&self.prop);
                        self.fail("O", &format!("panic:{}", cases[i].origin), &format!("the real pipeline panicked: {why}"), cj, cases[i].text.len());
                    }
                }
            }
        }
        let ans = all_many(self.drv, &ts, self.abstract_ts.as_ref().map(|a| &a.0), reqs);
        for (a, i) in ans.iter().zip(idx) {
            let case = &cases[i];
            let RealOut::Checked { doc, diags, raw } = &outs[i] else { continue };
            self.one(case, sm.as_ref(), doc, diags, raw, a);
        }
    }

    fn one(&mut self, case: &Case, sm: Option<&SchemaModel>, doc: &Doc, real: &[Triple], raw: &[Diag], ans: &Sexp) {
        self.rep.evaluations += 1;
        let cj = || case.to_json(&self.prop);
        let size = case.text.len();
        if ans.head() != Some("all") || ans.args().len() != 4 {
            record(&mut self.best, &self.abstract_ts, "K", "driver-answer", &format!("unexpected driver answer {}", ans.to_line().chars().take(200).collect::<String>()), case.to_json(&self.prop), size);
            return;
        }
        let a = ans.args();
        // ---- K ----
        let mut model: Vec<Triple> = a[0]
            .args()
            .iter()
            .map(|e| {
                let l = e.as_list().unwrap_or(&[]);
                (l.first().and_then(|x| x.as_atom()).unwrap_or("?").to_string(), l.get(1).and_then(|x| x.as_int()).unwrap_or(-1) as usize, l.get(2).and_then(|x| x.as_int()).unwrap_or(-1) as usize)
            })
            .collect();
        let mut realv: Vec<Triple> = real.to_vec();
        model.sort();
        realv.sort();
        self.rep.k_cases += 1;
        for (k, _, _) in &realv {
            self.rep.count(&format!("kind:{k}"));
        }
        for d in raw {
            self.templates.entry(imports::message_template(&d.message)).or_insert_with(|| d.kind.clone());
        }
        if model != realv {
            let only_real: Vec<&Triple> = realv.iter().filter(|t| !model.contains(t)).collect();
            let only_model: Vec<&Triple> = model.iter().filter(|t| !realv.contains(t)).collect();
            let sig = only_real.first().or(only_model.first()).map(|t| t.0.clone()).unwrap_or_else(|| "multiplicity".into());
            record(&mut self.best, &self.abstract_ts, "K", &format!("check:{sig}"), &format!("model ≠ code on ({}) only-code {:?} only-model {:?}", case.origin, only_real, only_model), cj(), size);
        }
        let rules = strs(&a[1]);
        let spec_ok = a[2].args().first().and_then(|x| x.as_atom()) == Some("true");
        let spec_violated: Vec<String> = a[2].args().iter().skip(1).filter_map(|x| x.as_str().map(|s| s.to_string())).collect();
        let schema_ok = a[3].args().first().and_then(|x| x.as_atom()) == Some("true");
        if !schema_ok && !case.raw_schema {
            self.rep.count("schema-rejected-by-reference-validator");
            if self.rep.notes.len() < 5 {
                self.rep.notes.push(format!("reference validator rejects a schema the real checker accepted: {}", case.sdl.join("\n").chars().take(300).collect::<String>()));
            }
        }
        if case.raw_schema {
            return;
        }
        // ---- O ----
        if self.prop == "C04" && case.labels.is_empty() {
            for f in &case.features {
                self.rep.count(&format!("feature:{f}"));
            }
            if !spec_ok {
                // a generator bug, not a finding about the checker
                self.rep.count(&format!("generator-invalid:{}:{}", case.origin, spec_violated.join("+")));
                let key = format!("generator_invalid_example:{}", spec_violated.join("+"));
                if !self.rep.extra.contains_key(&key) {
                    self.rep.extra.insert(key, case.to_json(&self.prop));
                }
                return;
            }
            self.rep.o_cases += 1;
            self.rep.count(&format!("o:{}", case.origin));
            if case.text.contains("fragment ") || case.text.contains('$') {
                self.rep.nontrivial(&format!("{}|{}", case.sdl.join("\n"), case.text));
            }
            if let Some(d) = real.first() {
                let cls = classify_c04(sm, doc, d);
                let msg = raw.first().map(|r| r.message.clone()).unwrap_or_default();
                record(&mut self.best, &self.abstract_ts, "O", &format!("{}:{}", d.0, cls), &format!("false alarm on a spec-valid document: {} at {}:{} ({msg}) — {} diagnostics in all", d.0, d.1, d.2, real.len()), cj(), size);
            }
        }
        if self.prop == "C03" && !case.labels.is_empty() {
            let confirmed: Vec<&Label> = case.labels.iter().filter(|l| rules.contains(&l.rule)).collect();
            for l in case.labels.iter().filter(|l| !rules.contains(&l.rule)) {
                self.rep.count(&format!("mutation-not-confirmed:{}", l.mutation));
            }
            if confirmed.len() != case.labels.len() {
                return;
            }
            self.rep.o_cases += 1;
            self.rep.nontrivial(&format!("{}|{}", case.sdl.join("\n"), case.text));
            let has_kind = |l: &Label| real.iter().any(|d| self.kinds.get(&l.rule).map_or(false, |ks| ks.contains(&d.0)));
            if case.labels.len() == 1 {
                let l = &case.labels[0];
                self.rep.count(&format!("mutation:{}", l.mutation));
                self.rep.count(&format!("class:{}", l.class.split('/').next().unwrap_or("")));
                if real.is_empty() {
                    record(&mut self.best, &self.abstract_ts, "O", &format!("{}:{}", l.rule, l.class), &format!("accepted with no diagnostic although rule {} is violated ({} at {})", l.rule, l.mutation, l.class), cj(), size);
                } else if !has_kind(l) {
                    record(
                        &mut self.best,
                        &self.abstract_ts,
                        "O",
                        &format!("{}:{}", l.rule, l.class),
                        &format!("rule {} is violated ({} at {}) but no diagnostic of its kinds {:?}; got {:?}", l.rule, l.mutation, l.class, self.kinds.get(&l.rule), real.iter().map(|d| &d.0).collect::<BTreeSet<_>>()),
                        cj(),
                        size,
                    );
                }
            } else {
                self.rep.count("mutation:double-fault");
                if real.is_empty() {
                    let sig = case.labels.iter().map(|l| format!("{}:{}", l.rule, l.class)).collect::<Vec<_>>().join("&");
                    record(&mut self.best, &self.abstract_ts, "O", &sig, &format!("double fault accepted with no diagnostic ({:?})", case.labels), cj(), size);
                } else {
                    let hit = case.labels.iter().filter(|l| has_kind(l)).count();
                    if hit == 0 {
                        let sig = case.labels.iter().map(|l| format!("{}:{}", l.rule, l.class)).collect::<Vec<_>>().join("&");
                        record(&mut self.best, &self.abstract_ts, "O", &sig, &format!("double fault: no diagnostic of a kind belonging to either rule ({:?}); got {:?}", case.labels, real), cj(), size);
                    } else if hit < case.labels.len() {
                        self.rep.count("double-fault:one-rule-masked-by-the-other");
                    }
                }
            }
        }
    }
}

fn lbl(rule: &str, class: &str, mutation: &str) -> Vec<Label> {
    vec![Label { rule: rule.into(), class: class.into(), mutation: mutation.into() }]
}

/// minimised past failures and the DESIGN §9 rows, run first
fn corpus() -> Vec<Case> {
    let s1 = "type Query { f(x: In, fl: Float, id: ID, l: [Int], ll: [[Int]], nl: [Int!], n: Int!, e: E, y: In2): Int a: A i: I u: U }\n\
              input In { a: Int b: Int r: Int! = 1 }\n\
              input In2 { q: Int! }\n\
              enum E { X Y }\n\
              interface I { id: ID }\n\
              type A implements I { id: ID x: Int b: B }\n\
              type B implements I { id: ID y: Int }\n\
              union U = A | B\n\
              type Subscription { a: Int b: Int }\n\
              directive @tag(label: String) repeatable on FRAGMENT_DEFINITION | FIELD | QUERY\n";
    let c = |name: &str, doc: &str, labels: Vec<Label>| Case { sdl: vec![s1.to_string()], text: doc.to_string(), labels, origin: format!("corpus:{name}"), features: vec![name.to_string()], raw_schema: false };
    vec![
        // C03 rows
        c("d-unknown-input-field", "query Q { f(n: 1, x: {c: 1}) }", lbl("5.6.2", "op/arg:top/optional-field-omitted", "unknown-input-field")),
        c("e-directive-on-inline-fragment", "query Q { a { ... @nope { x } } }", lbl("5.7.1", "op/dir@INLINE_FRAGMENT", "unknown-directive")),
        c("e-directive-on-spread", "query Q { a { ...F @nope } } fragment F on A { x }", lbl("5.7.1", "op/dir@FRAGMENT_SPREAD", "unknown-directive")),
        c("e-directive-on-fragment-definition", "query Q { a { ...F } } fragment F on A @nope { x }", lbl("5.7.1", "frag1/dir@FRAGMENT_DEFINITION", "unknown-directive")),
        c("e-directive-on-variable-definition", "query Q($v: Int @nope) { f(n: 1, fl: null, l: [$v]) }", lbl("5.7.1", "op/dir@VARIABLE_DEFINITION", "unknown-directive")),
        c("g-unspread-fragment", "fragment F on A { nonexistent }", lbl("5.3.1", "unspread-frag", "rename-field")),
        c("same-interface-inline", "query Q { i { ... on I { nonexistent } } }", lbl("5.3.1", "same-interface-inline", "rename-field")),
        c("variable-default-unchecked", "query Q($v: Int = \"s\") { f(n: 1, l: [$v]) }", lbl("5.6.1", "var-default", "wrong-literal-type")),
        // 5.8.5 with defaults (spec IsVariableUsageAllowed: only a NON-NULL variable default stands in for null)
        c("null-default-at-non-null-arg", "query Q($v: Int = null) { f(n: $v) }", lbl("5.8.5", "op/arg:top/null-default-at-non-null", "null-default-at-non-null")),
        c("null-default-at-non-null-input-field", "query Q($v: Int = null) { f(n: 1, x: {r: $v}) }", vec![]),
        c("null-default-at-non-null-input-field-no-default", "query Q($v: Int = null) { f(n: 1, y: {q: $v}) }", lbl("5.8.5", "op/arg:input-field/null-default-at-non-null", "null-default-at-non-null")),
        c("null-default-at-non-null-list-item", "query Q($v: Int = null) { f(n: 1, nl: [$v]) }", lbl("5.8.5", "op/arg:list-item/null-default-at-non-null", "null-default-at-non-null")),
        c("null-default-at-non-null-directive-arg", "query Q($v: Boolean = null) { f(n: 1) @skip(if: $v) }", lbl("5.8.5", "op/directive-arg@FIELD:top/null-default-at-non-null", "null-default-at-non-null")),
        c("null-default-at-non-null-in-fragment", "query Q($v: Int = null) { ...F } fragment F on Query { f(n: $v) }", lbl("5.8.5", "frag1/arg:top/null-default-at-non-null", "null-default-at-non-null")),
        c("nullable-item-variable", "query Q($v: [Int]) { f(n: 1, nl: $v) }", lbl("5.8.5", "op/arg:top/nullable-item-at-non-null-item", "list-shape-mismatch")),
        // DESIGN §9-f: a repeated argument name; only the first occurrence is type-checked
        c("f-repeated-argument-wrong-value", "query Q { f(n: 1, n: \"s\") }", lbl("5.4.2", "op/repeated-argument", "duplicate-argument-wrong-value")),
        // variables in the directives of a fragment DEFINITION belong to the operations that spread the fragment
        c("undefined-variable-in-fragment-definition-directive", "query Q { a { ...F } } fragment F on A @tag(label: $nope) { x }", lbl("5.8.3", "frag1/directive-arg@FRAGMENT_DEFINITION:top", "undefined-variable")),
        c("incompatible-variable-in-fragment-definition-directive", "query Q($v: Int) { a { ...F } } fragment F on A @tag(label: $v) { x }", lbl("5.8.5", "frag1/directive-arg@FRAGMENT_DEFINITION:top", "incompatible-variable-type")),
        c("variable-in-fragment-definition-directive-ok", "query Q($v: String) { a { ...F } } fragment F on A @tag(label: $v) { x }", vec![]),
        // C04 rows
        c("l-int-for-float", "query Q { f(n: 1, fl: 1) }", vec![]),
        c("l-int-for-id", "query Q { f(n: 1, id: 1) }", vec![]),
        c("m-item-for-list", "query Q { f(n: 1, l: 1) }", vec![]),
        c("m-item-for-nested-list", "query Q { f(n: 1, ll: 1) }", vec![]),
        c("n-nullable-variable-with-default", "query Q($v: Int = 1) { f(n: $v) }", vec![]),
        c("o-subscription-same-key-twice", "subscription S { a a }", vec![]),
        c("null-for-list", "query Q { f(n: 1, l: null, ll: [null, [1, null]]) }", vec![]),
        // plain positives / negatives that walk most branches
        c("spreads", "query Q { u { ...FA ... on B { y } ... on I { id } } i { ... on A { x } ... on U { __typename } } } fragment FA on A { x b { y } }", vec![]),
        c("cycle", "query Q { a { ...F } } fragment F on A { x ...G } fragment G on A { ...F }", lbl("5.5.2.2", "frag1/two-cycle", "fragment-cycle")),
        c("impossible", "query Q { a { ... on B { y } } }", lbl("5.5.2.3", "op/inline/Object-in-Object", "impossible-spread")),
        c("args", "query Q { f(zz: 1) a { x(q: 1) } }", lbl("5.4.1", "op/field-arg", "unknown-argument")),
        c("required", "query Q { f }", lbl("5.4.2.1", "op/field-arg", "drop-required-argument")),
        // 5.2.3.1: `__typename` is a response key like any other (spec CollectFields)
        c("subscription-root-plus-typename", "subscription S { a __typename }", lbl("5.2.3.1", "subscription-root/second-field-is-__typename", "two-subscription-root-fields(direct,after)")),
        c("subscription-typename-first-aliased-in-untyped-inline", "subscription S { ... @include(if: true) { t: __typename } a }", lbl("5.2.3.1", "subscription-root/second-field-is-aliased-__typename", "two-subscription-root-fields(untyped-inline-with-include,before)")),
        c("subscription-typename-through-two-fragments", "subscription S { a ...F1 } fragment F1 on Subscription { ...F2 } fragment F2 on Subscription { __typename }", lbl("5.2.3.1", "subscription-root/second-field-is-__typename", "two-subscription-root-fields(two-named-fragments,after)")),
        c("subscription-typename-on-root-inline", "subscription S { ... on Subscription { __typename } b }", lbl("5.2.3.1", "subscription-root/second-field-is-__typename", "two-subscription-root-fields(inline-on-root,before)")),
        // one response key reached several ways is one root field; `__typename` below the root field does not count (C04)
        c("subscription-one-key-many-ways", "subscription S { a ... on Subscription { a } ...F ... @include(if: true) { a } } fragment F on Subscription { ...G } fragment G on Subscription { a }", vec![]),
        // spec 5.2.3.1 (Oct 2021) also forbids an introspection field as THE root field; not among the implemented rules (K only)
        c("subscription-only-typename", "subscription S { __typename }", vec![]),
        // names of different namespaces may coincide (C04): operation = fragment = field = type = variable = directive
        c("op-name=fragment-name", "query A { a { ...A } } fragment A on A { id }", vec![]),
        c("fragment-before-op-of-its-name", "fragment Q on A { id } query Q { a { ...Q } }", vec![]),
        c("names-across-namespaces", "query tag($a: Int = 1, $tag: String) @tag(label: $tag) { a: f(n: $a) a2: a { ...a ...f ...X } } fragment a on A { x } fragment f on A { id } fragment X on A { b { y } }", vec![]),
        c("names-differ-by-case", "query q { a { ...Q ...f } } query Q { a { ...F } } fragment Q on A { x } fragment f on A { id } fragment F on A { x }", vec![]),
        // numeric boundaries: Float and ID take any integer literal, Int only 32-bit values (spec 3.5.1 / 3.5.2 / 3.5.5)
        c("big-integers-for-float-and-id", "query Q { f(n: 2147483647, fl: 3000000000, id: 1099511627776, l: [-2147483648, 0, -0], ll: -1) }", vec![]),
        c("big-integers-in-variable-defaults", "query Q($i: ID = 4294967296, $f: Float = 9007199254740993, $n: Int! = -2147483648) { f(n: $n, id: $i, fl: $f, x: {a: 2147483647}) a2: f(n: 0, fl: 1e400, id: 12345678901234567890) }", vec![]),
        // fixed e3584a3 (was the open finding 5.6.1-int32:int-position): an integer literal beyond 32 bits where Int is
        // expected is an ordinary 5.6.1 fault — argument, list item, single value for a list, input field, directive
        // argument (schema of the corpus has none of type Int: covered by the generated family), variable default
        c("int-literal-outside-32-bit-range", "query Q { f(n: 4294967296) }", lbl("5.6.1", "field-arg/int32", "int-literal-outside-32-bit-range")),
        c("int-literal-just-above-i32-max", "query Q { f(n: 2147483648) }", lbl("5.6.1", "field-arg/int32", "int-literal-outside-32-bit-range")),
        c("int-literal-just-below-i32-min", "query Q { f(n: -2147483649) }", lbl("5.6.1", "field-arg/int32", "int-literal-outside-32-bit-range")),
        c("int-literal-outside-32-bit-range-in-list", "query Q { f(n: 1, l: [1, 3000000000, 2]) }", lbl("5.6.1", "field-arg/list-item/int32", "int-literal-outside-32-bit-range")),
        c("int-literal-outside-32-bit-range-single-value-for-list", "query Q { f(n: 1, ll: 12345678901234567890) }", lbl("5.6.1", "field-arg/single-for-list/int32", "int-literal-outside-32-bit-range")),
        c("int-literal-outside-32-bit-range-in-input-field", "query Q { f(n: 1, x: {a: -9223372036854775809}) }", lbl("5.6.1", "field-arg/input-field/int32", "int-literal-outside-32-bit-range")),
        c("int-literal-outside-32-bit-range-in-variable-default", "query Q($v: Int = 9007199254740992) { f(n: 1, l: [$v]) }", lbl("5.6.1", "var-default/int32", "int-literal-outside-32-bit-range")),
        c("int-literals-at-the-32-bit-boundaries", "query Q($v: Int = -2147483648) { f(n: 2147483647, l: [$v, -0, 2147483647], x: {a: -2147483648, r: 0}) }", vec![]),
        c("anonymous-op-and-fragment-named-query", "{ a { ...query } } fragment query on A { x }", vec![]),
    ]
    .into_iter()
    .chain(diamond_corpus())
    .collect()
}

/// interfaces joined only by an interface: `... on B` inside an A-typed scope can never apply (5.5.2.3) unless an
/// OBJECT implements both
fn diamond_corpus() -> Vec<Case> {
    let s2 = "type Query { a: A b: B c: C l: Lonely u: U }\n\
              interface A { x: Int peer: B }\n\
              interface B { y: Int }\n\
              interface C implements A & B { x: Int peer: B y: Int }\n\
              interface Lonely { z: Int }\n\
              type OA implements A { x: Int peer: B }\n\
              type OB implements B { y: Int }\n\
              union U = OA | OB\n";
    let s3 = format!("{s2}type OAB implements A & B {{ x: Int peer: B y: Int }}\n");
    let c = |sdl: &str, name: &str, doc: &str, labels: Vec<Label>| Case { sdl: vec![sdl.to_string()], text: doc.to_string(), labels, origin: format!("corpus:{name}"), features: vec![name.to_string()], raw_schema: false };
    let l = |class: &str| lbl("5.5.2.3", class, "impossible-spread-between-types");
    vec![
        c(s2, "diamond-inline", "query Q { a { ... on B { y } } }", l("between-types/Interface-in-Interface/joined-only-by-an-interface")),
        c(s2, "diamond-spread", "query Q { b { ...FA } } fragment FA on A { x }", l("between-types/Interface-in-Interface/joined-only-by-an-interface")),
        c(s2, "diamond-at-depth", "query Q { a { peer { ... { ...FA } } } } fragment FA on A { x }", l("between-types/Interface-in-Interface/joined-only-by-an-interface")),
        c(s2, "diamond-in-unspread-fragment", "fragment H on A { ... on B { y } }", l("between-types/Interface-in-Interface/joined-only-by-an-interface")),
        c(s2, "interface-without-objects-in-interface", "query Q { a { ... on C { y } } }", l("between-types/Interface-in-Interface")),
        c(s2, "lonely-interface-in-union", "query Q { u { ... on Lonely { z } } }", l("between-types/Interface-in-Union")),
        c(s2, "object-in-unrelated-interface", "query Q { b { ... on OA { x } } }", l("between-types/Object-in-Interface")),
        // with a common object implementer the same documents are valid
        c(&s3, "diamond-with-common-object", "query Q { a { ... on B { y } } b { ...FA } } fragment FA on A { x }", vec![]),
    ]
}

/// schemas WRITTEN with extensions (what the real pipeline reads) beside the same schema written plainly (what the
/// reference validator judges over): `Note` joins `Node` and `SearchResult` only through extensions, in a second file
/// that comes first
fn extension_corpus() -> Vec<(Vec<String>, String, Vec<Case>)> {
    let ext = vec![
        "extend type Note implements Node\nextend union SearchResult = Note\nextend type Query { search: SearchResult }\n".to_string(),
        "type Query { note: Note node: Node }\ninterface Node { id: ID }\ntype Note { id: ID text: String }\ntype Tag implements Node { id: ID label: String }\nunion SearchResult = Tag\n".to_string(),
    ];
    let plain = "type Query { note: Note node: Node search: SearchResult }\ninterface Node { id: ID }\ntype Note implements Node { id: ID text: String }\ntype Tag implements Node { id: ID label: String }\nunion SearchResult = Tag | Note\n".to_string();
    let c = |name: &str, doc: &str, labels: Vec<Label>| Case { sdl: ext.clone(), text: doc.to_string(), labels, origin: format!("corpus:{name}"), features: vec![name.to_string()], raw_schema: false };
    vec![(
        ext.clone(),
        plain,
        vec![
            c("interface-joined-by-extension", "query Q { note { ... on Node { id } } node { ... on Note { text } ...N } } fragment N on Note { id }", vec![]),
            c("union-member-added-by-extension", "query Q { search { ... on Note { text } ... on Node { id } } node { ... on SearchResult { __typename } } }", vec![]),
            c("unknown-field-under-extension-joined-interface", "query Q { note { ... on Node { nonexistent } } }", lbl("5.3.1", "op", "rename-field")),
            c("impossible-spread-over-extended-schema", "query Q { note { ... on Tag { label } } }", lbl("5.5.2.3", "op/inline/Object-in-Object", "impossible-spread")),
        ],
    )]
}

/// corpus on schemas the schema checker would reject (K only): TypeSystemError / NoRootType / UnknownType branches
fn raw_corpus() -> Vec<Case> {
    let c = |name: &str, sdl: &str, doc: &str| Case { sdl: vec![sdl.to_string()], text: doc.to_string(), labels: vec![], origin: format!("corpus-raw:{name}"), features: vec![], raw_schema: true };
    vec![
        c("field-of-unknown-type", "type Query { a: Nope b(x: Nope2): Int }", "query Q { a b(x: 1) }"),
        c("no-root-type", "schema { query: Q } type Q { a: Int }", "mutation M { a } query Q1 { a } subscription S { a }"),
        c("unknown-root-type", "schema { query: Nope } type Q { a: Int }", "query Q1 { a }"),
        c("default-roots-missing", "type Q { a: Int }", "query Q1 { a } mutation M { a }"),
        c("union-with-non-object-member", "type Query { i: I u: U } interface I { a: Int } scalar S union U = S | A type A implements I { a: Int }", "query Q { i { ... on U { __typename } } u { ... on I { a } } }"),
        c("scalar-root", "schema { query: S } scalar S", "query Q { a ... on S { b } ...F } fragment F on S { c }"),
        c("duplicate-args-in-schema", "type Query { f(a: Int, a: Int): Int }", "query Q { f(a: 1, zz: 2) }"),
        c("input-with-unknown-field-type", "type Query { f(x: In): Int } input In { a: Nope }", "query Q { f(x: {a: 1}) }"),
    ]
}

/// `base` wrapped in `bits.len() - 1` lists; `bits[0]` = the outermost list is non-null … `bits[d]` = the base is
fn strictness_type(base: &str, bits: &[bool]) -> String {
    let d = bits.len() - 1;
    let mut t = format!("{base}{}", if bits[d] { "!" } else { "" });
    for k in (0..d).rev() {
        t = format!("[{t}]{}", if bits[k] { "!" } else { "" });
    }
    t
}

fn strictness_tag(bits: &[bool]) -> String {
    bits.iter().map(|b| if *b { '1' } else { '0' }).collect()
}

/// Systematic family over spec 5.8.5 AreTypesCompatible (no defaults involved): every pair (variable type, location
/// type) of the same base type and list depth 0..=3 in which the variable is STRICTER than the location at any subset
/// of depths (valid: unlabelled, an O case of C04) and its mirror images in which the variable is LOOSER at exactly one
/// depth (invalid: labelled 5.8.5, an O case of C03) — at five kinds of usage site: field argument, field of an input
/// object literal, directive argument, item of a list literal, argument inside a spread fragment. One schema, one
/// usage per document, so a failure is a minimal concrete input.
fn variable_strictness_corpus() -> Vec<Case> {
    // (base type, deepest list depth enumerated)
    let bases: [(&str, usize); 5] = [("Int", 3), ("String", 1), ("ID", 1), ("E", 1), ("In", 2)];
    let patterns = |d: usize| -> Vec<Vec<bool>> { (0..(1u32 << (d + 1))).map(|m| (0..=d).map(|k| m >> k & 1 == 1).collect()).collect() };
    let mut sdl = String::from("enum E { X Y }\ninput In { k: Int }\n");
    let mut query = String::from("type Query { z: Int");
    for (base, maxd) in bases {
        // one depth more on the location side: the list-item site of depth d sits inside a location of depth d + 1
        for d in 0..=maxd + 1 {
            for p in patterns(d) {
                let (t, tag) = (strictness_type(base, &p), strictness_tag(&p));
                query.push_str(&format!(" f_{base}_{tag}(x: {t}): Int g_{base}_{tag}(w: W_{base}_{tag}): Int"));
                sdl.push_str(&format!("input W_{base}_{tag} {{ x: {t} }}\ndirective @d_{base}_{tag}(x: {t}) on FIELD\n"));
            }
        }
    }
    query.push_str(" }\n");
    sdl.push_str(&query);
    let mut out = vec![];
    for (base, maxd) in bases {
        for d in 0..=maxd {
            for loc in patterns(d) {
                for var in patterns(d) {
                    let looser: Vec<usize> = (0..=d).filter(|&k| loc[k] && !var[k]).collect();
                    if looser.len() > 1 {
                        continue;
                    }
                    let stricter = (0..=d).filter(|&k| var[k] && !loc[k]).count();
                    let (vt, tag) = (strictness_type(base, &var), strictness_tag(&loc));
                    // the location whose ITEM type is `loc`, both nullabilities of the enclosing list
                    let mut sites = vec![
                        ("arg", format!("query Q($v: {vt}) {{ f_{base}_{tag}(x: $v) }}")),
                        ("input-field", format!("query Q($v: {vt}) {{ g_{base}_{tag}(w: {{x: $v}}) }}")),
                        ("directive-arg", format!("query Q($v: {vt}) {{ z @d_{base}_{tag}(x: $v) }}")),
                        ("fragment-arg", format!("query Q($v: {vt}) {{ ...F }} fragment F on Query {{ f_{base}_{tag}(x: $v) }}")),
                    ];
                    for outer in [false, true] {
                        let o = if outer { "1" } else { "0" };
                        sites.push(("list-item", format!("query Q($v: {vt}) {{ f_{base}_{o}{tag}(x: [$v]) }}")));
                        sites.push(("list-item-in-input-field", format!("query Q($v: {vt}) {{ g_{base}_{o}{tag}(w: {{x: [$v]}}) }}")));
                    }
                    for (site, text) in sites {
                        let labels = match looser.first() {
                            None => vec![],
                            Some(k) => lbl("5.8.5", &format!("{site}/variable-looser-at-depth-{k}-of-{d}"), "variable-looser-than-location"),
                        };
                        let feature = if looser.is_empty() { format!("variable-strictness:{site}:depth-{d}:stricter-at-{stricter}-levels") } else { format!("variable-strictness:{site}:depth-{d}:looser") };
                        out.push(Case { sdl: vec![sdl.clone()], text, labels, origin: format!("corpus:variable-strictness:{site}"), features: vec![feature], raw_schema: false });
                    }
                }
            }
        }
    }
    out
}

pub fn run(prop: &str) {
    let args = Args::parse();
    quiet_panics();
    let rule = if prop == "C03" {
        "O cases = documents with one or two injected, labelled rule violations, each confirmed by the Lean reference validator; non-trivial = every confirmed mutant (distinct by schema + document text)"
    } else {
        "O cases = valid-by-construction documents confirmed spec-valid by the Lean reference validator; non-trivial = uses at least one fragment or variable (distinct by schema + document text)"
    };
    let mut rep = Report::new(prop, rule);
    let mut drv = Driver::spawn(&args.driver);
    // rule ↔ kinds table from the Lean side (Spec/Valid.kindsOf)
    let mut kinds = BTreeMap::new();
    if let Some(l) = drv.one(&Sexp::call("kinds.table", vec![])).as_list() {
        for e in l.iter().skip(1) {
            if let Some(x) = e.as_list() {
                if let Some(r) = x.first().and_then(|r| r.as_str()) {
                    kinds.insert(r.to_string(), x.iter().skip(1).filter_map(|k| k.as_atom().map(|s| s.to_string())).collect());
                }
            }
        }
    }
    let mut ctx = Ctx { prop: prop.to_string(), rep: &mut rep, drv: &mut drv, kinds, best: BTreeMap::new(), abstract_ts: None, templates: BTreeMap::new(), cli: args.extra.get("cli").cloned().unwrap_or_default(), scratch: args.scratch.clone(), cli_budget: 0, cli_seen: 0, cli_total: 0, cli_group: 0, replaying: args.replay.is_some() };
    // the CLI leg of the import stream: a modest number of process spawns
    if !args.scratch.is_empty() && std::path::Path::new(&ctx.cli).is_file() {
        ctx.cli_budget = if prop == "C03" { args.budget(70, 1000) } else { args.budget(50, 500) };
    } else {
        ctx.rep.count("cli-leg:skipped-no-binary-or-scratch");
        ctx.rep.notes.push(format!("CLI leg skipped: --cli {:?} is not a file or --scratch is empty", ctx.cli));
    }
    if ctx.kinds.len() < 20 {
        ctx.rep.fail("K", "kinds-table", "the driver did not return the rule ↔ kind table", json!({}));
    }

    if let Some(path) = &args.replay {
        let v: J = serde_json::from_str(&std::fs::read_to_string(path).expect("replay file")).expect("replay json");
        if let Some(line) = v["case"]["abstract_schema"].as_str() {
            if let Some(sx) = Sexp::parse(line) {
                ctx.abstract_ts = Some((sx, line.to_string()));
            }
        }
        if v["case"]["files"].is_array() {
            if let Some(p) = imports::Project::from_json(&v["case"]) {
                let sdl = p.sdl.clone();
                ctx.group_projects(&sdl, vec![p]);
            }
        } else {
            let case = Case::from_json(&v["case"]);
            let sdl = case.sdl.clone();
            ctx.group(&sdl, vec![case]);
        }
        ctx.flush();
        rep.write(&args);
        return;
    }

    // corpus first
    let mut by_schema: BTreeMap<(Vec<String>, bool), Vec<Case>> = BTreeMap::new();
    for c in corpus().into_iter().chain(raw_corpus()) {
        by_schema.entry((c.sdl.clone(), c.raw_schema)).or_default().push(c);
    }
    for ((sdl, _), cases) in by_schema {
        ctx.group(&sdl, cases);
    }
    {
        // 5.8.5 AreTypesCompatible, enumerated (one schema, one group)
        let t0 = std::time::Instant::now();
        let fam = variable_strictness_corpus();
        let (n, sdl) = (fam.len(), fam[0].sdl.clone());
        ctx.group(&sdl, fam);
        ctx.rep.notes.push(format!("variable-strictness family: {n} documents in {} ms", t0.elapsed().as_millis()));
    }
    for (sdl, plain, cases) in extension_corpus() {
        // the abstract schema of a hand-written case: its PLAIN spelling through the parser (no extension to resolve)
        if let Ok((abs, _)) = run_real(&[plain], &[], false) {
            let line = abs.to_line();
            ctx.abstract_ts = Some((abs, line));
            ctx.group(&sdl, cases);
            ctx.abstract_ts = None;
        }
    }
    if prop == "C04" {
        let s1 = corpus()[0].sdl[0].clone();
        ctx.group_projects(&[s1.clone()], imports::corpus(&s1));
    }
    if prop == "C03" {
        let s1 = corpus()[0].sdl[0].clone();
        ctx.group_projects(&[s1.clone()], imports::corpus_c03(&s1));
    }

    // hash (property, seed): adjacent SplitMix seeds would give the same stream shifted by one draw
    let mut rng = Rng::new(nvh::report::fnv(&format!("{prop}:{}", args.seed)));
    let search = args.extra.get("search").map_or(false, |s| s == "1");
    // C03 does more per schema group (6 mutants per document, labelled import projects, CLI leg): fewer groups keep the
    // quick tier at ≈ 20 s on an idle machine and well under a minute on a loaded one
    let n_schemas = if prop == "C03" { args.budget(40, 500) } else { args.budget(60, 600) } * if search { 2 } else { 1 };
    let docs_per_schema = 6;
    let mut sampled = 0;
    // the built-in definitions as the real pipeline adds them to every schema (taken once from a fixed one-line schema):
    // the abstract schema handed to the reference validator = the generator's un-split model + these
    let builtin_items: Vec<TsItem> = with_schema(&["type Query { zz: Int }".to_string()], |resolved, _| from_real_tsdoc(resolved).items)
        .ok()
        .unwrap_or_default()
        .into_iter()
        .filter(|i| !matches!(i, TsItem::TypeDef(t) if t.name == "Query"))
        .collect();
    // `--search 1` is the second run `./check` makes within the QUICK tier when P/K is broken and the first run found
    // no failing input: it must not take the time of a thorough run (measured 7 min), so it is cut by the clock.
    let started = std::time::Instant::now();
    let search_cap = std::time::Duration::from_secs(args.extra.get("search-seconds").and_then(|s| s.parse().ok()).unwrap_or(20));
    for si in 0..n_schemas {
        if search && started.elapsed() > search_cap {
            ctx.rep.count("search-cut-by-clock");
            ctx.rep.notes.push(format!("search run stopped after {} schemas ({} s cap)", si, search_cap.as_secs()));
            break;
        }
        let cfg = GenCfg { coercions: prop == "C04" && si % 3 == 2, explicit_schema: si % 2 == 0, ..GenCfg::default() };
        let mut schema = gen_schema(&mut rng, &cfg);
        // two schemas out of three get interface diamonds (interfaces implementing several interfaces, an interface
        // without object implementers, objects implementing only some of them)
        if si % 3 != 0 {
            for f in mutate::add_interface_diamonds(&mut rng, &mut schema) {
                ctx.rep.count(&format!("feature:{f}"));
            }
        }
        let mut sdl = vec![schema.sdl()];
        ctx.abstract_ts = None;
        if si % 2 == 1 && !builtin_items.is_empty() {
            // every other schema is WRITTEN with extensions (`extend type T implements I`, fields / members / values /
            // directives moved into `extend …`, possibly shuffled so that an extension precedes its definition), half of
            // them over two files; the real pipeline gets that text, the reference validator the un-split model
            let split = split_into_extensions(&mut rng, &schema);
            ctx.rep.count("feature:schema:written-with-extensions");
            if split.items.iter().any(|i| matches!(i, TsItem::TypeExt(t) if !t.implements.is_empty())) {
                ctx.rep.count("feature:schema:extend-type-implements");
            }
            if rng.coin() && split.items.len() >= 2 {
                let (mut a, mut b) = (vec![], vec![]);
                let by_kind = rng.coin(); // extensions in a file of their own (which may come first), or a random cut
                for it in split.items.iter().cloned() {
                    let second = if by_kind { matches!(it, TsItem::TypeExt(_) | TsItem::SchemaExt(_)) } else { rng.coin() };
                    if second {
                        b.push(it)
                    } else {
                        a.push(it)
                    }
                }
                if a.is_empty() {
                    a.push(b.pop().unwrap());
                }
                if b.is_empty() {
                    b.push(a.pop().unwrap());
                }
                let (ta, tb) = (tsdoc_text(&TsDoc { items: a }), tsdoc_text(&TsDoc { items: b }));
                sdl = if rng.coin() { vec![ta, tb] } else { vec![tb, ta] };
                ctx.rep.count("feature:schema:two-files");
            } else {
                sdl = vec![tsdoc_text(&split)];
            }
            let mut items = schema.doc.items.clone();
            items.extend(builtin_items.iter().cloned());
            let abs = TsDoc { items }.to_sexp();
            let line = abs.to_line();
            ctx.abstract_ts = Some((abs, line));
        }
        let type_names: Vec<String> = schema.types().map(|t| t.name.clone()).collect();
        let sch = Sch { m: &schema };
        let mut cases: Vec<Case> = vec![];
        let mut projects: Vec<imports::Project> = vec![];
        for di in 0..docs_per_schema {
            let (doc, feats) = gen_doc(&mut rng, &schema, &cfg);
            let feats: Vec<String> = feats.into_iter().collect();
            let noisy = rng.chance(1, 4);
            let render = |d: &Doc, rng: &mut Rng| -> String {
                if noisy {
                    let mut d2 = d.clone();
                    render_doc(&mut d2, Style::noisy(), rng.fork()).0
                } else {
                    doc_text(d)
                }
            };
            cases.push(Case { sdl: sdl.clone(), text: render(&doc, &mut rng), labels: vec![], origin: "valid".into(), features: feats.clone(), raw_schema: false });
            if sampled < 2 {
                sampled += 1;
                ctx.rep.sample(json!({"schema": sdl[0].chars().take(600).collect::<String>(), "document": doc_text(&doc).chars().take(600).collect::<String>()}));
            }
            // validity-preserving variations (C04 rows n, o)
            if let Some(d2) = mutate::nullable_with_default(&mut rng, &sch, &doc, &cfg) {
                let mut f = feats.clone();
                f.push("variation:nullable-variable-with-default".into());
                cases.push(Case { sdl: sdl.clone(), text: render(&d2, &mut rng), labels: vec![], origin: "valid-variant:nullable-with-default".into(), features: f, raw_schema: false });
            }
            if let Some((d2, form)) = mutate::duplicate_subscription_root(&mut rng, schema.subscription.as_deref(), &doc) {
                let mut f = feats.clone();
                f.push(format!("variation:subscription-root-selected-twice({form})"));
                cases.push(Case { sdl: sdl.clone(), text: render(&d2, &mut rng), labels: vec![], origin: "valid-variant:subscription-root-twice".into(), features: f, raw_schema: false });
            }
            if prop == "C04" {
                // validity-preserving shapes: two operations reaching the same fragments; another definition order
                if rng.chance(1, 3) {
                    if let Some(d2) = mutate::shape_clone_operation(&mut rng, &doc) {
                        let mut f = feats.clone();
                        f.push("variation:cloned-operation".into());
                        cases.push(Case { sdl: sdl.clone(), text: render(&d2, &mut rng), labels: vec![], origin: "valid-variant:cloned-operation".into(), features: f, raw_schema: false });
                    }
                }
                if rng.chance(1, 3) {
                    let d2 = mutate::shape_reorder(&mut rng, &doc);
                    let mut f = feats.clone();
                    f.push("variation:reordered-definitions".into());
                    cases.push(Case { sdl: sdl.clone(), text: render(&d2, &mut rng), labels: vec![], origin: "valid-variant:reordered-definitions".into(), features: f, raw_schema: false });
                }
                // names of GraphQL's separate namespaces coincide: operation = fragment, fragment / operation = a field /
                // alias / variable / directive / type / argument / enum value, names differing only by case, keyword-like
                // names, an anonymous operation beside a fragment with its former name
                let mut collided: Option<Doc> = None;
                if rng.chance(1, 2) {
                    let mut d2 = doc.clone();
                    let labels = names::collide_names(&mut rng, &mut d2, &type_names);
                    if !labels.is_empty() {
                        let mut f = feats.clone();
                        f.extend(labels.into_iter());
                        cases.push(Case { sdl: sdl.clone(), text: render(&d2, &mut rng), labels: vec![], origin: "valid-variant:name-collision".into(), features: f, raw_schema: false });
                        collided = Some(d2);
                    }
                }
                // multi-file projects with #import (every other document; one third of them with colliding names)
                if di % 2 == 0 {
                    let base = match &collided {
                        Some(d2) if rng.chance(1, 3) => d2,
                        _ => &doc,
                    };
                    if let Some(p) = imports::gen_project(&mut rng, &sdl, base, noisy) {
                        projects.push(p);
                    }
                }
            }
            if prop == "C03" && di % 2 == 1 {
                // multi-file projects with one labelled fault: (a) a single-file operator applied to the document
                // BEFORE its definitions are dealt over the files — the fault lands in the root file or in a file it
                // imports from —, (b) equally named fragments that only meet in the merged document
                let sites0 = mutate::collect_sites(&sch, &doc);
                for _ in 0..2 {
                    let name = mutate::MUTATIONS[rng.below(mutate::MUTATIONS.len())];
                    let mut mc = mutate::MCtx { rng: &mut rng, sch: &sch, doc: &doc, sites: &sites0, only_def: None };
                    let Some(m) = mutate::apply(name, &mut mc) else { continue };
                    if let Some(plan) = imports::plan_project(&mut rng, &m.doc) {
                        let mut p = imports::render_plan(&mut rng, &sdl, &plan, noisy);
                        p.fault_files = imports::fault_files_of(&doc, &m.doc, &plan);
                        p.labels = vec![m.label];
                        p.origin = "import-mutant".into();
                        projects.push(p);
                    }
                }
                if let Some(mut plan) = imports::plan_project(&mut rng, &doc) {
                    if let Some(class) = imports::duplicate_fragment_across_files(&mut rng, &mut plan) {
                        let mut p = imports::render_plan(&mut rng, &sdl, &plan, noisy);
                        p.labels = vec![Label { rule: "5.5.1.1".into(), class, mutation: "duplicate-fragment-name-across-files".into() }];
                        p.origin = "import-mutant".into();
                        projects.push(p);
                    }
                }
                // an imported fragment spreads a sibling of its own file that the importer does not import
                for _ in 0..3 {
                    let Some(mut plan) = imports::plan_project(&mut rng, &doc) else { break };
                    if let Some(class) = imports::drop_sibling_import(&mut rng, &mut plan) {
                        let mut p = imports::render_plan(&mut rng, &sdl, &plan, noisy);
                        p.labels = vec![Label { rule: "5.5.2.1".into(), class, mutation: "drop-sibling-import".into() }];
                        p.origin = "import-mutant".into();
                        projects.push(p);
                        break;
                    }
                }
            }
            if prop == "C04" && rng.chance(1, 2) {
                // numeric boundary literals at Int / Float / ID positions
                if let Some((d2, bf)) = mutate::boundary_numbers(&mut rng, &sch, &doc) {
                    let mut f = feats.clone();
                    f.extend(bf.into_iter());
                    cases.push(Case { sdl: sdl.clone(), text: render(&d2, &mut rng), labels: vec![], origin: "valid-variant:boundary-numbers".into(), features: f, raw_schema: false });
                }
            }
            // mutants
            let n_mut = if prop == "C03" { args.budget(6, 10) } else { 2 };
            let sites = mutate::collect_sites(&sch, &doc);
            if prop == "C03" && rng.chance(1, 3) {
                // an integer literal beyond 32 bits at an Int position (rule 5.6.1 since fix e3584a3; extra weight beside its
                // turn among `MUTATIONS`, where it is also combined with shapes / second faults)
                let mut mc = mutate::MCtx { rng: &mut rng, sch: &sch, doc: &doc, sites: &sites, only_def: None };
                if let Some(m) = mc.int_literal_outside_32_bit_range() {
                    cases.push(Case { sdl: sdl.clone(), text: render(&m.doc, &mut rng), labels: vec![m.label], origin: "mutant".into(), features: vec![], raw_schema: false });
                }
            }
            for _ in 0..n_mut {
                let mut name = mutate::MUTATIONS[rng.below(mutate::MUTATIONS.len())];
                if prop == "C03" && rng.chance(1, 12) {
                    // every pair of composite types deserves its turn: this operator gets extra weight
                    name = "impossible-spread-between-types";
                } else if prop == "C03" && schema.subscription.is_some() && rng.chance(1, 15) {
                    name = "two-subscription-root-fields";
                }
                // shape transformation first (C03): the fault is injected into a document in which several
                // definitions reach the same fragments / definitions come in another order
                let per_op = name.ends_with("-in-one-operation");
                let shape = if prop != "C03" { 9 } else { rng.below(8) };
                let mut wrapped: Option<BTreeSet<String>> = None;
                let shaped: Option<Doc> = match shape {
                    0 | 1 => mutate::shape_clone_operation(&mut rng, &doc),
                    2 => mutate::shape_unspread_wrapper_first(&mut rng, &doc).map(|(d, r)| {
                        wrapped = Some(r);
                        d
                    }),
                    3 => Some(mutate::shape_reorder(&mut rng, &doc)),
                    _ if per_op && prop == "C03" && mutate::reaching_ops(&doc).values().all(|v| v.len() < 2) => mutate::shape_clone_operation(&mut rng, &doc),
                    _ => None,
                };
                if let Some(d2) = shaped {
                    let shape_name = if wrapped.is_some() { "unspread-wrapper-first" } else if shape == 3 { "reordered" } else { "cloned-operation" };
                    let s2 = mutate::collect_sites(&sch, &d2);
                    let mut mc = mutate::MCtx { rng: &mut rng, sch: &sch, doc: &d2, sites: &s2, only_def: None };
                    let Some(mut m) = mutate::apply(name, &mut mc) else {
                        ctx.rep.count(&format!("mutation-not-applicable:{name}"));
                        continue;
                    };
                    ctx.rep.count(&format!("shape:{shape_name}"));
                    if let Some(reached) = &wrapped {
                        // the fault sits in a fragment that an unspread fragment defined before the operations reaches, too
                        // (the class keeps only the depth of the fragment: the site does not matter for this kind of fault)
                        if m.label.class.starts_with("frag") && mutate::touched_definitions(&d2, &m.doc).iter().any(|n| reached.contains(n)) {
                            let base = m.label.class.split(|c| c == '/' || c == '+').next().unwrap_or("frag").to_string();
                            m.label.class = format!("{base}@also-reached-from-earlier-unspread-fragment");
                        }
                    }
                    cases.push(Case { sdl: sdl.clone(), text: render(&m.doc, &mut rng), labels: vec![m.label], origin: format!("mutant+{shape_name}"), features: vec![], raw_schema: false });
                    continue;
                }
                let unspread = rng.chance(1, 6);
                let m = if unspread {
                    match mutate::add_unspread_clone(&mut rng, &doc) {
                        Some((d2, idx)) => {
                            let s2 = mutate::collect_sites(&sch, &d2);
                            let mut mc = mutate::MCtx { rng: &mut rng, sch: &sch, doc: &d2, sites: &s2, only_def: Some(idx) };
                            mutate::apply(name, &mut mc)
                        }
                        None => None,
                    }
                } else {
                    let mut mc = mutate::MCtx { rng: &mut rng, sch: &sch, doc: &doc, sites: &sites, only_def: None };
                    mutate::apply(name, &mut mc)
                };
                let Some(m) = m else {
                    ctx.rep.count(&format!("mutation-not-applicable:{name}"));
                    continue;
                };
                // double fault
                if rng.chance(1, 5) {
                    let name2 = mutate::MUTATIONS[rng.below(mutate::MUTATIONS.len())];
                    let s2 = mutate::collect_sites(&sch, &m.doc);
                    let mut mc = mutate::MCtx { rng: &mut rng, sch: &sch, doc: &m.doc, sites: &s2, only_def: None };
                    if let Some(m2) = mutate::apply(name2, &mut mc) {
                        if m2.label.rule != m.label.rule {
                            cases.push(Case { sdl: sdl.clone(), text: render(&m2.doc, &mut rng), labels: vec![m.label.clone(), m2.label], origin: "double-mutant".into(), features: vec![], raw_schema: false });
                        }
                    }
                }
                cases.push(Case { sdl: sdl.clone(), text: render(&m.doc, &mut rng), labels: vec![m.label], origin: "mutant".into(), features: vec![], raw_schema: false });
            }
        }
        ctx.group(&sdl, cases);
        ctx.group_projects(&sdl, projects);
        ctx.abstract_ts = None;
    }
    ctx.flush();
    rep.write(&args);
}
