//! Shared machinery of the C01 / C02 harnesses.
//!
//! A case is three texts: schema SDL, operation document, `graphql.config.yaml`. Everything the driver sees is
//! derived from the REAL pipeline run on those texts: the resolved schema document and the checked operation
//! document are converted with `gm::from_real_*`, the two declaration files are printed by the REAL printers and
//! parsed by `tsparse`.
//!   K  : `(op.types …)` — the model's `toTs (implTree …)` per operation / fragment against the `type` statements
//!        of the real operation file, tree against tree (and panic against panic);
//!   O1 : `(oracle.c01 …)` — every enumerated `Exec` response must be a member of the real emitted type;
//!   O2 : `(oracle.c02 …)` — every abstract value the real emitted type admits must be in `RefLocal`.
//! O failures are shrunk (selections / directives / fragments / definitions deleted, spreads and inline fragments
//! unfolded while the failure persists) and the signature is computed from the minimal document.
#![allow(dead_code)]
/// the harness's own rendering of a schema model as an introspection result (written for C15, used by C09 too)
#[path = "../c15/json.rs"]
mod ijson;
use nvh::gen::*;
use nvh::gm::*;
use nvh::real::*;
use nvh::render::doc_text;
use nvh::*;
use serde_json::{json, Value};
use std::collections::BTreeSet;

#[derive(Clone, Debug)]
pub struct Case {
    /// schema files (definitions and `extend …` items, possibly spread over several files)
    pub sdl: Vec<String>,
    /// the ABSTRACT merged schema the specification side (Exec / RefLocal) uses, as a `(tsdoc …)` line: for generated
    /// cases the generator's own un-split model — independent of the real parser / extension resolver —, for
    /// hand-written cases (None) the definitions read from the text and merged by `merge_extensions` below
    pub abstract_schema: Option<String>,
    pub doc: String,
    pub config: String,
    /// documents that are NOT spec-valid (FieldsInSetCanMerge) but pass `check`: K only
    pub invalid_by_merge_rule: bool,
    /// `Some(text)`: the schema is given to the real code as an INTROSPECTION RESULT (`schema: x.json`), loaded the way
    /// the CLI does (`nvh::real::with_schema_json`: reader + built-in scalars + `type_system_to_ast`); `sdl` is then only
    /// the readable form of the same schema
    pub schema_json: Option<String>,
}

impl Case {
    pub fn to_json(&self) -> Value {
        json!({"sdl_files": self.sdl, "abstract_schema": self.abstract_schema, "doc": self.doc, "config": self.config, "invalid_by_merge_rule": self.invalid_by_merge_rule, "schema_json": self.schema_json})
    }
    pub fn from_json(v: &Value) -> Case {
        Case {
            sdl: match v["sdl_files"].as_array() {
                Some(a) => a.iter().map(|x| x.as_str().unwrap_or("").to_string()).collect(),
                None => vec![v["sdl"].as_str().unwrap_or("").to_string()],
            },
            abstract_schema: v["abstract_schema"].as_str().map(|s| s.to_string()),
            doc: v["doc"].as_str().unwrap_or("").to_string(),
            config: v["config"].as_str().unwrap_or(DEFAULT_CONFIG).to_string(),
            invalid_by_merge_rule: v["invalid_by_merge_rule"].as_bool().unwrap_or(false),
            schema_json: v["schema_json"].as_str().map(|s| s.to_string()),
        }
    }
}

pub const DEFAULT_CONFIG: &str = "schema: \"s.graphql\"\ndocuments: \"*.graphql\"\nextensions:\n  nitrogql:\n    generate:\n      mode: with-loader-ts-5.0\n";

pub struct Prepared {
    /// the REAL resolved schema document (the printer's actual input): K
    pub tsdoc: Sexp,
    /// the ABSTRACT merged schema (not produced by the real pipeline): O
    pub spec_tsdoc: Sexp,
    pub doc_model: Doc,
    pub doc: Sexp,
    pub opts: Sexp,
    /// the real schema declaration file, parsed
    pub schema_ts: Sexp,
    /// the real operation declaration file (text, parsed) or the panic message
    pub op_ts: Result<(String, Sexp), String>,
}

pub enum Prep {
    /// not a case: some stage before the printers rejected the input
    Rejected(String),
    /// the emitted text is outside the emitted-subset grammar
    Unparsable(String),
    Ready(Box<Prepared>),
}

pub fn prepare(case: &Case) -> Prep {
    let config = match parse_config_text(&case.config) {
        Ok(Some(c)) => c,
        Ok(None) => return Prep::Rejected("config rejected".into()),
        Err(p) => return Prep::Rejected(format!("config parser panicked: {p}")),
    };
    let n = &config.generate.name;
    let opts = Sexp::call(
        "opts",
        vec![
            Sexp::bool(n.capitalize_operation_names.unwrap_or(true)),
            Sexp::str(n.operation_result_type_suffix.clone().unwrap_or_else(|| "Result".into())),
            Sexp::str(n.fragment_type_suffix.clone().unwrap_or_default()),
            Sexp::bool(config.generate.export.operation_result_type),
            Sexp::str("Schema"),
        ],
    );
    let doc_text = case.doc.clone();
    let spec_tsdoc = match &case.abstract_schema {
        Some(t) => match Sexp::parse(t) {
            Some(x) => x,
            None => return Prep::Rejected("abstract schema does not parse".into()),
        },
        None => match abstract_from_text(&case.sdl) {
            Ok(d) => d.to_sexp(),
            Err(e) => return Prep::Rejected(e),
        },
    };
    let stages = |resolved: &nitrogql_ast::TypeSystemDocument, schema: &graphql_type_system::Schema<std::borrow::Cow<str>, nitrogql_ast::base::Pos>| {
        let tsdoc = from_real_tsdoc(resolved).to_sexp();
        let schema_text = print_schema_types(resolved, &config);
        let o = with_operation(schema, &doc_text, 1, |d, diags| {
            if !diags.is_empty() {
                return Err(format!("check: {}", diags.iter().map(|d| d.kind.clone()).collect::<Vec<_>>().join(",")));
            }
            let model = from_real_doc(d);
            let printed = print_operation_types(schema, d, &config);
            Ok((model, printed))
        });
        (tsdoc, schema_text, o)
    };
    let r = match &case.schema_json {
        Some(text) => with_schema_json(text, stages),
        None => with_schema(&case.sdl, stages),
    };
    let (tsdoc, schema_text, o) = match r {
        Ok(x) => x,
        Err(s) => return Prep::Rejected(format!("schema stage: {s:?}").chars().take(200).collect()),
    };
    let (doc_model, printed) = match o {
        Ok(Ok(x)) => x,
        Ok(Err(e)) => return Prep::Rejected(e),
        Err(s) => return Prep::Rejected(format!("operation stage: {s:?}").chars().take(200).collect()),
    };
    let schema_text = match schema_text {
        Ok(t) => t,
        Err(e) => return Prep::Rejected(format!("schema printer: {e}")),
    };
    let schema_ts = match tsparse::parse_file(&schema_text) {
        Ok(s) => s,
        Err(e) => return Prep::Unparsable(format!("schema declaration file: {} at line {}", e.msg, e.line)),
    };
    let op_ts = match printed {
        Ok(text) => match tsparse::parse_file(&text) {
            Ok(s) => Ok((text, s)),
            Err(e) => return Prep::Unparsable(format!("operation declaration file: {} at line {}", e.msg, e.line)),
        },
        Err(p) => Err(p),
    };
    let doc = doc_model.to_sexp();
    Prep::Ready(Box::new(Prepared { tsdoc, spec_tsdoc, doc_model, doc, opts, schema_ts, op_ts }))
}

/// the five built-in scalars the specification side needs as leaf types (the abstract model does not list them)
pub fn with_builtin_scalars(mut d: TsDoc) -> TsDoc {
    for n in BUILTIN_SCALARS {
        if d.type_def(n).is_none() {
            d.items.push(TsItem::TypeDef(TypeDef::new(TypeKind::Scalar, n)));
        }
    }
    d
}

/// Merge `extend …` items into their definitions — written for the specification side, independently of
/// nitrogql's `resolve_schema_extensions`: every component list of an extension is appended to the definition of
/// the same name; root operation types of `extend schema` are added to the schema definition.
pub fn merge_extensions(d: &TsDoc) -> TsDoc {
    let mut items: Vec<TsItem> = d.items.iter().filter(|i| !matches!(i, TsItem::TypeExt(_) | TsItem::SchemaExt(_))).cloned().collect();
    for i in &d.items {
        match i {
            TsItem::TypeExt(e) => {
                for t in items.iter_mut() {
                    if let TsItem::TypeDef(t) = t {
                        if t.name == e.name {
                            t.implements.extend(e.implements.iter().cloned());
                            t.dirs.extend(e.dirs.iter().cloned());
                            t.fields.extend(e.fields.iter().cloned());
                            t.members.extend(e.members.iter().cloned());
                            t.values.extend(e.values.iter().cloned());
                            t.inputs.extend(e.inputs.iter().cloned());
                            break;
                        }
                    }
                }
            }
            TsItem::SchemaExt(e) => {
                let mut done = false;
                for t in items.iter_mut() {
                    if let TsItem::SchemaDef(sd) = t {
                        sd.roots.extend(e.roots.iter().cloned());
                        sd.dirs.extend(e.dirs.iter().cloned());
                        done = true;
                        break;
                    }
                }
                if !done && !e.roots.is_empty() {
                    items.push(TsItem::SchemaDef(e.clone()));
                }
            }
            _ => {}
        }
    }
    TsDoc { items }
}

/// abstract schema of a hand-written case: the definitions and extensions as the parser reads them from the text
/// (nothing downstream of the parser), merged by `merge_extensions`
pub fn abstract_from_text(files: &[String]) -> Result<TsDoc, String> {
    let mut items = vec![];
    for f in files {
        let text = f.clone();
        let d = catch(move || nitrogql_parser::parse_type_system_document(&text).map(|d| from_real_tsdoc_ext(&d)).map_err(|e| format!("{e:?}")));
        match d {
            Ok(Ok(d)) => items.extend(d.items),
            Ok(Err(e)) => return Err(format!("schema text does not parse: {e}").chars().take(120).collect()),
            Err(p) => return Err(format!("schema parser panicked: {p}").chars().take(120).collect()),
        }
    }
    Ok(with_builtin_scalars(merge_extensions(&TsDoc { items })))
}

fn panic_kind(msg: &str) -> &'static str {
    if msg.contains("Type system error") {
        "type-system-error"
    } else if msg.contains("Cannot merge fields of different types") {
        "merge-fields"
    } else if msg.contains("Cannot merge selection trees") {
        "merge-trees"
    } else {
        "other"
    }
}

/// the `type` statements of the real operation file that carry result types, in the model's output shape
fn real_decls(p: &Prepared, op_ts: &Sexp) -> Vec<Sexp> {
    let types: Vec<&Sexp> = op_ts.args().iter().filter(|s| s.head() == Some("type")).collect();
    let mut out = vec![];
    let mut i = 0;
    for d in &p.doc_model.defs {
        let step = match d {
            ExecDef::Op(_) => 2,
            ExecDef::Frag(_) => 1,
            ExecDef::Import(_) => 0,
        };
        if step == 0 {
            continue;
        }
        if let Some(t) = types.get(i) {
            let a = t.args();
            // (type exported "Name" (params) T)
            out.push(Sexp::call("type", vec![a[1].clone(), a[0].clone(), a[3].clone()]));
        }
        i += step;
    }
    out
}

pub fn k_request(p: &Prepared) -> Sexp {
    Sexp::call("op.types", vec![p.tsdoc.clone(), p.doc.clone(), p.opts.clone()])
}

/// compare the model's answer with the real file; returns (signature, what) on disagreement
pub fn k_compare(p: &Prepared, ans: &Sexp) -> Option<(String, String)> {
    if ans.head() != Some("decls") {
        return Some(("driver".into(), format!("driver answered {}", ans.to_line().chars().take(300).collect::<String>())));
    }
    let model = ans.args();
    let model_panic = model.iter().find_map(|d| {
        let t = &d.args()[2];
        if t.head() == Some("panic") {
            Some(t.args()[0].as_atom().unwrap_or("").to_string())
        } else {
            None
        }
    });
    match &p.op_ts {
        Err(msg) => match model_panic {
            Some(k) if k == panic_kind(msg) => None,
            Some(k) => Some(("panic-kind".into(), format!("code panics with {:?}, model with {k}", msg.lines().next().unwrap_or("")))),
            None => Some(("panic".into(), format!("code panics ({:?}), model does not", msg.lines().next().unwrap_or("")))),
        },
        Ok((_, op_ts)) => {
            if let Some(k) = model_panic {
                return Some(("panic".into(), format!("model panics ({k}), code does not")));
            }
            let real = real_decls(p, op_ts);
            if real.len() != model.len() {
                return Some(("decl-count".into(), format!("code prints {} result types, model {}", real.len(), model.len())));
            }
            for (r, m) in real.iter().zip(model.iter()) {
                if r != m {
                    let (rn, mn) = (&r.args()[0], &m.args()[0]);
                    if rn != mn || r.args()[1] != m.args()[1] {
                        return Some(("decl-header".into(), format!("code {} {} vs model {} {}", rn, r.args()[1], mn, m.args()[1])));
                    }
                    return Some((
                        "type-tree".into(),
                        format!("type {}: code {} model {}", rn, r.args()[2].to_line().chars().take(400).collect::<String>(), m.args()[2].to_line().chars().take(400).collect::<String>()),
                    ));
                }
            }
            None
        }
    }
}

pub fn o_request(p: &Prepared, which: &str, cap: usize) -> Option<Sexp> {
    match &p.op_ts {
        Ok((_, op_ts)) => Some(Sexp::call(which, vec![p.spec_tsdoc.clone(), p.doc.clone(), op_ts.clone(), p.schema_ts.clone(), Sexp::int(cap as i128)])),
        Err(_) => None,
    }
}

#[derive(Clone, Debug)]
pub struct OFail {
    /// "admit" (C01: a response is excluded) or "exclude" (C02: a non-response is admitted) or "panic" / "internal"
    pub direction: String,
    pub kind: String,
    pub what: String,
}

/// interpret an oracle answer
pub fn o_interpret(which: &str, ans: &Sexp) -> Option<OFail> {
    match ans.head() {
        Some("ok") => None,
        Some("counterexample") => {
            let a = ans.args();
            let op = a[0].args().first().and_then(|s| s.as_str()).unwrap_or("").to_string();
            if which == "oracle.c01" {
                Some(OFail {
                    direction: "admit".into(),
                    kind: "response".into(),
                    what: format!("operation/fragment {op:?}: under {} the spec-conformant response {} is NOT a member of the emitted type", a[1].to_line(), a[2].args()[0].to_line()),
                })
            } else {
                let kind = a[1].args().first().and_then(|s| s.as_str()).unwrap_or("").to_string();
                Some(OFail {
                    direction: "exclude".into(),
                    kind: kind.clone(),
                    what: format!("operation/fragment {op:?}: the emitted type admits {} ({kind}) which no execution returns, even per selection set", a[2].args()[0].to_line()),
                })
            }
        }
        _ => Some(OFail { direction: "internal".into(), kind: "driver".into(), what: format!("driver answered {}", ans.to_line().chars().take(400).collect::<String>()) }),
    }
}

// ---------------------------------------------------------------------------------------------
// features of a (minimal) document

fn dir_features(dirs: &[Dir], f: &mut BTreeSet<&'static str>) {
    for d in dirs {
        if d.name == "skip" || d.name == "include" {
            match d.args.iter().find(|a| a.name == "if").map(|a| &a.value) {
                Some(Val::Var(..)) => {
                    f.insert("cond-var");
                }
                _ => {
                    f.insert("cond-literal");
                }
            }
        }
    }
}

/// response keys a selection list contributes to its object (through inline fragments and spreads)
fn flat_keys<'a>(sels: &'a [Sel], doc: &'a Doc, seen: &mut Vec<String>, out: &mut Vec<&'a str>) {
    for s in sels {
        match s {
            Sel::Field { .. } => out.push(s.response_key().unwrap()),
            Sel::Spread { name, .. } => {
                if !seen.contains(name) {
                    seen.push(name.clone());
                    for d in &doc.defs {
                        if let ExecDef::Frag(f) = d {
                            if &f.name == name {
                                flat_keys(&f.sel, doc, seen, out);
                            }
                        }
                    }
                }
            }
            Sel::Inline { sel, .. } => flat_keys(sel, doc, seen, out),
        }
    }
}

/// The feature vocabulary of signatures is deliberately small (what shrinking cannot remove but is incidental —
/// nesting depth, plain aliases, type conditions needed for field validity — is not part of it):
/// cond-var / cond-literal (@skip/@include on a variable / literal), same-key-twice (a response key contributed
/// twice to one object, through fragments too), alias-own-name (a field aliased to its own name, `a: a` — typed apart
/// from the unaliased selections of the field until /repo dda35cd). (Aliased `__typename` / an alias named `__typename` were features
/// until their defect was repaired in /repo 72cec20; a regression now shows up under an unlisted signature.)
fn sel_features(sels: &[Sel], doc: &Doc, f: &mut BTreeSet<&'static str>) {
    let mut keys = vec![];
    flat_keys(sels, doc, &mut vec![], &mut keys);
    for (i, k) in keys.iter().enumerate() {
        if keys[..i].contains(k) {
            f.insert("same-key-twice");
        }
    }
    for s in sels {
        match s {
            Sel::Field { alias, name, dirs, sel, .. } => {
                if alias.as_ref().map(|a| &a.0) == Some(name) {
                    f.insert("alias-own-name");
                }
                dir_features(dirs, f);
                if let Some(ss) = sel {
                    sel_features(ss, doc, f);
                }
            }
            Sel::Spread { dirs, .. } => dir_features(dirs, f),
            Sel::Inline { dirs, sel, .. } => {
                dir_features(dirs, f);
                sel_features(sel, doc, f);
            }
        }
    }
}

pub fn doc_features(d: &Doc, direction: &str) -> String {
    let mut f = BTreeSet::new();
    for x in &d.defs {
        match x {
            ExecDef::Op(o) => sel_features(&o.sel, d, &mut f),
            ExecDef::Frag(fr) => sel_features(&fr.sel, d, &mut f),
            ExecDef::Import(_) => {}
        }
    }
    let _ = direction;
    if f.is_empty() {
        "plain".into()
    } else {
        f.into_iter().collect::<Vec<_>>().join("+")
    }
}

// ---------------------------------------------------------------------------------------------
// shrinking

fn used_vars_dirs(dirs: &[Dir], out: &mut BTreeSet<String>) {
    for d in dirs {
        for a in &d.args {
            let mut v = vec![];
            a.value.vars(&mut v);
            out.extend(v);
        }
    }
}
fn used_vars(sels: &[Sel], doc: &Doc, seen: &mut BTreeSet<String>, out: &mut BTreeSet<String>) {
    for s in sels {
        match s {
            Sel::Field { args, dirs, sel, .. } => {
                for a in args {
                    let mut v = vec![];
                    a.value.vars(&mut v);
                    out.extend(v);
                }
                used_vars_dirs(dirs, out);
                if let Some(ss) = sel {
                    used_vars(ss, doc, seen, out);
                }
            }
            Sel::Spread { name, dirs, .. } => {
                used_vars_dirs(dirs, out);
                if seen.insert(name.clone()) {
                    for d in &doc.defs {
                        if let ExecDef::Frag(f) = d {
                            if &f.name == name {
                                used_vars(&f.sel, doc, seen, out);
                            }
                        }
                    }
                }
            }
            Sel::Inline { dirs, sel, .. } => {
                used_vars_dirs(dirs, out);
                used_vars(sel, doc, seen, out);
            }
        }
    }
}

/// drop variable definitions an operation no longer uses (a mutation may have removed the last use)
fn normalise(mut d: Doc) -> Doc {
    let snapshot = d.clone();
    for x in d.defs.iter_mut() {
        if let ExecDef::Op(o) = x {
            let mut out = BTreeSet::new();
            used_vars(&o.sel, &snapshot, &mut BTreeSet::new(), &mut out);
            used_vars_dirs(&o.dirs, &mut out);
            o.vars.retain(|v| out.contains(&v.name));
        }
    }
    d
}

/// all one-step reductions of a selection list
fn reduce_sels(sels: &[Sel], doc: &Doc) -> Vec<Vec<Sel>> {
    let mut out = vec![];
    for i in 0..sels.len() {
        // delete the selection
        if sels.len() > 1 {
            let mut v = sels.to_vec();
            v.remove(i);
            out.push(v);
        }
        let with = |s: Sel| {
            let mut v = sels.to_vec();
            v[i] = s;
            v
        };
        let splice = |ss: &[Sel]| {
            let mut v = sels.to_vec();
            v.splice(i..=i, ss.iter().cloned());
            v
        };
        match &sels[i] {
            Sel::Field { alias, name, name_pos, args, dirs, sel } => {
                for j in 0..dirs.len() {
                    let mut ds = dirs.clone();
                    ds.remove(j);
                    out.push(with(Sel::Field { alias: alias.clone(), name: name.clone(), name_pos: *name_pos, args: args.clone(), dirs: ds, sel: sel.clone() }));
                }
                if alias.is_some() {
                    out.push(with(Sel::Field { alias: None, name: name.clone(), name_pos: *name_pos, args: args.clone(), dirs: dirs.clone(), sel: sel.clone() }));
                }
                if !args.is_empty() {
                    out.push(with(Sel::Field { alias: alias.clone(), name: name.clone(), name_pos: *name_pos, args: vec![], dirs: dirs.clone(), sel: sel.clone() }));
                }
                if let Some(ss) = sel {
                    for r in reduce_sels(ss, doc) {
                        out.push(with(Sel::Field { alias: alias.clone(), name: name.clone(), name_pos: *name_pos, args: args.clone(), dirs: dirs.clone(), sel: Some(r) }));
                    }
                }
            }
            Sel::Spread { name, dirs, pos, name_pos } => {
                for j in 0..dirs.len() {
                    let mut ds = dirs.clone();
                    ds.remove(j);
                    out.push(with(Sel::Spread { name: name.clone(), name_pos: *name_pos, dirs: ds, pos: *pos }));
                }
                // unfold the spread into an inline fragment
                for d in &doc.defs {
                    if let ExecDef::Frag(f) = d {
                        if &f.name == name {
                            out.push(with(Sel::Inline { cond: Some((f.cond.clone(), P::default())), dirs: dirs.clone(), sel: f.sel.clone(), pos: *pos }));
                        }
                    }
                }
            }
            Sel::Inline { cond, dirs, sel, pos } => {
                for j in 0..dirs.len() {
                    let mut ds = dirs.clone();
                    ds.remove(j);
                    out.push(with(Sel::Inline { cond: cond.clone(), dirs: ds, sel: sel.clone(), pos: *pos }));
                }
                if dirs.is_empty() {
                    out.push(splice(sel));
                    // the same with the contents moved behind the siblings (the printer lists direct fields first)
                    let mut v = sels.to_vec();
                    v.remove(i);
                    v.extend(sel.iter().cloned());
                    out.push(v);
                }
                if cond.is_some() {
                    out.push(with(Sel::Inline { cond: None, dirs: dirs.clone(), sel: sel.clone(), pos: *pos }));
                }
                for r in reduce_sels(sel, doc) {
                    out.push(with(Sel::Inline { cond: cond.clone(), dirs: dirs.clone(), sel: r, pos: *pos }));
                }
            }
        }
    }
    out
}

pub fn reductions(d: &Doc) -> Vec<Doc> {
    let mut out = vec![];
    // drop a definition
    if d.defs.len() > 1 {
        for i in 0..d.defs.len() {
            let mut v = d.clone();
            v.defs.remove(i);
            out.push(v);
        }
    }
    for i in 0..d.defs.len() {
        match &d.defs[i] {
            ExecDef::Op(o) => {
                if !o.dirs.is_empty() {
                    let mut v = d.clone();
                    if let ExecDef::Op(o2) = &mut v.defs[i] {
                        o2.dirs.clear();
                    }
                    out.push(v);
                }
                for r in reduce_sels(&o.sel, d) {
                    let mut v = d.clone();
                    if let ExecDef::Op(o2) = &mut v.defs[i] {
                        o2.sel = r;
                    }
                    out.push(v);
                }
            }
            ExecDef::Frag(f) => {
                if !f.dirs.is_empty() {
                    let mut v = d.clone();
                    if let ExecDef::Frag(f2) = &mut v.defs[i] {
                        f2.dirs.clear();
                    }
                    out.push(v);
                }
                for r in reduce_sels(&f.sel, d) {
                    let mut v = d.clone();
                    if let ExecDef::Frag(f2) = &mut v.defs[i] {
                        f2.sel = r;
                    }
                    out.push(v);
                }
            }
            ExecDef::Import(_) => {}
        }
    }
    out.into_iter().map(normalise).collect()
}

fn doc_size(d: &Doc) -> usize {
    doc_text(d).len()
}

/// structural shrinking: walk the one-step reductions in their canonical order (whole definitions, then selections
/// outermost first, then directives / aliases / unfoldings); a reduction on which `fails` still holds is taken and
/// the walk continues at the same index; passes are repeated until one changes nothing
pub fn shrink(start: &Doc, budget: usize, fails: impl FnMut(&Doc) -> bool) -> Doc {
    shrink_until(start, budget, None, fails)
}

/// `shrink` with a wall-clock limit: past `deadline` the walk stops and the document reached so far is returned (it
/// still fails; its signature may then carry features a complete shrink would have removed)
pub fn shrink_until(start: &Doc, budget: usize, deadline: Option<std::time::Instant>, mut fails: impl FnMut(&Doc) -> bool) -> Doc {
    let mut cur = start.clone();
    let mut spent = 0;
    let late = || deadline.map_or(false, |d| std::time::Instant::now() > d);
    loop {
        let mut changed = false;
        let mut idx = 0;
        loop {
            let cands = reductions(&cur);
            if idx >= cands.len() || spent >= budget || late() {
                break;
            }
            let c = &cands[idx];
            if *c != cur && doc_size(c) <= doc_size(&cur) + 8 {
                spent += 1;
                if fails(c) {
                    cur = c.clone();
                    changed = true;
                    continue;
                }
            }
            idx += 1;
        }
        if !changed || spent >= budget || late() {
            break;
        }
    }
    cur
}

// ---------------------------------------------------------------------------------------------
// the per-property runner

/// the requests of one batch spread round-robin over several driver processes (the driver answers every request on its
/// own — no state between requests —, so the answers are those of one process; only the wall-clock time changes)
pub fn par_batch(drv: &mut Driver, pool: &mut [Driver], reqs: &[Sexp]) -> Vec<Sexp> {
    let n = 1 + pool.len();
    if n == 1 || reqs.len() < 2 * n {
        return drv.batch(reqs);
    }
    let mut parts: Vec<Vec<Sexp>> = vec![vec![]; n];
    for (i, r) in reqs.iter().enumerate() {
        parts[i % n].push(r.clone());
    }
    let mut drivers: Vec<&mut Driver> = std::iter::once(drv).chain(pool.iter_mut()).collect();
    let answers: Vec<Vec<Sexp>> = std::thread::scope(|sc| {
        let handles: Vec<_> = drivers.drain(..).zip(parts.iter()).map(|(d, p)| sc.spawn(move || d.batch(p))).collect();
        handles.into_iter().map(|h| h.join().expect("driver thread")).collect()
    });
    let mut its: Vec<std::vec::IntoIter<Sexp>> = answers.into_iter().map(|v| v.into_iter()).collect();
    (0..reqs.len()).map(|i| its[i % n].next().expect("answer")).collect()
}

pub struct Runner<'a> {
    pub rep: &'a mut Report,
    pub drv: &'a mut Driver,
    /// further driver processes for the batches (see `par_batch`)
    pub pool: Vec<Driver>,
    /// "oracle.c01" or "oracle.c02"
    pub which: &'static str,
    pub cap: usize,
    pub shrink_budget: usize,
    pub max_shrinks: usize,
    pub shrinks_done: usize,
    /// failures already shrunk per (direction, kind, features of the unshrunk document)
    pub per_class: std::collections::BTreeMap<String, usize>,
    pub max_per_class: usize,
    /// wall-clock limit of ONE shrink (the large documents of the interface-hierarchy stream cost ≈ 0.1 s per step)
    pub shrink_seconds: u64,
    /// wall-clock limit of ALL shrinks of the run together; once it is used up (at least one failure has then been shrunk
    /// and reported) further failures are counted, not shrunk
    pub shrink_total_seconds: u64,
    pub shrink_spent: std::time::Duration,
}

impl<'a> Runner<'a> {
    /// one oracle evaluation on a document (used while shrinking)
    fn o_fails(&mut self, case: &Case, d: &Doc, direction: &str) -> Option<OFail> {
        let c = Case { doc: doc_text(d), ..case.clone() };
        match prepare(&c) {
            Prep::Ready(p) => match &p.op_ts {
                Err(msg) => {
                    if direction == "panic" {
                        Some(OFail { direction: "panic".into(), kind: panic_kind(msg).into(), what: msg.clone() })
                    } else {
                        None
                    }
                }
                Ok(_) => {
                    let req = o_request(&p, self.which, self.cap.min(200))?;
                    let ans = self.drv.one(&req);
                    o_interpret(self.which, &ans).filter(|f| f.direction == direction)
                }
            },
            _ => None,
        }
    }

    fn report_o(&mut self, case: &Case, p: &Prepared, f: OFail) {
        // shrink, then compute the signature from the minimal document
        let class = format!("{}:{}:{}", f.direction, f.kind, doc_features(&p.doc_model, "exclude"));
        let seen = *self.per_class.get(&class).unwrap_or(&0);
        let time_left = self.shrinks_done == 0 || self.shrink_spent.as_secs() < self.shrink_total_seconds;
        let (min_doc, fmin) = if self.shrinks_done < self.max_shrinks && seen < self.max_per_class && time_left {
            *self.per_class.entry(class).or_insert(0) += 1;
            self.shrinks_done += 1;
            let t_shrink = std::time::Instant::now();
            let dir = f.direction.clone();
            let budget = self.shrink_budget;
            let case2 = case.clone();
            let mut last = f.clone();
            let deadline = Some(std::time::Instant::now() + std::time::Duration::from_secs(self.shrink_seconds));
            let m = {
                let this: &mut Runner = self;
                shrink_until(&p.doc_model, budget, deadline, |d| match this.o_fails(&case2, d, &dir) {
                    Some(x) => {
                        last = x;
                        true
                    }
                    None => false,
                })
            };
            // re-evaluate on the minimum so that kind/what describe the minimal case
            let fm = self.o_fails(case, &m, &f.direction).unwrap_or(last);
            self.shrink_spent += t_shrink.elapsed();
            (m, fm)
        } else {
            self.rep.count(if time_left {
                "o-failures-not-shrunk(same direction, value kind and feature set as failures already shrunk; not reported)"
            } else {
                "o-failures-not-shrunk(time budget of the shrinker used up by failures already reported; not reported)"
            });
            return;
        };
        let mut sig = format!("{}:{}:{}", fmin.direction, doc_features(&min_doc, &fmin.direction), fmin.kind);
        let mut what = fmin.what.clone();
        // a failure seen with the schema given as an introspection result: does the minimal document fail with the same
        // schema given as SDL too? If not, the class is one of the introspection route (reader / `type_system_to_ast`)
        if case.schema_json.is_some() {
            let sdl_case = Case { schema_json: None, ..case.clone() };
            if self.o_fails(&sdl_case, &min_doc, &fmin.direction).is_none() {
                sig.push_str(":introspection-json-route-only");
                what.push_str(" [schema given as introspection result (`schema: x.json`); the same schema given as SDL does not fail]");
            }
        }
        let min_case = Case { doc: doc_text(&min_doc), ..case.clone() };
        self.rep.fail("O", &sig, &format!("{} [minimal document: {}]", what, min_case.doc.replace('\n', " ")), min_case.to_json());
    }

    /// K and O on a batch of cases
    pub fn run(&mut self, cases: &[Case], with_k: bool) {
        let t0 = std::time::Instant::now();
        let mut preps: Vec<(usize, Box<Prepared>)> = vec![];
        for (i, c) in cases.iter().enumerate() {
            self.rep.evaluations += 1;
            match prepare(c) {
                Prep::Rejected(why) => {
                    if std::env::var("NV_SHOW_REJECTED").is_ok() {
                        eprintln!("rejected: {why}\n--- schema\n{}\n--- document\n{}", c.sdl.join("\n--- next file\n"), c.doc);
                    }
                    self.rep.count(&format!("not-a-case:{}", why.chars().take(60).collect::<String>()));
                }
                Prep::Unparsable(why) => {
                    self.rep.fail("O", "emitted-text-unparsable", &why, c.to_json());
                }
                Prep::Ready(p) => preps.push((i, p)),
            }
        }
        let mut reqs = vec![];
        for (_, p) in &preps {
            if with_k {
                reqs.push(k_request(p));
            }
            if let Some(r) = o_request(p, self.which, self.cap) {
                reqs.push(r);
            }
        }
        let t1 = std::time::Instant::now();
        if let Ok(path) = std::env::var("NV_DUMP") {
            use std::io::Write;
            let mut f = std::fs::OpenOptions::new().create(true).append(true).open(path).unwrap();
            for r in &reqs {
                writeln!(f, "{}", r.to_line()).unwrap();
            }
        }
        let answers = par_batch(self.drv, &mut self.pool, &reqs);
        let t2 = std::time::Instant::now();
        let mut ai = 0;
        for (i, p) in preps {
            let case = &cases[i];
            if with_k {
                self.rep.k_cases += 1;
                if let Some((sig, what)) = k_compare(&p, &answers[ai]) {
                    self.rep.fail("K", &sig, &what, case.to_json());
                }
                ai += 1;
            }
            match &p.op_ts {
                Err(msg) => {
                    if case.invalid_by_merge_rule {
                        self.rep.count("printer-panics-on-document-invalid-by-5.3.2(FieldsInSetCanMerge; passes check; C08/C03)");
                    } else if self.which == "oracle.c01" {
                        self.rep.o_cases += 1;
                        let f = OFail { direction: "panic".into(), kind: panic_kind(msg).into(), what: format!("print_types_for_operation_document panics on a document `check` accepts: {}", msg.lines().next().unwrap_or("")) };
                        self.report_o(case, &p, f);
                    }
                }
                Ok(_) => {
                    let ans = answers[ai].clone();
                    ai += 1;
                    if case.invalid_by_merge_rule {
                        continue;
                    }
                    self.rep.o_cases += 1;
                    if let Some(Sexp::List(v)) = Some(&ans) {
                        if v.first().and_then(|h| h.as_atom()) == Some("ok") {
                            let n = v.get(1).and_then(|x| x.as_int()).unwrap_or(0);
                            self.rep.count_n("values-tested", n as u64);
                        }
                    }
                    if let Some(f) = o_interpret(self.which, &ans) {
                        if f.direction == "internal" {
                            self.rep.fail("K", "oracle-internal", &f.what, case.to_json());
                        } else if self.which == "oracle.c02" && has_uninhabited_composite(&case.sdl) {
                            // Outside the domain of the reading of the emitted types (hypothesis `Hyp.inhabited` /
                            // `CfgOk.inhabited` of the refinement theorems): a REQUIRED field of an interface / union type
                            // with no possible object type is printed as `k: never`; TypeScript makes the record
                            // uninhabited, the reading in Ts/SelSem.lean (written for the `k?: never` skip encoding) makes
                            // the key absent, so the "admits" direction would be judged against the wrong reading.
                            self.rep.count("out-of-domain:uninhabited-composite-type(Hyp.inhabited)");
                        } else {
                            self.report_o(case, &p, f);
                        }
                    }
                }
            }
        }
        if std::env::var("NV_TIMING").is_ok() {
            eprintln!("batch of {}: prepare {:?} driver {:?} rest(shrink) {:?}", cases.len(), t1 - t0, t2 - t1, t2.elapsed());
        }
    }
}

/// does the schema text declare an interface that no object type implements, or a union without members?
/// (textual scan of `interface N`, `type/extend type … implements A & B`, `union U = …`; enough for generated SDL)
pub fn has_uninhabited_composite(sdl: &[String]) -> bool {
    let text: String = sdl.join("\n");
    let toks: Vec<&str> = text
        .split(|c: char| c.is_whitespace() || c == ',' )
        .filter(|t| !t.is_empty())
        .collect();
    let mut interfaces: Vec<String> = vec![];
    let mut implemented: Vec<String> = vec![];
    let mut i = 0;
    while i < toks.len() {
        let t = toks[i];
        if t == "interface" && i + 1 < toks.len() && (i == 0 || toks[i - 1] != "extend") {
            interfaces.push(toks[i + 1].trim_end_matches('{').to_string());
        }
        if t == "type" && i + 1 < toks.len() {
            // object type (or its extension): names after `implements` up to `{` or `@`
            let mut j = i + 2;
            if j < toks.len() && toks[j] == "implements" {
                j += 1;
                while j < toks.len() {
                    let w = toks[j];
                    if w.starts_with('{') || w.starts_with('@') {
                        break;
                    }
                    for n in w.split('&') {
                        let n = n.trim_end_matches('{');
                        if !n.is_empty() {
                            implemented.push(n.to_string());
                        }
                    }
                    if w.contains('{') {
                        break;
                    }
                    j += 1;
                }
            }
        }
        if t == "union" && i + 1 < toks.len() && (i == 0 || toks[i - 1] != "extend") {
            // `union U` / `union U =` with nothing that looks like a member name behind it
            let mut j = i + 2;
            while j < toks.len() && toks[j].starts_with('@') {
                j += 1;
            }
            let has_members = j < toks.len() && toks[j].starts_with('=') && {
                let rest = toks[j].trim_start_matches('=').trim_start_matches('|');
                !rest.is_empty() || (j + 1 < toks.len() && toks[j + 1].chars().next().map_or(false, |c| c == '|' || c.is_alphabetic() || c == '_')
                    && !["type", "interface", "union", "enum", "input", "scalar", "directive", "schema", "extend"].contains(&toks[j + 1]))
            };
            if !has_members && !text.contains(&format!("extend union {}", toks[i + 1])) {
                return true;
            }
        }
        i += 1;
    }
    interfaces.iter().any(|n| !implemented.contains(n))
}

// ---------------------------------------------------------------------------------------------
// corpus and generation

pub const CORPUS_SDL: &str = "type Query { a: A, as: [A!]!, me: User!, node: Node, search: [SearchResult!], f: Int, n: Int }\n\
type A { x: Int, y: String, z: A }\n\
interface Node { id: ID! }\n\
type User implements Node { id: ID!, name: String!, role: Role, friends: [User!]!, posts: [Post] }\n\
type Post implements Node { id: ID!, title: String, author: User! }\n\
union SearchResult = User | Post\n\
enum Role { ADMIN USER }\n\
scalar Date\n";

pub const CORPUS_CONFIG: &str = "schema: \"s.graphql\"\ndocuments: \"*.graphql\"\nextensions:\n  nitrogql:\n    generate:\n      mode: with-loader-ts-5.0\n      type:\n        scalarTypes:\n          Date: \"string\"\n";

/// minimised past failures and hand-written shapes (run first)
pub fn corpus() -> Vec<Case> {
    let docs: Vec<(&str, bool)> = vec![
        // §9-a: same-key object fields whose sub-selections are both variable-conditioned
        ("query Q($v: Boolean!) { a { x @skip(if: $v) } a { y @skip(if: $v) } }", false),
        ("query Q($v: Boolean!, $w: Boolean!) { a { x @include(if: $v) } a { y @skip(if: $w) } }", false),
        // §9-b: aliased __typename
        ("query Q { t: __typename }", false),
        ("query Q { me { kind: __typename name } }", false),
        // §9-c: alias literally named __typename on another field
        ("query Q { me { __typename: name } }", false),
        // §9-h: leaf and object under one response key (not spec-valid: FieldsInSetCanMerge)
        ("query Q { n: a { x } n: f }", true),
        // shapes of the repository's snapshot tests
        ("query Q { me { id name role friends { id } posts { title author { name } } } }", false),
        ("query Q($b: Boolean!) { me { id @skip(if: $b) name @include(if: $b) } f @skip(if: true) n @include(if: false) }", false),
        ("query Q { node { __typename id ... on User { name } ... on Post { title } } }", false),
        ("query Q { search { __typename ... on User { id name } ... on Post { id title } ... on Node { id } } }", false),
        ("query Q($b: Boolean!) { me { ...F @skip(if: $b) ... @include(if: $b) { role } } } fragment F on User { name friends { ...G } } fragment G on Node { id }", false),
        ("query Q { a { x } a { y z { x } } as { x } as { y } }", false),
        ("query Q($b: Boolean!) { a { x } a @skip(if: $b) { y } }", false),
        ("query Q($b: Boolean!) { me { friends { name } friends { id @skip(if: $b) } } }", false),
        ("fragment OnlyFrag on SearchResult { ... on User { name } } query Q { search { ...OnlyFrag } }", false),
        ("query Q { me { id id2: id name } me2: me { id } }", false),
        // dda35cd: a field aliased to its OWN name — alone, next to unaliased selections of the same field, with and
        // without @skip/@include, through fragments and inline fragments, leaves and composites
        ("query Q($v: Boolean!) { a: a @skip(if: $v) { x } a { y } }", false),
        ("query Q { a: a { x } }", false),
        ("query Q { a: a { x } a { y } }", false),
        ("query Q($v: Boolean!) { a { y } a: a @include(if: $v) { x z: z { x: x } z { y } } }", false),
        ("query Q($v: Boolean!) { ...F a { y } } fragment F on Query { a: a @skip(if: $v) { x } }", false),
        ("query Q($v: Boolean!) { me { name: name ... on User { name @skip(if: $v) } friends: friends { id } friends { name } } }", false),
        ("query Q($v: Boolean!) { f: f @skip(if: $v) f n: n }", false),
        ("query Q($v: Boolean!) { node { id: id ... on User { id name: name @include(if: $v) } ... on Post { title: title title } } }", false),
        ("query Q($v: Boolean!) { search { ... on User { posts: posts @skip(if: $v) { title } posts { author { name } } } } }", false),
        ("query Q { me { __typename: __typename __typename } }", false),
    ];
    docs.into_iter()
        .map(|(d, inv)| Case { sdl: vec![CORPUS_SDL.into()], abstract_schema: None, doc: d.into(), config: CORPUS_CONFIG.into(), invalid_by_merge_rule: inv, schema_json: None })
        .chain(ext_corpus())
        .chain(wrapper_corpus())
        .collect()
}

const BUILTIN_DIRECTIVES: [&str; 5] = ["skip", "include", "deprecated", "specifiedBy", "nitrogql_ts_type"];

/// the abstract model of an SDL text (for rendering it as an introspection result): the real front end's resolved
/// document without the built-in items
fn model_of_sdl(sdl: &str) -> Option<SchemaModel> {
    let doc = with_schema(&[sdl.to_string()], |resolved, _| from_real_tsdoc(resolved)).ok()?;
    let items: Vec<TsItem> = doc
        .items
        .into_iter()
        .filter(|i| match i {
            TsItem::TypeDef(t) => !(BUILTIN_SCALARS.contains(&t.name.as_str()) || t.name.starts_with("__")),
            TsItem::DirectiveDef(d) => !BUILTIN_DIRECTIVES.contains(&d.name.as_str()),
            _ => true,
        })
        .collect();
    Some(SchemaModel { doc: TsDoc { items }, query: "Query".into(), mutation: None, subscription: None })
}

/// every list / non-null wrapper shape up to depth 3 on output fields (scalar, enum, object, interface targets), as SDL and
/// as introspection result
fn wrapper_corpus() -> Vec<Case> {
    let shapes = ["T", "T!", "[T]", "[T!]", "[T]!", "[T!]!", "[[T]]", "[[T!]]", "[[T]!]", "[[T]]!", "[[T!]!]", "[[T!]]!", "[[T]!]!", "[[T!]!]!", "[[[T]]]", "[[[T!]]!]", "[[[T]!]]!", "[[[T!]!]!]!"];
    let mut fields = String::new();
    let mut sel = String::new();
    for (i, sh) in shapes.iter().enumerate() {
        fields.push_str(&format!("  i{i}: {}\n  e{i}: {}\n  o{i}: {}\n  n{i}: {}\n", sh.replace('T', "Int"), sh.replace('T', "Role"), sh.replace('T', "Leaf"), sh.replace('T', "Node")));
        sel.push_str(&format!(" i{i} e{i} o{i} {{ v }} n{i} {{ __typename id }}"));
    }
    let sdl = format!("type Query {{\n{fields}}}\ntype Leaf implements Node {{ id: ID! v: String }}\ninterface Node {{ id: ID! }}\nenum Role {{ ADMIN USER }}\n");
    let docs = [format!("query Q {{{sel} }}"), "query Q { i6 i7 i9 o6 { v } o7 { id } n11 { ... on Leaf { v } } }".to_string()];
    let mut out = vec![];
    for d in docs {
        let c = Case { sdl: vec![sdl.clone()], abstract_schema: None, doc: d, config: DEFAULT_CONFIG.into(), invalid_by_merge_rule: false, schema_json: None };
        if let Some(m) = model_of_sdl(&sdl) {
            if let Ok(text) = serde_json::to_string(&ijson::introspection_json(&m)) {
                out.push(Case { schema_json: Some(text), ..c.clone() });
            }
        }
        out.push(c);
    }
    out
}

/// schemas whose types join interfaces / gain fields and union members ONLY through `extend …` items, over two files
fn ext_corpus() -> Vec<Case> {
    let f1 = "type Query { node: Node, nodes: [Node!]!, search: [SearchResult!] }\ninterface Node { id: ID! }\ntype User implements Node { id: ID!, name: String! }\ntype Post { id: ID!, title: String }\nunion SearchResult = User\n";
    let f2 = "extend type Post implements Node\nextend type Post { author: User }\nextend union SearchResult = Post\nextend interface Node { label: String }\nextend type User { label: String }\nextend type Post { label: String }\n";
    let docs = [
        "query Q { node { __typename id } }",
        "query Q { nodes { id label ... on Post { title author { name } } ... on User { name } } }",
        "query Q { search { __typename ... on Post { title } ... on Node { id } } }",
        "fragment F on Node { id label } query Q { node { ...F } }",
    ];
    docs.iter()
        .map(|d| Case { sdl: vec![f1.into(), f2.into()], abstract_schema: None, doc: d.to_string(), config: DEFAULT_CONFIG.into(), invalid_by_merge_rule: false, schema_json: None })
        .collect()
}

/// a generated valid case (schema, document, config with name/export options varied)
pub fn gen_case(rng: &mut Rng, rep: &mut Report) -> Case {
    gen_case_with(rng, rep, false)
}

/// `hier`: the schema has an interface HIERARCHY (`GenCfg::iface_hierarchies`: interfaces implementing interfaces to
/// depth ≥ 1, diamonds, unrelated hierarchies, objects listing the closure in random order) and the document conditions
/// fragments (inline and named) on EVERY interface that can apply under one or two composite root fields
/// (`inject_interface_conditions`). With `hier = false` no additional random choice is drawn.
pub fn gen_case_with(rng: &mut Rng, rep: &mut Report, hier: bool) -> Case {
    gen_case_full(rng, rep, hier).0
}

/// the same case with the schema given as an INTROSPECTION RESULT (`schema: x.json`): the generator's merged model rendered
/// by the harness's own `ijson::introspection_json`, read by the real reader the way the CLI composes it. Same document,
/// same configuration (every custom scalar has a configuration entry — `@nitrogql_ts_type` does not exist on this route and
/// `gen_case` never writes it), same abstract schema for the specification side. No random choice is drawn.
pub fn json_twin(case: &Case, schema: &SchemaModel, rep: &mut Report) -> Option<Case> {
    let text = serde_json::to_string(&ijson::introspection_json(schema)).ok()?;
    rep.count("route:introspection-json-twin");
    // wrapper shapes of the OUTPUT fields (what the reader has to rebuild from LIST / NON_NULL chains)
    let mut shapes = BTreeSet::new();
    for t in schema.types().filter(|t| matches!(t.kind, TypeKind::Object | TypeKind::Interface)) {
        for f in &t.fields {
            let (mut lists, mut adjacent) = (0, false);
            let mut cur = &f.ty;
            let mut prev_list = false;
            loop {
                match cur {
                    Ty::Named(..) => break,
                    Ty::List(i, _) => {
                        lists += 1;
                        if prev_list {
                            adjacent = true;
                        }
                        prev_list = true;
                        cur = i;
                    }
                    Ty::NonNull(i) => {
                        prev_list = false;
                        cur = i;
                    }
                }
            }
            shapes.insert(format!("feature:json-route:output-field:list-depth:{lists}"));
            if adjacent {
                shapes.insert("feature:json-route:output-field:directly-nested-lists([[T]]-style)".to_string());
            }
        }
    }
    for f in shapes {
        rep.count(&f);
    }
    Some(Case { sdl: vec![schema.sdl()], schema_json: Some(text), ..case.clone() })
}

pub fn gen_case_full(rng: &mut Rng, rep: &mut Report, hier: bool) -> (Case, SchemaModel) {
    let cfg = GenCfg { hostile_text: false, descriptions: rng.chance(1, 3), iface_hierarchies: hier, ..GenCfg::default() };
    let schema = gen_schema(rng, &cfg);
    let (mut doc, features) = gen_doc(rng, &schema, &cfg);
    if hier {
        for f in iface_shape_features(&schema) {
            rep.count(&format!("feature:hier:{f}"));
        }
        match inject_interface_conditions(rng, &schema, &mut doc) {
            Ok(n) => {
                rep.count("feature:hier:injected:fragments-on-every-applicable-interface");
                rep.count_n("feature:hier:injected:interface-conditions", n as u64);
            }
            Err(why) => rep.count(&format!("feature:hier:not-injected:{why}")),
        }
    }
    // extra shapes the shared generator produces rarely: duplicate composite fields with conditioned
    // sub-selections, an alias named __typename
    let mut extra = vec![];
    if rng.chance(1, 10) {
        if inject_conditioned_duplicate(rng, &schema, &mut doc) {
            extra.push("injected:conditioned-duplicate".to_string());
        }
    }
    if rng.chance(1, 12) {
        if inject_alias_named_typename(rng, &schema, &mut doc) {
            extra.push("injected:alias-named-typename".to_string());
        }
    }
    if rng.chance(1, 5) {
        if inject_alias_own_name(rng, &schema, &mut doc) {
            extra.push("injected:alias-own-name".to_string());
        }
    }
    for f in features.iter().chain(extra.iter()) {
        rep.count(&format!("feature:{f}"));
    }
    let mut pc = gen_project_cfg(rng, &schema, false);
    // a scalar configured as `unknown` has every value (null and undefined included), which makes nullability
    // inexpressible for it; such mappings are C09's subject and are kept out of the O streams here
    let fix = |t: &mut String| {
        if t == "unknown" {
            *t = "string".into();
        }
    };
    for (_, c) in pc.scalars.iter_mut() {
        match c {
            ScalarCfg::Single(t) => fix(t),
            ScalarCfg::SendReceive { send, receive } => {
                fix(send);
                fix(receive);
            }
            ScalarCfg::Separate { resolver_output, resolver_input, operation_output, operation_input } => {
                fix(resolver_output);
                fix(resolver_input);
                fix(operation_output);
                fix(operation_input);
            }
        }
    }
    if rng.chance(1, 4) {
        pc.extra_generate_lines.push("      name:".into());
        if rng.coin() {
            pc.extra_generate_lines.push("        operationResultTypeSuffix: \"Data\"".into());
        }
        if rng.coin() {
            pc.extra_generate_lines.push("        fragmentTypeSuffix: \"Fragment\"".into());
        }
        pc.extra_generate_lines.push(format!("        capitalizeOperationNames: {}", rng.coin()));
        rep.count("feature:config-names");
    }
    if rng.chance(1, 4) {
        pc.extra_generate_lines.push("      export:".into());
        pc.extra_generate_lines.push(format!("        operationResultType: {}", rng.coin()));
        rep.count("feature:config-export");
    }
    // the schema text the REAL pipeline reads: in about half of the cases components (fields, enum values, union
    // members, `implements` lists, directives) are moved into `extend …` items, optionally over two files
    let sdl = if rng.coin() {
        let split = split_into_extensions(rng, &schema);
        rep.count("feature:schema-with-extensions");
        if split.items.iter().any(|i| matches!(i, TsItem::TypeExt(e) if !e.implements.is_empty())) {
            rep.count("feature:schema-extension-implements");
        }
        if rng.coin() {
            rep.count("feature:schema-in-two-files");
            let mut a = vec![];
            let mut b = vec![];
            for it in split.items {
                if rng.coin() {
                    a.push(it);
                } else {
                    b.push(it);
                }
            }
            vec![nvh::render::tsdoc_text(&TsDoc { items: a }), nvh::render::tsdoc_text(&TsDoc { items: b })]
        } else {
            vec![nvh::render::tsdoc_text(&split)]
        }
    } else {
        vec![schema.sdl()]
    };
    // the schema the SPECIFICATION side uses: the generator's own merged model, never the real pipeline's output
    let abstract_schema = Some(with_builtin_scalars(schema.doc.clone()).to_sexp().to_line());
    (Case { sdl, abstract_schema, doc: doc_text(&doc), config: pc.yaml("s.graphql", "*.graphql", &[]), invalid_by_merge_rule: false, schema_json: None }, schema)
}

fn first_op_sel<'a>(doc: &'a mut Doc) -> Option<(&'a mut OpDef, String)> {
    for d in doc.defs.iter_mut() {
        if let ExecDef::Op(o) = d {
            return Some((o, String::new()));
        }
    }
    None
}

/// `f { p @skip(if:$b) } f { q @include(if:$b) }` on some argument-less composite root field
fn inject_conditioned_duplicate(rng: &mut Rng, schema: &SchemaModel, doc: &mut Doc) -> bool {
    let Some((op, _)) = first_op_sel(doc) else { return false };
    if op.kind == OpKind::Subscription {
        return false;
    }
    let Some(root) = schema.root(op.kind).map(|s| s.to_string()) else { return false };
    let Some(rt) = schema.type_def(&root) else { return false };
    let cands: Vec<&FieldDef> = rt
        .fields
        .iter()
        .filter(|f| f.args.iter().all(|a| !a.ty.is_non_null() || a.default.is_some()) && schema.kind_of(f.ty.unwrapped()) == Some(TypeKind::Object))
        .filter(|f| !op.sel.iter().any(|s| s.response_key() == Some(f.name.as_str())))
        .collect();
    if cands.is_empty() {
        return false;
    }
    let f = cands[rng.below(cands.len())];
    let target = schema.type_def(f.ty.unwrapped()).unwrap();
    let leafs: Vec<&FieldDef> = target.fields.iter().filter(|g| g.args.iter().all(|a| !a.ty.is_non_null() || a.default.is_some()) && !schema.is_composite(g.ty.unwrapped())).collect();
    if leafs.is_empty() {
        return false;
    }
    let var = "inj".to_string();
    let cond = |rng: &mut Rng| Dir::new(if rng.coin() { "skip" } else { "include" }, vec![Arg::new("if", Val::Var(var.clone(), P::default()))]);
    let mk = |rng: &mut Rng, leaf: &FieldDef| Sel::Field {
        alias: None,
        name: f.name.clone(),
        name_pos: P::default(),
        args: vec![],
        dirs: vec![],
        sel: Some(vec![Sel::Field { alias: None, name: leaf.name.clone(), name_pos: P::default(), args: vec![], dirs: vec![cond(rng)], sel: None }]),
    };
    let l1 = leafs[rng.below(leafs.len())];
    let l2 = leafs[rng.below(leafs.len())];
    let s1 = mk(rng, l1);
    let s2 = if rng.coin() { mk(rng, l2) } else { Sel::Field { alias: None, name: f.name.clone(), name_pos: P::default(), args: vec![], dirs: vec![], sel: Some(vec![Sel::field("__typename")]) } };
    op.sel.push(s1);
    op.sel.push(s2);
    if !op.vars.iter().any(|v| v.name == var) {
        op.vars.push(VarDef { name: var, pos: P::default(), ty: Ty::non_null(Ty::named("Boolean")), default: None, dirs: vec![] });
    }
    true
}

/// For one or two composite root fields `f` of the first operation — fields already selected with a sub-selection, or not
/// yet selected ones whose arguments are all optional —: the sub-selection of `f` gets
/// `__typename  <one fragment per interface I that has a possible type in common with f's type>` where each
/// fragment is `... on I { leaf }`, a spread of a new `fragment InjIk on I { leaf }`, or either of them wrapped in
/// `... on O { … }` for an object type O of both; `leaf` = leaf fields of I selected without arguments (or `__typename`).
/// Every object type below `f` thus meets a type condition on EVERY interface it implements (and on interfaces it does
/// not implement). Same field name ⇒ same signature (pool), no arguments, no alias ⇒ the selections merge (5.3.2).
/// Returns the number of interface conditions added.
fn inject_interface_conditions(rng: &mut Rng, schema: &SchemaModel, doc: &mut Doc) -> Result<usize, &'static str> {
    let ok_args = |g: &FieldDef| g.args.iter().all(|a| !a.ty.is_non_null() || a.default.is_some());
    let mut new_frags: Vec<FragDef> = vec![];
    let mut added = 0usize;
    {
        let Some(op) = doc.defs.iter_mut().find_map(|d| match d {
            ExecDef::Op(o) if o.kind != OpKind::Subscription => Some(o),
            _ => None,
        }) else {
            return Err("only-subscriptions");
        };
        let Some(rt) = schema.root(op.kind).and_then(|r| schema.type_def(r)) else { return Err("no-root") };
        // places: Ok(index of an existing root selection with a sub-selection) / Err(root field not selected yet)
        let mut places: Vec<Result<usize, &FieldDef>> = vec![];
        for (si, s) in op.sel.iter().enumerate() {
            if let Sel::Field { name, sel: Some(_), .. } = s {
                if rt.fields.iter().any(|f| &f.name == name && schema.is_composite(f.ty.unwrapped())) {
                    places.push(Ok(si));
                }
            }
        }
        for f in &rt.fields {
            if ok_args(f) && schema.is_composite(f.ty.unwrapped()) && !op.sel.iter().any(|s| s.response_key() == Some(f.name.as_str())) {
                places.push(Err(f));
            }
        }
        if places.is_empty() {
            return Err("no-composite-root-field");
        }
        let field_of = |place: &Result<usize, &FieldDef>| -> Option<String> {
            match place {
                Ok(si) => match &op.sel[*si] {
                    Sel::Field { name, .. } => Some(name.clone()),
                    _ => None,
                },
                Err(f) => Some(f.name.clone()),
            }
        };
        let overlapping = |fname: &str| -> Vec<String> {
            let Some(f) = rt.fields.iter().find(|f| f.name == fname) else { return vec![] };
            let poss = schema.possible_types(f.ty.unwrapped());
            schema.types().filter(|t| t.kind == TypeKind::Interface && schema.possible_types(&t.name).iter().any(|o| poss.contains(o))).map(|t| t.name.clone()).collect()
        };
        let mut places: Vec<(Result<usize, &FieldDef>, String)> = places.into_iter().filter_map(|p| field_of(&p).map(|n| (p, n))).filter(|(_, n)| !overlapping(n).is_empty()).collect();
        if places.is_empty() {
            return Err("no-interface-overlaps-a-root-field");
        }
        rng.shuffle(&mut places);
        let take = if rng.coin() { places.len() } else { 1 + rng.below(2) };
        let mut k = 0usize;
        for (pi, (place, fname)) in places.into_iter().take(take).enumerate() {
            let Some(f) = rt.fields.iter().find(|f| f.name == fname) else { continue };
            let target = f.ty.unwrapped().to_string();
            let poss = schema.possible_types(&target);
            let mut ifaces = overlapping(&fname);
            rng.shuffle(&mut ifaces);
            let mut sel = vec![Sel::field("__typename")];
            for i in &ifaces {
                let idef = schema.type_def(i).unwrap();
                let leafs: Vec<&FieldDef> = idef.fields.iter().filter(|g| ok_args(g) && !schema.is_composite(g.ty.unwrapped())).collect();
                let n_leaf = if leafs.is_empty() { 0 } else { 1 + rng.below(2) };
                let mut inner: Vec<Sel> = vec![];
                for _ in 0..n_leaf {
                    let l = leafs[rng.below(leafs.len())];
                    if !inner.iter().any(|s| s.response_key() == Some(l.name.as_str())) {
                        inner.push(Sel::Field { alias: None, name: l.name.clone(), name_pos: P::default(), args: vec![], dirs: vec![], sel: None });
                    }
                }
                if inner.is_empty() {
                    inner.push(Sel::field("__typename"));
                }
                // sometimes a nested condition on another interface J that shares an object type with I below `f`
                if rng.chance(1, 3) {
                    let in_i = schema.possible_types(i);
                    let js: Vec<&String> = ifaces.iter().filter(|j| *j != i && schema.possible_types(j).iter().any(|o| in_i.contains(o) && poss.contains(o))).collect();
                    if !js.is_empty() {
                        let j = js[rng.below(js.len())];
                        let jl: Vec<&FieldDef> = schema.type_def(j).unwrap().fields.iter().filter(|g| ok_args(g) && !schema.is_composite(g.ty.unwrapped())).collect();
                        let leaf = if jl.is_empty() { Sel::field("__typename") } else { Sel::field(&jl[rng.below(jl.len())].name) };
                        inner.push(Sel::Inline { cond: Some((j.clone(), P::default())), dirs: vec![], sel: vec![leaf], pos: P::default() });
                        added += 1;
                    }
                }
                let mut s = if rng.chance(2, 5) {
                    k += 1;
                    let name = format!("InjI{k}");
                    new_frags.push(FragDef { name: name.clone(), name_pos: P::default(), cond: i.clone(), cond_pos: P::default(), dirs: vec![], sel: inner, pos: P::default() });
                    Sel::Spread { name, name_pos: P::default(), dirs: vec![], pos: P::default() }
                } else {
                    Sel::Inline { cond: Some((i.clone(), P::default())), dirs: vec![], sel: inner, pos: P::default() }
                };
                if rng.chance(1, 4) {
                    let both: Vec<String> = schema.possible_types(i).into_iter().filter(|o| poss.contains(o)).collect();
                    let o = both[rng.below(both.len())].clone();
                    s = Sel::Inline { cond: Some((o, P::default())), dirs: vec![], sel: vec![s], pos: P::default() };
                }
                sel.push(s);
                added += 1;
            }
            match place {
                Ok(si) => {
                    if let Sel::Field { sel: Some(ss), .. } = &mut op.sel[si] {
                        ss.extend(sel);
                    }
                }
                Err(_) => {
                    let alias = if rng.chance(1, 4) { Some((format!("injI{pi}"), P::default())) } else { None };
                    op.sel.push(Sel::Field { alias, name: fname, name_pos: P::default(), args: vec![], dirs: vec![], sel: Some(sel) });
                }
            }
        }
    }
    for f in new_frags {
        let at = rng.below(doc.defs.len() + 1);
        doc.defs.insert(at, ExecDef::Frag(f));
    }
    Ok(added)
}

/// `injN: f { __typename: <leaf field> }` for an argument-less root field `f` of object type
fn inject_alias_named_typename(rng: &mut Rng, schema: &SchemaModel, doc: &mut Doc) -> bool {
    let Some((op, _)) = first_op_sel(doc) else { return false };
    if op.kind == OpKind::Subscription {
        return false;
    }
    let Some(root) = schema.root(op.kind).map(|s| s.to_string()) else { return false };
    let Some(rt) = schema.type_def(&root) else { return false };
    let ok_args = |g: &FieldDef| g.args.iter().all(|a| !a.ty.is_non_null() || a.default.is_some());
    let cands: Vec<&FieldDef> = rt.fields.iter().filter(|f| ok_args(f) && schema.kind_of(f.ty.unwrapped()) == Some(TypeKind::Object)).collect();
    if cands.is_empty() {
        return false;
    }
    let f = cands[rng.below(cands.len())];
    let target = schema.type_def(f.ty.unwrapped()).unwrap();
    let leafs: Vec<&FieldDef> = target.fields.iter().filter(|g| ok_args(g) && !schema.is_composite(g.ty.unwrapped())).collect();
    if leafs.is_empty() {
        return false;
    }
    let l = leafs[rng.below(leafs.len())];
    let inner = Sel::Field { alias: Some(("__typename".into(), P::default())), name: l.name.clone(), name_pos: P::default(), args: vec![], dirs: vec![], sel: None };
    op.sel.push(Sel::Field { alias: Some(("injT".into(), P::default())), name: f.name.clone(), name_pos: P::default(), args: vec![], dirs: vec![], sel: Some(vec![inner]) });
    true
}

/// alias-less fields get their own name as alias (`a` becomes `a: a`), anywhere in the document (operations and
/// fragments, through inline fragments, leaves and composites) — the response key is unchanged, so validity is
/// unaffected; one of two merged duplicates aliased this way is the family of /repo dda35cd.
fn alias_own_name_in(rng: &mut Rng, sels: &mut Vec<Sel>, num: u32, den: u32, done: &mut usize) {
    for s in sels.iter_mut() {
        match s {
            Sel::Field { alias, name, sel, .. } => {
                if alias.is_none() && rng.chance(num, den) {
                    *alias = Some((name.clone(), P::default()));
                    *done += 1;
                }
                if let Some(ss) = sel {
                    alias_own_name_in(rng, ss, num, den, done);
                }
            }
            Sel::Inline { sel, .. } => alias_own_name_in(rng, sel, num, den, done),
            Sel::Spread { .. } => {}
        }
    }
}

/// the family "alias equal to the field's own name": (a) some alias-less fields of the document are aliased to their own
/// name; (b) on an argument-less composite root field `f` not yet selected, `f: f @skip/@include(if: $inj) { p }` is put
/// next to an unaliased `f { q }` (directly, or with the aliased copy behind an inline fragment)
fn inject_alias_own_name(rng: &mut Rng, schema: &SchemaModel, doc: &mut Doc) -> bool {
    let mut done = 0usize;
    let (num, den) = if rng.coin() { (1, 2) } else { (1, 5) };
    for d in doc.defs.iter_mut() {
        match d {
            ExecDef::Op(o) => alias_own_name_in(rng, &mut o.sel, num, den, &mut done),
            ExecDef::Frag(f) => alias_own_name_in(rng, &mut f.sel, num, den, &mut done),
            ExecDef::Import(_) => {}
        }
    }
    if rng.coin() {
        if let Some((op, _)) = first_op_sel(doc) {
            if op.kind != OpKind::Subscription {
                if let Some(rt) = schema.root(op.kind).and_then(|r| schema.type_def(r)) {
                    let ok_args = |g: &FieldDef| g.args.iter().all(|a| !a.ty.is_non_null() || a.default.is_some());
                    let cands: Vec<&FieldDef> = rt
                        .fields
                        .iter()
                        .filter(|f| ok_args(f) && schema.kind_of(f.ty.unwrapped()) == Some(TypeKind::Object))
                        .filter(|f| !op.sel.iter().any(|s| s.response_key() == Some(f.name.as_str())))
                        .collect();
                    if !cands.is_empty() {
                        let f = cands[rng.below(cands.len())];
                        let target = schema.type_def(f.ty.unwrapped()).unwrap();
                        let leafs: Vec<&FieldDef> = target.fields.iter().filter(|g| ok_args(g) && !schema.is_composite(g.ty.unwrapped())).collect();
                        if !leafs.is_empty() {
                            let var = "inj".to_string();
                            let l1 = leafs[rng.below(leafs.len())];
                            let l2 = leafs[rng.below(leafs.len())];
                            let dirs = if rng.chance(3, 4) {
                                vec![Dir::new(if rng.coin() { "skip" } else { "include" }, vec![Arg::new("if", Val::Var(var.clone(), P::default()))])]
                            } else {
                                vec![]
                            };
                            let uses_var = !dirs.is_empty();
                            let aliased = Sel::Field {
                                alias: Some((f.name.clone(), P::default())),
                                name: f.name.clone(),
                                name_pos: P::default(),
                                args: vec![],
                                dirs,
                                sel: Some(vec![Sel::Field { alias: None, name: l1.name.clone(), name_pos: P::default(), args: vec![], dirs: vec![], sel: None }]),
                            };
                            let plain = Sel::Field {
                                alias: None,
                                name: f.name.clone(),
                                name_pos: P::default(),
                                args: vec![],
                                dirs: vec![],
                                sel: Some(vec![Sel::Field { alias: None, name: l2.name.clone(), name_pos: P::default(), args: vec![], dirs: vec![], sel: None }]),
                            };
                            let aliased = if rng.chance(1, 3) { Sel::Inline { cond: None, dirs: vec![], sel: vec![aliased], pos: P::default() } } else { aliased };
                            if rng.coin() {
                                op.sel.push(aliased);
                                op.sel.push(plain);
                            } else {
                                op.sel.push(plain);
                                op.sel.push(aliased);
                            }
                            if uses_var && !op.vars.iter().any(|v| v.name == var) {
                                op.vars.push(VarDef { name: var, pos: P::default(), ty: Ty::non_null(Ty::named("Boolean")), default: None, dirs: vec![] });
                            }
                            done += 1;
                        }
                    }
                }
            }
        }
    }
    done > 0
}

/// non-trivial by the rule: the document has ≥ 2 branches somewhere (abstract type or Boolean variable) or a
/// response key selected twice
pub fn nontrivial(doc_text: &str) -> bool {
    doc_text.contains("$") || doc_text.contains("... on") || doc_text.contains("...")
}

pub const RULE: &str = "cases = (schema SDL, operation document, config) accepted by the real check; non-trivial = the document uses a Boolean variable in @skip/@include, a fragment / inline fragment, or selects a response key twice (distinct by document+schema text)";

pub fn main_for(property: &str, which: &'static str) {
    let args = Args::parse();
    quiet_panics();
    let mut rep = Report::new(property, RULE);
    let mut drv = Driver::spawn(&args.driver);
    let search = args.extra.get("search").map(|s| s == "1").unwrap_or(false);
    let cap = match (which, args.thorough()) {
        ("oracle.c01", false) => 600,
        ("oracle.c01", true) => 1200,
        (_, false) => 300,
        (_, true) => 500,
    };
    {
        // the Lean driver is single-threaded and dominates the run: batches are spread over 3 processes (NV_DRIVERS=n overrides)
        let n_drivers: usize = std::env::var("NV_DRIVERS").ok().and_then(|s| s.parse().ok()).unwrap_or(3).clamp(1, 8);
        let pool: Vec<Driver> = if args.replay.is_some() { vec![] } else { (1..n_drivers).map(|_| Driver::spawn(&args.driver)).collect() };
        let mut r = Runner { rep: &mut rep, drv: &mut drv, pool, which, cap, shrink_budget: 1200, max_shrinks: if args.thorough() || search { 400 } else { 24 }, shrinks_done: 0,
            per_class: Default::default(), max_per_class: if args.thorough() || search { 4 } else { 1 }, shrink_seconds: if search { 20 } else if args.thorough() { 120 } else { 15 },
            shrink_total_seconds: if search { 60 } else if args.thorough() { 1200 } else { 40 }, shrink_spent: Default::default() };
        if let Some(path) = &args.replay {
            let v: Value = serde_json::from_str(&std::fs::read_to_string(path).expect("replay file")).expect("replay json");
            let case = Case::from_json(&v["case"]);
            r.run(&[case], true);
            rep.write(&args);
            return;
        }
        let corpus = corpus();
        r.run(&corpus, true);
        // two generated streams with their own random streams: "main" (the stream as it always was) and "interface
        // hierarchies". Ordinarily main runs first, then the hierarchies. In search mode (P / K broken, a failing INPUT is
        // wanted) batches alternate main, main, hierarchy, … and the run stops after the first batch with an O failure.
        let mut main_rng = Rng::new(args.seed);
        let mut hier_rng = Rng::new(args.seed ^ 0x1FACE_C01);
        let n_main = if search { 1500 } else if which == "oracle.c01" { args.budget(300, 3000) } else { args.budget(220, 1500) };
        // (the C02 oracle costs about three times the C01 oracle per case)
        let n_hier = if search { 400 } else if which == "oracle.c01" { args.budget(60, 500) } else { args.budget(40, 300) };
        // one generated case in `twin_every` is ALSO run with its schema given as an introspection result (no extra draw)
        let twin_every = if which == "oracle.c01" { 4 } else { 6 };
        let (mut mi, mut hi, mut slot) = (0usize, 0usize, 0usize);
        while mi < n_main || hi < n_hier {
            let take_hier = hi < n_hier && (mi >= n_main || (search && slot % 3 == 2));
            slot += 1;
            let mut batch = vec![];
            while batch.len() < 50 && (if take_hier { hi < n_hier } else { mi < n_main }) {
                let (c, schema) = gen_case_full(if take_hier { &mut hier_rng } else { &mut main_rng }, r.rep, take_hier);
                let i = if take_hier { hi } else { mi };
                if take_hier {
                    hi += 1;
                    r.rep.count("origin:interface-hierarchy-stream");
                    if i < 2 {
                        r.rep.sample(json!({"stream": "interface-hierarchy", "doc": c.doc, "schema_files": c.sdl}));
                    }
                } else {
                    mi += 1;
                    if i < 3 {
                        r.rep.sample(json!({"doc": c.doc, "schema_files": c.sdl.len(), "sdl_bytes": c.sdl.iter().map(|s| s.len()).sum::<usize>()}));
                    }
                }
                if nontrivial(&c.doc) {
                    r.rep.nontrivial(&format!("{}\n{}", c.sdl.join("\n"), c.doc));
                }
                if i % twin_every == if take_hier { 2 } else { 1 } {
                    if let Some(t) = json_twin(&c, &schema, r.rep) {
                        batch.push(t);
                    }
                }
                batch.push(c);
            }
            r.run(&batch, true);
            if search && r.rep.failures.iter().any(|f| f.stream == "O") {
                r.rep.count("search:stopped-after-first-batch-with-an-O-failure");
                break;
            }
        }
    }
    rep.sample(json!({"doc": "query Q($v: Boolean!) { a { x @skip(if: $v) } a { y @skip(if: $v) } }", "note": "corpus: DESIGN §9-a"}));
    rep.write(&args);
}
