//! C06 — emitted source maps are valid and point at the defining GraphQL tokens.
//!
//! K (model = code):
//!   vlq      real `base64_vlq` (the source file is compiled into this binary via #[path]) vs `vlq.enc`
//!   entries  real `MappingWriter::add_entry` (same) on raw entry sequences vs `map.run`
//!   ops      random op sequences through the public `SourceWriter` API with synthetic `HasPos` nodes vs `writer.run`
//!   files    FileMap / `sources` of the CLI vs `files.op` (through the end-to-end runs)
//! O (code satisfies the property), always on the REAL output, decoded by the Lean *spec* decoder:
//!   vlq      `vlq.dec(real(n)) = n`
//!   ops      `sm.check` (decodes, ordered, inside the generated text, indices in range), one segment pair per named
//!            node with names[idx] = name, generated text between the pair = chunk, original positions as given
//!   e2e      the built CLI on generated projects (schema files, operation files, `#import`ed fragments): every `.map`
//!            is JSON v3, `file`/`sources` resolve to existing inputs, `sm.check`, original positions inside the source
//!            file and at a token start / just past the mapped name, name = token or keyword of the definition.
#[path = "/repo/crates/sourcemap-writer/src/base64_vlq/mod.rs"]
#[allow(dead_code)]
mod base64_vlq;
#[path = "/repo/crates/sourcemap-writer/src/source_writer/mapping_writer.rs"]
#[allow(dead_code)]
mod mapping_writer;
#[path = "c06/sites.rs"]
mod sites;
#[path = "c06/history.rs"]
mod history;

use nitrogql_ast::base::{HasPos, Pos};
use nvh::*;
use serde_json::{json, Value};
use sourcemap_writer::{SourceMapWriter, SourceWriter};
use std::collections::BTreeMap;
use std::panic::AssertUnwindSafe;
use std::path::{Path, PathBuf};

const USIZE_MAX: u64 = u64::MAX;
const ISIZE_MAX: u64 = i64::MAX as u64;

// ---------------------------------------------------------------------------------------------- ops

#[derive(Clone, Debug, PartialEq)]
enum Op {
    W(String),
    Wf { chunk: String, line: u64, col: u64, file: u64, builtin: bool, name: Option<String> },
    In,
    De,
    Map(Vec<u64>),
}

struct N {
    pos: Pos,
    name: Option<String>,
}
impl HasPos for N {
    fn position(&self) -> &Pos {
        &self.pos
    }
    fn name(&self) -> Option<&str> {
        self.name.as_deref()
    }
}

fn op_to_json(op: &Op) -> Value {
    match op {
        Op::W(c) => json!({"op": "w", "chunk": c}),
        Op::Wf { chunk, line, col, file, builtin, name } => {
            json!({"op": "wf", "chunk": chunk, "line": line, "col": col, "file": file, "builtin": builtin, "name": name})
        }
        Op::In => json!({"op": "in"}),
        Op::De => json!({"op": "de"}),
        Op::Map(m) => json!({"op": "map", "m": m}),
    }
}
fn op_from_json(v: &Value) -> Op {
    match v["op"].as_str().unwrap_or("") {
        "w" => Op::W(v["chunk"].as_str().unwrap().to_string()),
        "wf" => Op::Wf {
            chunk: v["chunk"].as_str().unwrap().to_string(),
            line: v["line"].as_u64().unwrap(),
            col: v["col"].as_u64().unwrap(),
            file: v["file"].as_u64().unwrap(),
            builtin: v["builtin"].as_bool().unwrap(),
            name: v["name"].as_str().map(|s| s.to_string()),
        },
        "in" => Op::In,
        "de" => Op::De,
        _ => Op::Map(v["m"].as_array().unwrap().iter().map(|x| x.as_u64().unwrap()).collect()),
    }
}
fn op_to_sexp(op: &Op) -> Sexp {
    match op {
        Op::W(c) => Sexp::call("w", vec![Sexp::str(c.as_str())]),
        Op::Wf { chunk, line, col, file, builtin, name } => {
            let mut v = vec![Sexp::str(chunk.as_str()), Sexp::int(*line as i128), Sexp::int(*col as i128), Sexp::int(*file as i128), Sexp::bool(*builtin)];
            if let Some(n) = name {
                v.push(Sexp::str(n.as_str()));
            }
            Sexp::call("wf", v)
        }
        Op::In => Sexp::call("in", vec![]),
        Op::De => Sexp::call("de", vec![]),
        Op::Map(m) => Sexp::call("map", m.iter().map(|x| Sexp::int(*x as i128)).collect()),
    }
}

struct RealOut {
    buffer: String,
    mappings: String,
    names: Vec<String>,
}

fn real_ops(ops: &[Op]) -> Result<RealOut, String> {
    catch(AssertUnwindSafe(|| {
        let mut w = SourceWriter::new();
        for op in ops {
            match op {
                Op::W(c) => w.write(c),
                Op::Wf { chunk, line, col, file, builtin, name } => {
                    let n = N { pos: Pos { line: *line as usize, column: *col as usize, file: *file as usize, builtin: *builtin }, name: name.clone() };
                    w.write_for(chunk, &n)
                }
                Op::In => w.indent(),
                Op::De => w.dedent(),
                Op::Map(m) => w.set_file_index_mapper(m.iter().map(|x| *x as usize).collect()),
            }
        }
        let b = w.into_buffers();
        RealOut { buffer: b.buffer, mappings: b.source_map, names: b.names }
    }))
}

fn real_to_sexp(r: &Result<RealOut, String>) -> Sexp {
    match r {
        Ok(o) => Sexp::call("ok", vec![Sexp::str(o.buffer.as_str()), Sexp::str(o.mappings.as_str()), Sexp::list(o.names.iter().map(|n| Sexp::str(n.as_str())).collect())]),
        Err(_) => Sexp::call("panic", vec![]),
    }
}

fn utf16_len(s: &str) -> u64 {
    s.encode_utf16().count() as u64
}

// ------------------------------------------------------------------------------- decoded segments

#[derive(Clone, Debug)]
struct Seg {
    line: usize,
    col: i128,
    orig: Option<(i128, i128, i128)>,
    name: Option<i128>,
}

/// answer of `(sm.decode …)` → flat list of segments
fn parse_decoded(ans: &Sexp) -> Option<Vec<Seg>> {
    if ans.head() != Some("ok") {
        return None;
    }
    let mut out = vec![];
    for (ln, l) in ans.args().iter().enumerate() {
        for s in l.args() {
            let a: Vec<i128> = s.args().iter().filter_map(|x| x.as_int()).collect();
            let seg = match a.len() {
                1 => Seg { line: ln, col: a[0], orig: None, name: None },
                4 => Seg { line: ln, col: a[0], orig: Some((a[1], a[2], a[3])), name: None },
                5 => Seg { line: ln, col: a[0], orig: Some((a[1], a[2], a[3])), name: Some(a[4]) },
                _ => return None,
            };
            out.push(seg);
        }
    }
    Some(out)
}

/// text of `line` between UTF-16 columns a and b
fn utf16_slice(line: &str, a: i128, b: i128) -> Option<String> {
    let u: Vec<u16> = line.encode_utf16().collect();
    if a < 0 || b < a || b as usize > u.len() {
        return None;
    }
    String::from_utf16(&u[a as usize..b as usize]).ok()
}

// --------------------------------------------------------------------------------------- generators

fn rand_chunk(rng: &mut Rng) -> String {
    let pieces = ["a", "foo", "type ", "{", "}", " ", "\n", "\n", "é", "日本", "😀", "𝒳y", "  ", ";", "", "\n\n", "x: Y;", "\t", "\r", "\u{2028}", "export "];
    let n = rng.below(5);
    let mut s = String::new();
    for _ in 0..n {
        s.push_str(pieces[rng.below(pieces.len())]);
    }
    s
}
fn rand_name(rng: &mut Rng, wide: bool) -> String {
    let n = if wide { 40 } else { 6 };
    let pool = ["Query", "User", "id", "name", "type", "é", "😀n", "", "a b"];
    let k = rng.below(n);
    if k < pool.len() {
        pool[k].to_string()
    } else {
        format!("n{k}")
    }
}
fn rand_pos(rng: &mut Rng, big: bool) -> u64 {
    if big {
        match rng.below(8) {
            0 => ISIZE_MAX,
            1 => ISIZE_MAX - rng.below(40) as u64,
            2 => 1u64 << (rng.below(62) + 1),
            3 => (1u64 << (rng.below(62) + 1)) - 1,
            4 => (1u64 << 22) - rng.below(3) as u64 + 1,
            _ => rng.next_u64() >> (rng.below(60) + 1),
        }
    } else {
        match rng.below(6) {
            0 => 0,
            1 => rng.below(16) as u64,
            2 => rng.below(1 << 22) as u64,
            _ => rng.below(300) as u64,
        }
    }
}

/// `wild` adds: file mappers with usize::MAX / too short (index panic), files out of range of the mapper
fn rand_ops(rng: &mut Rng, wild: bool) -> Vec<Op> {
    let maxn = if rng.chance(1, 10) { 60 } else { 14 };
    let n = 1 + rng.below(maxn);
    let big = rng.chance(1, 4);
    let wide_names = rng.chance(1, 5);
    let nfiles = 1 + rng.below(4) as u64;
    let mut ops = vec![];
    if rng.chance(1, 3) {
        let m: Vec<u64> = (0..nfiles).map(|i| if wild && rng.chance(1, 4) { USIZE_MAX } else if rng.coin() { i } else { rng.below(5) as u64 }).collect();
        ops.push(Op::Map(m));
    }
    for _ in 0..n {
        if rng.chance(1, 6) {
            // non-ASCII (BMP / astral) text, then a named node on the SAME generated line
            let pre = *rng.pick(&["こんにちは 👋", "é", "日本語: ", "😀", "{\"value\":\"こんにちは 👋\"} as ", "𝒳𝒴 = ", "ß€ "]);
            let nm = rand_name(rng, wide_names);
            ops.push(Op::W(pre.to_string()));
            ops.push(Op::Wf { chunk: if nm.is_empty() || rng.chance(1, 4) { "Ident".to_string() } else { nm.clone() }, line: rand_pos(rng, big), col: rand_pos(rng, big), file: rng.below(nfiles as usize) as u64, builtin: false, name: Some(nm) });
            continue;
        }
        let op = match rng.below(12) {
            0 | 1 => Op::In,
            2 => Op::De,
            3 | 4 | 5 => Op::W(rand_chunk(rng)),
            _ => {
                let named = rng.chance(2, 3);
                Op::Wf {
                    chunk: rand_chunk(rng),
                    line: rand_pos(rng, big),
                    col: rand_pos(rng, big),
                    file: if wild && rng.chance(1, 12) { nfiles + rng.below(3) as u64 } else { rng.below(nfiles as usize) as u64 },
                    builtin: rng.chance(1, 10),
                    name: if named { Some(rand_name(rng, wide_names)) } else { None },
                }
            }
        };
        ops.push(op);
    }
    ops
}

// ------------------------------------------------------------------------------------------ context

struct Ctx<'a> {
    rep: &'a mut Report,
    drv: &'a mut Driver,
}

fn class_of(n: i128) -> &'static str {
    let a = n.unsigned_abs();
    if a < 16 {
        "1-digit"
    } else if a < 512 {
        "2-digit"
    } else if a < (1 << 14) {
        "3-digit"
    } else if a < (1 << 24) {
        "4-5-digit"
    } else if a < (1 << 62) {
        "6-13-digit"
    } else {
        "near-isize-limits"
    }
}

impl<'a> Ctx<'a> {
    // ------------------------------------------------------------------------------------- vlq
    fn vlq(&mut self, ns: &[i64]) {
        let real: Vec<String> = ns.iter().map(|n| base64_vlq::base64_vlq(*n as isize)).collect();
        let mut reqs = Vec::with_capacity(ns.len() * 2);
        for (n, r) in ns.iter().zip(real.iter()) {
            reqs.push(Sexp::call("vlq.enc", vec![Sexp::int(*n as i128)]));
            reqs.push(Sexp::call("vlq.dec", vec![Sexp::str(r.as_str())]));
        }
        let ans = self.drv.batch(&reqs);
        for (i, n) in ns.iter().enumerate() {
            self.rep.k_cases += 1;
            self.rep.o_cases += 1;
            self.rep.evaluations += 1;
            let model = ans[2 * i].args().first().and_then(|x| x.as_str()).unwrap_or("<none>");
            if model != real[i] {
                self.rep.fail("K", &format!("vlq:{}", class_of(*n as i128)), &format!("base64_vlq({n}): code {:?} model {:?}", real[i], model), json!({"kind": "vlq", "n": n.to_string()}));
            }
            let dec = &ans[2 * i + 1];
            let ok = dec.head() == Some("ok") && dec.args().first().and_then(|x| x.as_int()) == Some(*n as i128) && dec.args().get(1).and_then(|x| x.as_str()) == Some("");
            if !ok {
                self.rep.fail("O", &format!("vlq-roundtrip:{}", class_of(*n as i128)), &format!("spec decoder on base64_vlq({n}) = {:?} gives {}", real[i], dec), json!({"kind": "vlq", "n": n.to_string()}));
            }
        }
    }

    // --------------------------------------------------------------------------------- entries
    fn entries(&mut self, cases: &[Vec<[u64; 6]>]) {
        // entry = [gl, gc, ol, oc, src, name+1 (0 = none)]
        let mut reqs = vec![];
        let mut reals = vec![];
        for es in cases {
            let es2 = es.clone();
            let real = catch(AssertUnwindSafe(move || {
                let mut w = mapping_writer::MappingWriter::new();
                for e in &es2 {
                    w.add_entry(e[0] as usize, e[1] as usize, e[2] as usize, e[3] as usize, e[4] as usize, if e[5] == 0 { None } else { Some((e[5] - 1) as usize) });
                }
                w.into_buffer()
            }));
            reals.push(match real {
                Ok(s) => Sexp::call("ok", vec![Sexp::str(s)]),
                Err(_) => Sexp::call("panic", vec![]),
            });
            reqs.push(Sexp::call("map.run", es.iter().map(|e| Sexp::call("e", vec![
                Sexp::int(e[0] as i128), Sexp::int(e[1] as i128), Sexp::int(e[2] as i128), Sexp::int(e[3] as i128), Sexp::int(e[4] as i128),
                if e[5] == 0 { Sexp::atom("none") } else { Sexp::int((e[5] - 1) as i128) },
            ])).collect()));
        }
        let ans = self.drv.batch(&reqs);
        // O: the real output decodes (spec decoder) to the entries, grouped by line
        let mut reqs2 = vec![];
        for r in &reals {
            reqs2.push(Sexp::call("sm.decode", vec![Sexp::str(r.args().first().and_then(|x| x.as_str()).unwrap_or(""))]));
        }
        let dec = self.drv.batch(&reqs2);
        for (i, es) in cases.iter().enumerate() {
            self.rep.k_cases += 1;
            self.rep.evaluations += 1;
            let case = json!({"kind": "entries", "entries": es});
            if reals[i] != ans[i] {
                self.rep.fail("K", "entries", &format!("MappingWriter on {es:?}: code {} model {}", reals[i], ans[i]), case.clone());
                // no `continue`: O judges the REAL output on its own, whatever the model says
            }
            if reals[i].head() == Some("panic") {
                self.rep.count("entries:panic(debug-build overflow or decreasing line)");
                continue;
            }
            self.rep.o_cases += 1;
            let in_range = es.iter().all(|e| e[1..5].iter().all(|x| *x <= ISIZE_MAX));
            match parse_decoded(&dec[i]) {
                None => self.rep.fail("O", "entries-undecodable", &format!("mappings of {es:?} do not decode: {}", dec[i]), case.clone()),
                Some(segs) => {
                    let ok = segs.len() == es.len()
                        && segs.iter().zip(es.iter()).all(|(s, e)| {
                            s.line as u64 == e[0]
                                && (!in_range
                                    || (s.col == e[1] as i128
                                        && s.orig == Some((e[4] as i128, e[2] as i128, e[3] as i128))
                                        && s.name == if e[5] == 0 { None } else { Some((e[5] - 1) as i128) }))
                        });
                    if !ok {
                        self.rep.fail("O", "entries-roundtrip", &format!("mappings of {es:?} decode to {:?}", segs), case.clone());
                    }
                    if es.len() > 1 {
                        self.rep.nontrivial(&format!("{es:?}"));
                    }
                }
            }
        }
    }

    // ------------------------------------------------------------------------------------- ops
    /// `o_domain`: the sequence is one a correct caller could issue (files inside the mapper, mapper values real indices)
    fn ops(&mut self, cases: &[(Vec<Op>, bool)]) {
        let reals: Vec<Result<RealOut, String>> = cases.iter().map(|(ops, _)| real_ops(ops)).collect();
        let reqs: Vec<Sexp> = cases.iter().map(|(ops, _)| Sexp::call("writer.run", ops.iter().map(op_to_sexp).collect())).collect();
        let ans = self.drv.batch(&reqs);
        let mut reqs2 = vec![];
        for (i, (ops, _)) in cases.iter().enumerate() {
            let (b, m, nn) = match &reals[i] {
                Ok(o) => (o.buffer.as_str(), o.mappings.as_str(), o.names.len()),
                Err(_) => ("", "", 0),
            };
            let nsrc = n_sources(ops);
            reqs2.push(Sexp::call("sm.check", vec![Sexp::str(b), Sexp::str(m), Sexp::int(nsrc as i128), Sexp::int(nn as i128)]));
            reqs2.push(Sexp::call("sm.decode", vec![Sexp::str(m)]));
            reqs2.push(Sexp::call("sm.strict", vec![Sexp::str(m)]));
        }
        let ans2 = self.drv.batch(&reqs2);
        for (i, (ops, o_domain)) in cases.iter().enumerate() {
            self.rep.k_cases += 1;
            self.rep.evaluations += 1;
            let case = json!({"kind": "ops", "o_domain": o_domain, "ops": ops.iter().map(op_to_json).collect::<Vec<_>>()});
            let real_s = real_to_sexp(&reals[i]);
            let model_s = match ans[i].head() {
                Some("ok") => Sexp::call("ok", ans[i].args()[..3.min(ans[i].args().len())].to_vec()),
                _ => ans[i].clone(),
            };
            self.features(ops);
            if real_s != model_s {
                let part = if real_s.head() != model_s.head() {
                    "panic"
                } else if real_s.args().first() != model_s.args().first() {
                    "buffer"
                } else if real_s.args().get(1) != model_s.args().get(1) {
                    "mappings"
                } else {
                    "names"
                };
                self.rep.fail("K", &format!("writer:{part}"), &format!("SourceWriter ops {}: code {} model {}", reqs[i], real_s, model_s), case.clone());
                // no `continue`: O judges the REAL output on its own, whatever the model says
            }
            let Ok(out) = &reals[i] else {
                self.rep.count("ops:panic(index out of the file mapper / debug overflow)");
                continue;
            };
            if !*o_domain {
                self.rep.count("ops:outside-O-domain(caller error: bad mapper)");
                continue;
            }
            self.rep.o_cases += 1;
            self.check_ops_property(ops, out, &ans2[3 * i], &ans2[3 * i + 1], &ans2[3 * i + 2], &case);
        }
    }

    fn features(&mut self, ops: &[Op]) {
        let mut named = false;
        let mut unnamed = false;
        let mut astral = false;
        let mut nl = false;
        let mut big = false;
        let mut mapper = false;
        for op in ops {
            match op {
                Op::Wf { chunk, name, line, col, .. } => {
                    if name.is_some() { named = true } else { unnamed = true }
                    astral |= chunk.chars().any(|c| c as u32 > 0xFFFF);
                    nl |= chunk.contains('\n');
                    big |= *line > (1 << 32) || *col > (1 << 32);
                }
                Op::W(c) => {
                    astral |= c.chars().any(|c| c as u32 > 0xFFFF);
                    nl |= c.contains('\n');
                }
                Op::Map(_) => mapper = true,
                _ => {}
            }
        }
        for (f, k) in [(named, "feature:named-node"), (unnamed, "feature:unnamed-node"), (astral, "feature:astral-char"), (nl, "feature:newline-in-chunk"), (big, "feature:position>2^32"), (mapper, "feature:file-mapper")] {
            if f {
                self.rep.count(k);
            }
        }
    }

    fn check_ops_property(&mut self, ops: &[Op], out: &RealOut, check: &Sexp, decoded: &Sexp, strict: &Sexp, case: &Value) {
        if check.head() != Some("ok") {
            let kind = check.args().first().and_then(|p| p.head()).unwrap_or("?").to_string();
            self.rep.fail("O", &format!("writer:sm.check:{kind}"), &format!("real SourceWriter output fails the spec check: {check}; mappings {:?}", out.mappings), case.clone());
            return;
        }
        if strict.args().first().and_then(|x| x.as_atom()) == Some("false") {
            // a first entry on generated line 0 is preceded by ',' (an empty segment). ECMA-426's decoding
            // algorithm skips it; see `mappings_strict_iff` in Props/C06.lean. Counted, not a violation.
            self.rep.count("note:mappings-begin-with-empty-segment");
        }
        let Some(segs) = parse_decoded(decoded) else {
            self.rep.fail("O", "writer:undecodable", &format!("mappings {:?} do not decode", out.mappings), case.clone());
            return;
        };
        // expected number of segments and their contents, op by op
        let lines: Vec<&str> = out.buffer.split('\n').collect();
        let mut mapper: Option<Vec<u64>> = None;
        let mut k = 0usize;
        let mut nontrivial = false;
        for op in ops {
            match op {
                Op::Map(m) => mapper = Some(m.clone()),
                Op::Wf { chunk, line, col, file, builtin: false, name } => {
                    let f = mapper.as_ref().map_or(*file, |m| m[*file as usize]) as i128;
                    let need = if name.is_some() { 2 } else { 1 };
                    if k + need > segs.len() {
                        self.rep.fail("O", "writer:missing-segment", &format!("fewer segments than mapped nodes: {} decoded", segs.len()), case.clone());
                        return;
                    }
                    let s1 = &segs[k];
                    if s1.orig != Some((f, *line as i128, *col as i128)) {
                        self.rep.fail("O", "writer:original-position", &format!("segment {k} has original {:?}, node is at file {f} {line}:{col}", s1.orig), case.clone());
                        return;
                    }
                    if let Some(nm) = name {
                        let s2 = &segs[k + 1];
                        let idx = s1.name.unwrap_or(-1);
                        if idx < 0 || out.names.get(idx as usize) != Some(nm) {
                            self.rep.fail("O", "writer:name", &format!("segment {k}: names[{idx}] = {:?}, node name {nm:?}", out.names.get(idx.max(0) as usize)), case.clone());
                            return;
                        }
                        if s2.name.is_some() || s2.orig != Some((f, *line as i128, (*col + utf16_len(nm)) as i128)) {
                            self.rep.fail("O", "writer:range-end", &format!("closing segment {} is {:?}, expected original column {col}+utf16({nm:?})", k + 1, s2), case.clone());
                            return;
                        }
                        if !chunk.contains('\n') {
                            let got = if s1.line == s2.line { lines.get(s1.line).and_then(|l| utf16_slice(l, s1.col, s2.col)) } else { None };
                            if got.as_deref() != Some(chunk.as_str()) {
                                self.rep.fail("O", "writer:named-segment-text", &format!("generated text between segments {k} and {} is {got:?}, chunk is {chunk:?}", k + 1), case.clone());
                                return;
                            }
                            if !chunk.is_empty() {
                                nontrivial = true;
                            }
                        }
                    } else {
                        if s1.name.is_some() {
                            self.rep.fail("O", "writer:unexpected-name", &format!("segment {k} of an unnamed node carries a name"), case.clone());
                            return;
                        }
                        // the segment of an unnamed node is recorded before a pending indentation is flushed (DESIGN §9-ao)
                        let first = chunk.split('\n').next().unwrap_or("");
                        if !first.is_empty() {
                            let l = lines.get(s1.line).copied().unwrap_or("");
                            let at = utf16_slice(l, s1.col, s1.col + utf16_len(first) as i128);
                            if at.as_deref() != Some(first) {
                                let lead = l.len() - l.trim_start_matches(' ').len();
                                if s1.col == 0 && (0..=lead).any(|k| l[k..].starts_with(first)) {
                                    self.rep.count("note:unnamed-segment-at-column-0-before-indentation(§9-ao)");
                                } else {
                                    self.rep.fail("O", "writer:unnamed-segment-text", &format!("segment {k} at {}:{} does not point at chunk {first:?} (line {l:?})", s1.line, s1.col), case.clone());
                                    return;
                                }
                            }
                        }
                    }
                    k += need;
                }
                _ => {}
            }
        }
        if k != segs.len() {
            self.rep.fail("O", "writer:extra-segment", &format!("{} segments decoded, {k} expected", segs.len()), case.clone());
            return;
        }
        if nontrivial {
            self.rep.nontrivial(&case.to_string());
        }
    }
}

fn n_sources(ops: &[Op]) -> u64 {
    let mut mapper: Option<Vec<u64>> = None;
    let mut mx = 0u64;
    for op in ops {
        match op {
            Op::Map(m) => mapper = Some(m.clone()),
            Op::Wf { file, builtin: false, .. } => {
                let f = mapper.as_ref().map_or(Some(*file), |m| m.get(*file as usize).copied());
                if let Some(f) = f {
                    if f != USIZE_MAX {
                        mx = mx.max(f + 1);
                    }
                }
            }
            _ => {}
        }
    }
    mx
}

// ------------------------------------------------------------------------------------- end to end

#[derive(Clone, Debug)]
struct Project {
    /// relative path → content
    files: BTreeMap<String, String>,
    /// does some operation file import a fragment from another file?
    has_import: bool,
    /// the GraphQL inputs by kind (relative paths, keys of `files`); any directory layout
    schema_files: Vec<String>,
    op_files: Vec<String>,
}

impl Project {
    /// the fixed layout `schema/*.graphql` + `ops/**/*.graphql` (corpus projects, replay files written before layouts varied)
    fn classic(files: BTreeMap<String, String>, has_import: bool) -> Project {
        let schema_files = files.keys().filter(|k| k.starts_with("schema/") && k.ends_with(".graphql")).cloned().collect();
        let op_files = files.keys().filter(|k| k.starts_with("ops/") && k.ends_with(".graphql")).cloned().collect();
        Project { files, has_import, schema_files, op_files }
    }
}

fn project_to_json(p: &Project) -> Value {
    json!({"kind": "project", "has_import": p.has_import, "files": p.files, "schema_files": p.schema_files, "op_files": p.op_files})
}
fn project_from_json(v: &Value) -> Project {
    let files: BTreeMap<String, String> = v["files"].as_object().unwrap().iter().map(|(k, v)| (k.clone(), v.as_str().unwrap().to_string())).collect();
    let has_import = v["has_import"].as_bool().unwrap_or(false);
    let list = |k: &str| -> Option<Vec<String>> { v[k].as_array().map(|a| a.iter().filter_map(|x| x.as_str().map(|s| s.to_string())).collect()) };
    match (list("schema_files"), list("op_files")) {
        (Some(schema_files), Some(op_files)) => Project { files, has_import, schema_files, op_files },
        _ => Project::classic(files, has_import),
    }
}

/// order of `globmatch::match_paths` (= file store order within a kind): `PathBuf` ordering, component by component
fn path_sorted(mut v: Vec<String>) -> Vec<String> {
    v.sort_by(|a, b| Path::new(a).cmp(Path::new(b)));
    v
}

fn config_yaml(mode: &str, schema_output: &str, resolvers: Option<&str>) -> String {
    config_yaml_plugins(mode, schema_output, resolvers, &[], false)
}

/// `plugins`: names for `extensions.nitrogql.plugins` (built-in plugins run natively inside the CLI);
/// `flow`: YAML flow sequence `[a, b]` instead of a block sequence
fn config_yaml_plugins(mode: &str, schema_output: &str, resolvers: Option<&str>, plugins: &[&str], flow: bool) -> String {
    let mut s = String::new();
    s.push_str("schema: ./schema/*.graphql\ndocuments: ./ops/**/*.graphql\nextensions:\n  nitrogql:\n");
    if !plugins.is_empty() {
        if flow {
            s.push_str(&format!("    plugins: [{}]\n", plugins.iter().map(|p| format!("\"{p}\"")).collect::<Vec<_>>().join(", ")));
        } else {
            s.push_str("    plugins:\n");
            for p in plugins {
                s.push_str(&format!("      - \"{p}\"\n"));
            }
        }
    }
    s.push_str("    generate:\n");
    s.push_str(&format!("      mode: {mode}\n      schemaOutput: {schema_output}\n"));
    if let Some(r) = resolvers {
        s.push_str(&format!("      resolversOutput: {r}\n"));
    }
    s
}

/// the smallest project with an imported fragment (DESIGN §9-s)
fn corpus_project() -> Project {
    let mut files = BTreeMap::new();
    files.insert("graphql.config.yaml".into(), config_yaml("with-loader-ts-5.0", "./gen/schema.d.ts", None));
    files.insert("schema/main.graphql".into(), "type Query {\n  me: User!\n}\ntype User {\n  name: String\n}\n".into());
    files.insert("ops/q.graphql".into(), "#import F from \"./f.graphql\"\nquery Q {\n  me { ...F }\n}\n".into());
    files.insert("ops/f.graphql".into(), "fragment F on User {\n  name\n}\n".into());
    Project::classic(files, true)
}

/// the smallest project where an astral character precedes a mapped token on its line (DESIGN §9-an)
fn corpus_project_astral() -> Project {
    let mut files = BTreeMap::new();
    files.insert("graphql.config.yaml".into(), config_yaml("with-loader-ts-5.0", "./schema.d.ts", None));
    files.insert("schema/main.graphql".into(), "type Query {\n  \"😀\" n: Int\n}\n".into());
    files.insert("ops/q.graphql".into(), "query Q {\n  n\n}\n".into());
    Project::classic(files, false)
}

/// standalone mode prints the runtime document JSON inline; the mapped `TypedDocumentNode<Frag, never>`
/// follows a non-ASCII string literal on the same generated line
fn corpus_project_standalone() -> Project {
    let mut files = BTreeMap::new();
    files.insert("graphql.config.yaml".into(), config_yaml("standalone-ts-4.0", "./schema.d.ts", None));
    files.insert("schema/main.graphql".into(), "type Query {\n  me: User!\n}\ntype User {\n  greet(text: String!): String!\n}\n".into());
    files.insert("ops/q.graphql".into(), "query Q {\n  me { ...F }\n}\nfragment F on User {\n  greet(text: \"こんにちは 👋\")\n}\n".into());
    Project::classic(files, false)
}

/// the smallest project where a plugin contributes a schema addition (a virtual schema file in the file store
/// that exists on no disk) next to two schema files, an operation file and an imported fragment
fn corpus_project_plugin() -> Project {
    let mut files = BTreeMap::new();
    files.insert("graphql.config.yaml".into(), config_yaml_plugins("with-loader-ts-5.0", "./gen/schema.d.ts", Some("./gen/resolvers.d.ts"), &[MODEL_PLUGIN], false));
    files.insert("schema/a.graphql".into(), "type Query {\n  me: User!\n}\n".into());
    files.insert("schema/b.graphql".into(), "type User @model(type: \"string\") {\n  name: String\n}\n".into());
    files.insert("ops/q.graphql".into(), "#import F from \"./f.graphql\"\nquery Q {\n  me { ...F }\n}\n".into());
    files.insert("ops/f.graphql".into(), "fragment F on User {\n  name\n}\n".into());
    Project::classic(files, true)
}

/// the smallest project with mirrored trees: outputs under `generated/…` repeat the component names of the inputs under
/// `src/…` at the same depth, and a fragment is imported across two mirrored operation trees
fn corpus_project_mirrored() -> Project {
    let mut files = BTreeMap::new();
    files.insert("graphql.config.yaml".into(), "schema: ./src/graphql/*.graphql\ndocuments:\n  - ./src/app/**/*.graphql\n  - ./lib/app/**/*.graphql\nextensions:\n  nitrogql:\n    generate:\n      mode: with-loader-ts-5.0\n      schemaOutput: ./generated/graphql/schema.d.ts\n      resolversOutput: ./generated/app/graphql/resolvers.d.ts\n".to_string());
    files.insert("src/graphql/schema.graphql".into(), "type Query {\n  me: User!\n}\ntype User {\n  name: String\n}\n".into());
    files.insert("src/app/q.graphql".into(), "#import F from \"../../lib/app/f.graphql\"\nquery Q {\n  me { ...F }\n}\n".into());
    files.insert("lib/app/f.graphql".into(), "fragment F on User {\n  name\n}\n".into());
    Project { files, has_import: true, schema_files: vec!["src/graphql/schema.graphql".into()], op_files: vec!["src/app/q.graphql".into(), "lib/app/f.graphql".into()] }
}

/// anonymous operations in every form, each alone in its document or next to fragments (own and imported)
fn corpus_project_anonymous(mode: &str) -> Project {
    let mut files = BTreeMap::new();
    files.insert("graphql.config.yaml".into(), config_yaml(mode, "./gen/schema.d.ts", None));
    files.insert("schema/main.graphql".into(), "directive @opdir(label: String) on QUERY | MUTATION | SUBSCRIPTION\ntype Query {\n  me: User!\n  n: Int\n}\ntype Mutation {\n  setN(text: String!): Int\n}\ntype Subscription {\n  tick: Int\n}\ntype User {\n  name: String\n}\n".into());
    files.insert("ops/a.graphql".into(), "#import F from \"./f.graphql\"\n# shorthand\n{\n  me { ...F ...L }\n  n\n}\nfragment L on User { name }\n".into());
    files.insert("ops/b.graphql".into(), "query {\n  n\n}\n".into());
    files.insert("ops/c.graphql".into(), "mutation ($t: String! = \"é\") @opdir(label: \"x\") {\n  setN(text: $t)\n}\n".into());
    files.insert("ops/d.graphql".into(), "subscription{\n  tick\n}\n".into());
    files.insert("ops/e.graphql".into(), "mutation M {\n  setN(text: \"a\")\n}\n".into());
    files.insert("ops/f.graphql".into(), "fragment F on User {\n  name\n}\n".into());
    Project::classic(files, true)
}

// ---- directory layouts of inputs and outputs
//
// A small pool of component names, so that equal names at equal depth under different roots (mirrored trees), names
// differing only by case, dotted and dot-prefixed names all occur by construction and by chance.
const DIR_NAMES: [&str; 16] = ["src", "graphql", "generated", "app", "Graphql", "GRAPHQL", "__generated__", "packages", "web", "api", "schema", "ops", "gql.types", "x-y", "lib", "a"];
const DOT_NAMES: [&str; 2] = [".gen", ".cache"];

fn rand_comp(rng: &mut Rng, allow_dot: bool) -> String {
    if allow_dot && rng.chance(1, 8) {
        rng.pick(&DOT_NAMES).to_string()
    } else {
        rng.pick(&DIR_NAMES).to_string()
    }
}
fn rand_dir(rng: &mut Rng, min_depth: usize, max_depth: usize, allow_dot: bool) -> Vec<String> {
    let d = min_depth + rng.below(max_depth - min_depth + 1);
    (0..d).map(|_| rand_comp(rng, allow_dot)).collect()
}
fn flip_case(s: &str) -> String {
    if s.chars().any(|c| c.is_ascii_lowercase()) {
        if s.chars().next().map_or(false, |c| c.is_ascii_lowercase()) && s.len() % 2 == 0 {
            let mut c = s.chars();
            let f = c.next().unwrap().to_ascii_uppercase();
            format!("{f}{}", c.as_str())
        } else {
            s.to_ascii_uppercase()
        }
    } else {
        s.to_ascii_lowercase()
    }
}
/// a directory related to `base`: the same, above, below, mirrored (one or two components replaced, the rest — also
/// the components AFTER the replaced one — kept), differing by case only, shifted one level down, or unrelated
fn derive_dir(rng: &mut Rng, base: &[String], allow_dot: bool) -> (Vec<String>, &'static str) {
    let mut d: Vec<String> = base.to_vec();
    let how = match rng.below(10) {
        0 => "same",
        1 => {
            d.truncate(rng.below(d.len() + 1));
            "above"
        }
        2 => {
            for _ in 0..1 + rng.below(2) {
                d.push(rand_comp(rng, allow_dot));
            }
            "below"
        }
        3 | 4 | 5 if !d.is_empty() => {
            let i = rng.below(d.len());
            let mut c = rand_comp(rng, allow_dot);
            if c == d[i] {
                c.push('2');
            }
            d[i] = c;
            if d.len() > 1 && rng.chance(1, 3) {
                let k = rng.below(d.len());
                d[k] = format!("{}_", d[k]);
            }
            if rng.chance(1, 4) {
                d.push(rand_comp(rng, allow_dot));
            }
            if d.len() == 1 || i == d.len() - 1 {
                // nothing kept after the replaced component: make it a real mirror by keeping a common tail
                let tail = rand_comp(rng, false);
                d.push(tail);
                "mirrored+tail"
            } else {
                "mirrored"
            }
        }
        6 if !d.is_empty() => {
            let i = rng.below(d.len());
            d[i] = flip_case(&d[i]);
            "case-only"
        }
        7 => {
            d.insert(0, rand_comp(rng, allow_dot));
            "shifted-down"
        }
        8 if d.len() > 1 => {
            d.remove(0);
            "shifted-up"
        }
        _ => {
            d = rand_dir(rng, 0, 4, allow_dot);
            "unrelated"
        }
    };
    d.truncate(6);
    (d, how)
}
fn join_dir(d: &[String], file: &str) -> String {
    if d.is_empty() { file.to_string() } else { format!("{}/{file}", d.join("/")) }
}
fn is_prefix(a: &[String], b: &[String]) -> bool {
    a.len() <= b.len() && a.iter().zip(b.iter()).all(|(x, y)| x == y)
}
/// how a path is written in the config: `./p`, `p`, or with a `x/..` detour that normalises away
fn cfg_style(rng: &mut Rng, p: &str, detour: bool) -> String {
    let mut q = p.to_string();
    if detour && rng.chance(1, 8) {
        let comps: Vec<&str> = p.split('/').collect();
        let at = rng.below(comps.len());
        let mut v: Vec<&str> = comps[..at].to_vec();
        v.push("zz");
        v.push("..");
        v.extend(&comps[at..]);
        q = v.join("/");
    }
    if rng.chance(2, 3) { format!("./{q}") } else { q }
}

struct Layout {
    schema_dirs: Vec<Vec<String>>,
    op_dirs: Vec<Vec<String>>,
    schema_out: String,
    resolvers_out: Option<String>,
    server_out: Option<String>,
    tags: Vec<String>,
}

fn gen_layout(rng: &mut Rng) -> Layout {
    // inputs: globs do not descend into dot-prefixed directories, so inputs avoid them; outputs may use them
    let mut tags = vec![];
    let s0 = rand_dir(rng, 0, 4, false);
    let mut schema_dirs = vec![s0.clone()];
    if rng.chance(1, 3) {
        let (d, how) = derive_dir(rng, &s0, false);
        if !schema_dirs.contains(&d) {
            tags.push(format!("schema-dir-2:{how}"));
            schema_dirs.push(d);
        }
    }
    // operation directories (recursive globs): depth >= 1 and never an ancestor of (or equal to) a schema directory
    let nod = 1 + rng.below(3);
    let mut op_dirs: Vec<Vec<String>> = vec![];
    let mut guard = 0;
    while op_dirs.len() < nod && guard < 40 {
        guard += 1;
        let base = if op_dirs.is_empty() || rng.coin() { rng.pick(&schema_dirs).clone() } else { rng.pick(&op_dirs).clone() };
        let (d, how) = derive_dir(rng, &base, false);
        if d.is_empty() || schema_dirs.iter().any(|sd| is_prefix(&d, sd)) || op_dirs.contains(&d) {
            continue;
        }
        tags.push(format!("op-dir:{how}"));
        op_dirs.push(d);
    }
    if op_dirs.is_empty() {
        let mut d = s0.clone();
        d.push("operations".to_string());
        op_dirs.push(d);
    }
    let mut out = |rng: &mut Rng, names: &[&str], what: &str, tags: &mut Vec<String>| -> String {
        let base = if rng.coin() { rng.pick(&schema_dirs).clone() } else { rng.pick(&op_dirs).clone() };
        let (d, how) = derive_dir(rng, &base, true);
        tags.push(format!("{what}:{how}:depth-{}", d.len()));
        join_dir(&d, *rng.pick(names))
    };
    let schema_out = out(rng, &["schema.d.ts", "types.d.ts", "index.d.ts"], "schema-output", &mut tags);
    let resolvers_out = if rng.coin() { Some(out(rng, &["resolvers.d.ts", "r.d.ts"], "resolvers-output", &mut tags)) } else { None };
    let server_out = if rng.chance(1, 3) { Some(out(rng, &["server-schema.ts", "sdl.ts"], "server-graphql-output", &mut tags)) } else { None };
    Layout { schema_dirs, op_dirs, schema_out, resolvers_out, server_out, tags }
}

/// the fixed layout of the first version of this generator
fn classic_layout(rng: &mut Rng) -> Layout {
    let so = *rng.pick(&["gen/schema.d.ts", "schema.d.ts", "a/b/types.d.ts", "ops/schema.d.ts"]);
    let ro = if rng.coin() { Some(rng.pick(&["gen/resolvers.d.ts", "r.d.ts"]).to_string()) } else { None };
    Layout { schema_dirs: vec![vec!["schema".to_string()]], op_dirs: vec![vec!["ops".to_string()]], schema_out: so.to_string(), resolvers_out: ro, server_out: None, tags: vec!["classic".to_string()] }
}

fn layout_yaml(rng: &mut Rng, l: &Layout, schema_files: &[String], mode: &str, plugins: &[&str]) -> String {
    let mut s = String::new();
    // schema: one glob per directory, or the explicit list of files (always for the project root, where a glob would
    // also pick up nothing else but is indistinguishable from the documents)
    let explicit = l.schema_dirs.iter().any(|d| d.is_empty()) || rng.chance(1, 4);
    let schema_entries: Vec<String> = if explicit {
        schema_files.iter().map(|f| cfg_style(rng, f, false)).collect()
    } else {
        l.schema_dirs.iter().map(|d| cfg_style(rng, &join_dir(d, "*.graphql"), false)).collect()
    };
    let doc_entries: Vec<String> = l.op_dirs.iter().map(|d| cfg_style(rng, &join_dir(d, "**/*.graphql"), false)).collect();
    for (key, es) in [("schema", &schema_entries), ("documents", &doc_entries)] {
        if es.len() == 1 && rng.coin() {
            s.push_str(&format!("{key}: \"{}\"\n", es[0]));
        } else {
            s.push_str(&format!("{key}:\n"));
            for e in es {
                s.push_str(&format!("  - \"{e}\"\n"));
            }
        }
    }
    s.push_str("extensions:\n  nitrogql:\n");
    if !plugins.is_empty() {
        if rng.coin() {
            s.push_str(&format!("    plugins: [{}]\n", plugins.iter().map(|p| format!("\"{p}\"")).collect::<Vec<_>>().join(", ")));
        } else {
            s.push_str("    plugins:\n");
            for p in plugins {
                s.push_str(&format!("      - \"{p}\"\n"));
            }
        }
    }
    s.push_str("    generate:\n");
    s.push_str(&format!("      mode: {mode}\n      schemaOutput: {}\n", cfg_style(rng, &l.schema_out, true)));
    if let Some(r) = &l.resolvers_out {
        s.push_str(&format!("      resolversOutput: {}\n", cfg_style(rng, r, true)));
    }
    if let Some(r) = &l.server_out {
        s.push_str(&format!("      serverGraphqlOutput: {}\n", cfg_style(rng, r, true)));
    }
    s
}

const MODEL_PLUGIN: &str = "nitrogql:model-plugin";
const SCALARS_PLUGIN: &str = "nitrogql:graphql-scalars-plugin";

fn gen_project(rng: &mut Rng) -> Project {
    let mut files = BTreeMap::new();
    let mode = *rng.pick(&["with-loader-ts-5.0", "with-loader-ts-4.0", "standalone-ts-4.0", "standalone-ts-4.0"]);
    let layout = if rng.chance(1, 5) { classic_layout(rng) } else { gen_layout(rng) };
    // built-in plugins (they run inside the CLI, no host needed). The model plugin contributes a schema addition
    // (`directive @model`), which the CLI registers as a virtual schema file; the scalars plugin contributes one
    // only for a schema loaded from JavaScript, i.e. never here.
    let plugin_sets: [&[&str]; 7] = [&[], &[], &[], &[MODEL_PLUGIN], &[MODEL_PLUGIN], &[SCALARS_PLUGIN], &[SCALARS_PLUGIN, MODEL_PLUGIN]];
    let plugins: &[&str] = *rng.pick(&plugin_sets);
    let model = plugins.contains(&MODEL_PLUGIN);
    // ---- schema: object types T0..Tk-1 with scalar fields and links
    let k = 1 + rng.below(4);
    let scalars = ["Int", "String", "ID", "Boolean", "Float"];
    let mut type_fields: Vec<Vec<(String, String, Option<usize>)>> = vec![]; // (name, type text, link target)
    for i in 0..k {
        let mut fs = vec![];
        let ns = 1 + rng.below(3);
        for j in 0..ns {
            let t = format!("{}{}", rng.pick(&scalars), if rng.coin() { "!" } else { "" });
            fs.push((format!("s{i}_{j}"), t, None));
        }
        if rng.chance(2, 3) {
            fs.push((format!("g{i}(text: String!)"), "String".to_string(), None));
        }
        if rng.coin() {
            let tgt = rng.below(k);
            let t = match rng.below(3) {
                0 => format!("T{tgt}"),
                1 => format!("T{tgt}!"),
                _ => format!("[T{tgt}!]!"),
            };
            fs.push((format!("l{i}"), t, Some(tgt)));
        }
        type_fields.push(fs);
    }
    let mut query_fields: Vec<(String, String, Option<usize>)> = vec![];
    for i in 0..k {
        query_fields.push((format!("t{i}"), if rng.coin() { format!("T{i}!") } else { format!("[T{i}]") }, Some(i)));
    }
    query_fields.push(("n".into(), "Int".into(), None));
    query_fields.push(("greeting(text: String!)".into(), "String".into(), None));
    let lits = ["hello", "こんにちは", "こんにちは 👋", "é", "😀😀", "日本 \\\" q"];
    let astral = rng.chance(1, 3);
    let descr = |rng: &mut Rng, indent: &str, same_line: bool| -> String {
        match rng.below(6) {
            0 => format!("{indent}\"plain description\"\n"),
            1 => format!("{indent}\"\"\"\n{indent}block é\n{indent}\"\"\"\n"),
            2 if astral && same_line => format!("{indent}\"😀\" "), // stays on the line of the field (§9-an)
            3 => format!("{indent}# comment 😀 é\n"),
            4 => format!("{indent}\"説明 é{}\"\n", if astral { " 😀" } else { "" }),
            _ => String::new(),
        }
    };
    let print_type = |rng: &mut Rng, head: &str, fields: &[(String, String, Option<usize>)]| -> String {
        let mut s = String::new();
        if rng.chance(1, 3) {
            s.push('\n');
        }
        s.push_str(&descr(rng, "", false).replace("\"😀\" ", ""));
        s.push_str(head);
        // the plugin's directive: on the whole object (with the TypeScript type) or on single fields
        let obj_model = model && rng.chance(1, 4);
        if obj_model {
            s.push_str(&format!(" @model(type: \"{}\")", rng.pick(&["string", "{ id: string }", "Model<'日本😀'>", "import('./m').M"])));
        }
        s.push_str(" {\n");
        let ind = *rng.pick(&["  ", "    ", "\t"]);
        for (n, t, _) in fields {
            let d = descr(rng, ind, true);
            let dir = if model && !obj_model && rng.chance(1, 3) { " @model" } else { "" };
            if d.ends_with(' ') {
                s.push_str(&d);
                s.push_str(&format!("{n}: {t}{dir}\n"));
            } else {
                s.push_str(&d);
                s.push_str(&format!("{ind}{n}: {t}{dir}\n"));
            }
        }
        s.push_str("}\n");
        s
    };
    let two_files = rng.coin();
    let mut main = String::new();
    let mut second = String::new();
    if rng.chance(1, 4) {
        main.push_str("# leading comment\n\n");
    }
    main.push_str(&print_type(rng, "type Query", &query_fields));
    // further root types (same fields as Query, so every selection below is valid under each of them) and a directive
    // that is legal on operations
    let has_mut = rng.coin();
    let has_sub = rng.coin();
    let has_opdir = rng.coin();
    if has_mut {
        main.push_str(&print_type(rng, "type Mutation", &query_fields));
    }
    if has_sub {
        main.push_str(&print_type(rng, "type Subscription", &query_fields));
    }
    if has_opdir {
        main.push_str("directive @opdir(label: String) on QUERY | MUTATION | SUBSCRIPTION\n");
    }
    for (i, fs) in type_fields.iter().enumerate() {
        let t = print_type(rng, &format!("type T{i}"), fs);
        if two_files && i % 2 == 1 {
            second.push_str(&t);
        } else {
            main.push_str(&t);
        }
    }
    let mut schema_files = vec![join_dir(&layout.schema_dirs[0], "main.graphql")];
    files.insert(schema_files[0].clone(), main);
    if two_files && !second.is_empty() {
        schema_files.push(join_dir(layout.schema_dirs.last().unwrap(), "second.graphql"));
        files.insert(schema_files[1].clone(), second);
    } else if layout.schema_dirs.len() > 1 {
        // every configured schema directory holds a file
        schema_files.push(join_dir(&layout.schema_dirs[1], "extra.graphql"));
        files.insert(schema_files[1].clone(), "\"only here so that the directory is not empty\"\nenum Extra {\n  A\n}\n".to_string());
    }
    files.insert("graphql.config.yaml".to_string(), layout_yaml(rng, &layout, &schema_files, mode, plugins));
    let mut op_files: Vec<String> = vec![];
    // ---- fragments (one per file), Fj on T(target j); a fragment may spread a later fragment of a linked type
    let nfrag = rng.below(4);
    let mut frag_type = vec![];
    for _ in 0..nfrag {
        frag_type.push(rng.below(k));
    }
    // operation files are spread over the operation directories and sub-directories of them (a sub-directory may
    // carry the name of a component of another tree)
    let nod = layout.op_dirs.len();
    let place: Vec<(usize, Option<String>)> = (0..8).map(|_| (rng.below(nod), if rng.coin() { None } else { Some(rng.pick(&["frags", "sub", "graphql", "src", "Ops"]).to_string()) })).collect();
    let op_path = |slot: usize, file: String| -> String {
        let (d, sub) = &place[slot];
        let mut dir = layout.op_dirs[*d].clone();
        if let Some(s) = sub {
            dir.push(s.clone());
        }
        join_dir(&dir, &file)
    };
    let frag_path = |j: usize| -> String { op_path(j, format!("f{j}.graphql")) };
    let scalar_sel = |rng: &mut Rng, t: usize, tf: &Vec<Vec<(String, String, Option<usize>)>>| -> Vec<String> {
        let sc: Vec<&String> = tf[t].iter().filter(|f| f.2.is_none() && !f.0.contains('(')).map(|f| &f.0).collect();
        let mut v = vec![sc[rng.below(sc.len())].clone()];
        if let Some(g) = tf[t].iter().find(|f| f.0.contains('(')) {
            if rng.chance(2, 3) {
                let gname = g.0.split('(').next().unwrap();
                let alias = if rng.chance(1, 3) { "hello: " } else { "" };
                v.push(format!("{alias}{gname}(text: \"{}\")", rng.pick(&lits)));
            }
        }
        if rng.coin() {
            v.push("__typename".into());
        }
        if rng.coin() {
            v.push(format!("al: {}", sc[rng.below(sc.len())]));
        }
        v
    };
    let mut has_import = false;
    for j in 0..nfrag {
        let t = frag_type[j];
        let path = frag_path(j);
        let mut imports = vec![];
        let mut sel = scalar_sel(rng, t, &type_fields);
        // link field with a later fragment on the linked type
        if let Some((ln, _, Some(tgt))) = type_fields[t].iter().find(|f| f.2.is_some()).cloned() {
            if let Some(j2) = (j + 1..nfrag).find(|j2| frag_type[*j2] == tgt) {
                if rng.coin() {
                    imports.push((format!("F{j2}"), rel_import(&path, &frag_path(j2))));
                    sel.push(format!("{ln} {{ ...F{j2} }}"));
                }
            } else if rng.coin() {
                let sub = scalar_sel(rng, tgt, &type_fields).join(" ");
                sel.push(format!("{ln} {{ {sub} }}"));
            }
        }
        let mut s = String::new();
        for (n, p) in &imports {
            s.push_str(&format!("#import {n} from \"{p}\"\n"));
            has_import = true;
        }
        if rng.chance(1, 3) {
            s.push('\n');
        }
        s.push_str(&format!("fragment F{j} on T{t} {{\n"));
        for x in sel {
            s.push_str(&format!("  {x}\n"));
        }
        s.push_str("}\n");
        op_files.push(path.clone());
        files.insert(path, s);
    }
    // ---- queries
    let nq = 1 + rng.below(3);
    for q in 0..nq {
        let path = op_path(4 + q, format!("q{q}.graphql"));
        let mut imports: Vec<(String, String)> = vec![];
        let mut body = String::new();
        let mut local_frags = String::new();
        // the form of the operation: named query (as before), named mutation / subscription, ANONYMOUS with its keyword
        // (`query {`, `mutation {`, `subscription {`, with variables / directives), or the query SHORTHAND `{ … }`.
        // One operation per file, so an anonymous one is always the only operation of its document; fragments may follow.
        let mut others = vec![];
        if has_mut {
            others.push("mutation");
        }
        if has_sub {
            others.push("subscription");
        }
        let (optype, anonymous, shorthand): (&str, bool, bool) = match rng.below(10) {
            0 | 1 => ("query", true, true),
            2 => ("query", true, false),
            3 => (if others.is_empty() { "query" } else { *rng.pick(&others) }, true, false),
            4 if !others.is_empty() => (*rng.pick(&others), false, false),
            _ => ("query", false, false),
        };
        let nsel = if optype == "subscription" { 1 } else { 1 + rng.below(3) };
        for si in 0..nsel {
            let (qn, _, tgt) = query_fields[rng.below(query_fields.len())].clone();
            // (aliases are unique per operation: two different fields under one response key do not merge)
            let alias = if rng.chance(1, 4) { format!("a{si}: ") } else { String::new() };
            match tgt {
                None if qn.contains('(') => body.push_str(&format!("  {alias}{}(text: \"{}\")\n", qn.split('(').next().unwrap(), rng.pick(&lits))),
                None => body.push_str(&format!("  {alias}{qn}\n")),
                Some(t) => {
                    let mut sub = scalar_sel(rng, t, &type_fields);
                    if let Some(j) = (0..nfrag).find(|j| frag_type[*j] == t) {
                        if rng.chance(2, 3) {
                            if !imports.iter().any(|(n, _)| *n == format!("F{j}")) {
                                imports.push((format!("F{j}"), rel_import(&path, &frag_path(j))));
                            }
                            sub.push(format!("...F{j}"));
                        }
                    }
                    if rng.chance(1, 4) && !local_frags.contains(&format!("fragment L{t} ")) {
                        let ls = scalar_sel(rng, t, &type_fields).join(" ");
                        local_frags.push_str(&format!("fragment L{t} on T{t} {{ {ls} }}\n"));
                        sub.push(format!("...L{t}"));
                    } else if local_frags.contains(&format!("fragment L{t} ")) {
                        sub.push(format!("...L{t}"));
                    }
                    body.push_str(&format!("  {alias}{qn} {{\n"));
                    for x in sub {
                        body.push_str(&format!("    {x}\n"));
                    }
                    body.push_str("  }\n");
                }
            }
        }
        let mut s = String::new();
        for (n, p) in &imports {
            s.push_str(&format!("#import {n} from \"{p}\"\n"));
            has_import = true;
        }
        if rng.coin() {
            s.push_str("# a comment\n");
        }
        // variables whose default values are non-ASCII string literals (standalone mode prints them inline)
        let mut vars = String::new();
        if !shorthand && optype != "subscription" && rng.chance(1, 3) {
            let nv = 1 + rng.below(2);
            let mut defs = vec![];
            for v in 0..nv {
                let d = if rng.chance(3, 4) { format!(" = \"{}\"", rng.pick(&lits)) } else { String::new() };
                defs.push(format!("$v{v}: String!{d}"));
                body.push_str(&format!("  vg{v}: greeting(text: $v{v})\n"));
            }
            vars = format!("({})", defs.join(if rng.coin() { ", " } else { " " }));
        }
        let dir = if has_opdir && !shorthand && rng.chance(1, 3) { format!(" @opdir(label: \"{}\")", rng.pick(&lits)) } else { String::new() };
        let head = if shorthand {
            String::new()
        } else if anonymous {
            // `query {`, `query{`, `query ($v: …) {`, `mutation @opdir(…) {`
            let sp = if !vars.is_empty() && rng.coin() { " " } else { "" };
            let close = if vars.is_empty() && dir.is_empty() && rng.chance(1, 3) { "" } else { " " };
            format!("{optype}{sp}{vars}{dir}{close}")
        } else {
            let n = match optype { "query" => "Q", "mutation" => "M", _ => "S" };
            format!("{optype} {n}{q}{vars}{dir} ")
        };
        s.push_str(&format!("{head}{{\n{body}}}\n{local_frags}"));
        op_files.push(path.clone());
        files.insert(path, s);
    }
    files.insert("layout-tags.txt".to_string(), layout.tags.join("\n"));
    Project { files, has_import, schema_files, op_files }
}

/// the file itself and every file reachable through `#import … from "path"` lines
fn import_closure(p: &Project, start: &str) -> Vec<String> {
    let mut seen = vec![start.to_string()];
    let mut todo = vec![start.to_string()];
    while let Some(f) = todo.pop() {
        let Some(text) = p.files.get(&f) else { continue };
        for line in text.lines() {
            if let Some(rest) = line.trim_start_matches('\u{feff}').trim_start().strip_prefix("#import ") {
                if let Some(q) = rest.split('"').nth(1) {
                    let dir = Path::new(&f).parent().unwrap_or(Path::new(""));
                    let t = normalize(&dir.join(q)).to_string_lossy().to_string();
                    if !seen.contains(&t) {
                        seen.push(t.clone());
                        todo.push(t);
                    }
                }
            }
        }
    }
    seen
}

fn normalize(p: &Path) -> PathBuf {
    let mut out = PathBuf::new();
    for c in p.components() {
        match c {
            std::path::Component::ParentDir => {
                out.pop();
            }
            std::path::Component::CurDir => {}
            c => out.push(c.as_os_str()),
        }
    }
    out
}

fn walk(dir: &Path, out: &mut Vec<PathBuf>) {
    if let Ok(rd) = std::fs::read_dir(dir) {
        let mut es: Vec<_> = rd.filter_map(|e| e.ok()).map(|e| e.path()).collect();
        es.sort();
        for p in es {
            if p.is_dir() {
                walk(&p, out);
            } else {
                out.push(p);
            }
        }
    }
}

const KEYWORDS: [&str; 14] = ["type", "interface", "input", "enum", "union", "scalar", "query", "mutation", "subscription", "fragment", "directive", "extend", "schema", "\""];

fn is_name_char(c: u16) -> bool {
    c == b'_' as u16 || (c < 128 && (c as u8 as char).is_ascii_alphanumeric())
}

impl<'a> Ctx<'a> {
    fn project(&mut self, p: &Project, cli: &str, scratch: &str, id: usize) {
        let root = PathBuf::from(scratch).join(format!("c06-proj-{id}"));
        let _ = std::fs::remove_dir_all(&root);
        write_state(p, &root);
        let case = project_to_json(p);
        if self.run_generate(cli, &root, &format!("project {id}")) {
            self.judge(p, &root, &case, false);
        }
        let _ = std::fs::remove_dir_all(&root);
    }

    /// one `generate` run in `root`; false if the CLI cannot run or fails (counted, outside this property)
    fn run_generate(&mut self, cli: &str, root: &Path, what: &str) -> bool {
        let out = std::process::Command::new(cli).arg("generate").current_dir(root).output();
        self.rep.evaluations += 1;
        let out = match out {
            Ok(o) => o,
            Err(e) => {
                self.rep.notes.push(format!("cannot run the CLI {cli}: {e}"));
                self.rep.count("e2e:cli-not-runnable");
                return false;
            }
        };
        if !out.status.success() {
            // the generator only builds valid projects; a failing run is outside this property (C18/C08 look at it)
            self.rep.count("e2e:generate-failed(skipped)");
            if self.rep.notes.len() < 3 {
                self.rep.notes.push(format!("generate failed on {what}: {}", String::from_utf8_lossy(&out.stderr).chars().take(300).collect::<String>()));
            }
            return false;
        }
        true
    }

    /// every clause of the property on the maps that are on disk under `root`, against the inputs of `p` (the CURRENT
    /// state). `expected_only`: `root` has seen earlier states too — judge the maps the configuration of `p` asks for
    /// (schema / resolvers output, one per operation file under the current mode); maps left over from earlier states
    /// (renamed / removed operation files, another mode's extension) are not outputs of `p` and are counted.
    fn judge(&mut self, p: &Project, root: &Path, case: &Value, expected_only: bool) {
        let root = root.to_path_buf();
        let case = case.clone();
        let mut all = vec![];
        walk(&root, &mut all);
        let inputs: Vec<PathBuf> = p.schema_files.iter().chain(p.op_files.iter()).map(|k| normalize(&root.join(k))).collect();
        let nschema = p.schema_files.len();
        let nops = p.op_files.len();
        // paths of the config, normalised, relative to the project root
        let cfg_path = |key: &str| -> Option<String> {
            p.files.get("graphql.config.yaml").and_then(|c| c.lines().find_map(|l| l.trim().strip_prefix(&format!("{key}: ")).map(|x| normalize(Path::new(x.trim().trim_matches('"'))).to_string_lossy().to_string())))
        };
        let server_out = cfg_path("serverGraphqlOutput");
        // the map of an operation file's declaration file: <stem><suffix> next to it
        let suffixes = [".d.graphql.ts.map", ".graphql.d.ts.map", ".graphql.ts.map"];
        let op_of_map = |rel: &str| -> Option<String> {
            p.op_files.iter().find(|f| { let stem = f.trim_end_matches(".graphql"); suffixes.iter().any(|sx| rel == format!("{stem}{sx}")) }).cloned()
        };
        let mut maps: Vec<&PathBuf> = all.iter().filter(|f| f.to_string_lossy().ends_with(".map")).collect();
        if expected_only {
            let exp = expected_maps(p);
            let before = maps.len();
            maps.retain(|m| m.strip_prefix(&root).map_or(false, |r| exp.contains(&r.to_string_lossy().to_string())));
            for _ in maps.len()..before {
                self.rep.count("history:leftover-map-of-an-earlier-state(tolerated)");
            }
            for e in &exp {
                if !maps.iter().any(|m| m.strip_prefix(&root).map_or(false, |r| r.to_string_lossy() == *e)) {
                    // (judged by the comparison with the fresh run: `history:missing-output:map` if a fresh run writes it)
                    self.rep.count("history:expected-map-not-on-disk");
                }
            }
        }
        if maps.is_empty() {
            self.rep.fail("O", "e2e:no-map-emitted", "generate wrote no .map file", case.clone());
        }
        let imp = if p.has_import { "with-import" } else { "no-import" };
        // plugins with a schema addition: each registers one virtual schema file (it exists on no disk) in the file
        // store, after the schema files read from disk
        let cfg_text = p.files.get("graphql.config.yaml").cloned().unwrap_or_default();
        let n_virtual = cfg_text.matches(MODEL_PLUGIN).count().min(1);
        for mode in ["with-loader-ts-5.0", "with-loader-ts-4.0", "standalone-ts-4.0"] {
            if cfg_text.contains(&format!("mode: {mode}")) {
                self.rep.count(&format!("e2e:project:mode:{mode}"));
            }
        }
        if p.files.iter().any(|(k, v)| p.op_files.contains(k) && v.lines().any(|l| l.contains("$v") && l.contains("= \"") && !l.is_ascii())) {
            self.rep.count("e2e:project:variable-default-non-ascii");
        }
        if p.files.iter().any(|(k, v)| p.schema_files.contains(k) && v.contains("@model")) {
            self.rep.count("e2e:project:schema-uses-plugin-directive");
        }
        if let Some(t) = p.files.get("layout-tags.txt") {
            for tag in t.lines() {
                self.rep.count(&format!("e2e:layout:{tag}"));
            }
        }
        if cfg_text.contains("plugins:") {
            self.rep.count(&format!("e2e:project:plugins-configured:{}", if n_virtual > 0 { "with-schema-addition" } else { "no-schema-addition" }));
        }
        // every generated declaration file has its map
        for f in &all {
            let s = f.to_string_lossy();
            // (serverGraphqlOutput is a runtime module, not a declaration file: it has no map)
            let is_server_out = server_out.as_ref().map_or(false, |so| **f == root.join(so));
            if is_server_out {
                self.rep.count("e2e:server-graphql-output-written");
            }
            if (s.ends_with(".ts")) && !is_server_out && !all.contains(&PathBuf::from(format!("{s}.map"))) {
                self.rep.fail("O", "e2e:declaration-without-map", &format!("{s} has no .map next to it"), case.clone());
            }
        }
        let mut reqs = vec![];
        let mut metas = vec![];
        for m in &maps {
            self.rep.o_cases += 1;
            let rel = m.strip_prefix(&root).unwrap().to_string_lossy().to_string();
            let text = std::fs::read_to_string(m).unwrap_or_default();
            let v: Value = match serde_json::from_str(&text) {
                Ok(v) => v,
                Err(e) => {
                    self.rep.fail("O", "e2e:map-not-json", &format!("{rel}: {e}"), case.clone());
                    continue;
                }
            };
            let gen_path = PathBuf::from(m.to_string_lossy().trim_end_matches(".map"));
            let shape_ok = v["version"] == json!(3)
                && v["file"].as_str() == gen_path.file_name().and_then(|s| s.to_str())
                && v["sources"].as_array().map_or(false, |a| a.iter().all(|x| x.is_string()))
                && v["names"].as_array().map_or(false, |a| a.iter().all(|x| x.is_string()))
                && v["mappings"].is_string();
            if !shape_ok {
                self.rep.fail("O", "e2e:map-shape", &format!("{rel}: not a Source Map v3 object with file/sources/names/mappings: {}", text.chars().take(200).collect::<String>()), case.clone());
                continue;
            }
            let generated = match std::fs::read_to_string(&gen_path) {
                Ok(g) => g,
                Err(_) => {
                    self.rep.fail("O", "e2e:generated-file-missing", &format!("{rel}: `file` {:?} does not exist next to the map", v["file"]), case.clone());
                    continue;
                }
            };
            let url_ok = generated.lines().last().map_or(false, |l| l == format!("//# sourceMappingURL={}", m.file_name().unwrap().to_string_lossy()));
            if !url_ok {
                self.rep.fail("O", "e2e:sourceMappingURL", &format!("{rel}: generated file does not end with the sourceMappingURL of its map"), case.clone());
            }
            let sources: Vec<String> = v["sources"].as_array().unwrap().iter().map(|x| x.as_str().unwrap().to_string()).collect();
            let names: Vec<String> = v["names"].as_array().unwrap().iter().map(|x| x.as_str().unwrap().to_string()).collect();
            // sources resolve (relative to the map) to input files
            let mut src_texts = vec![];
            // entries of `sources` that stand for a plugin's virtual file. The property constrains the entries that
            // SEGMENTS reference; an unreferenced entry for a virtual file is tolerated (counted), at most one per
            // plugin with a schema addition. A segment that references it is judged below.
            let mut virtual_idx: Vec<usize> = vec![];
            // layout feature: does an input share a same-named component at the same depth with the map's directory
            // AFTER the two paths diverged (mirrored trees)? / differ in case only at the point of divergence?
            {
                let md: Vec<String> = Path::new(&rel).parent().map(|d| d.components().map(|c| c.as_os_str().to_string_lossy().to_string()).collect()).unwrap_or_default();
                let mut mirrored = false;
                let mut case_only = false;
                for f in p.schema_files.iter().chain(p.op_files.iter()) {
                    let fc: Vec<&str> = f.split('/').collect();
                    let common = md.iter().zip(fc.iter()).take_while(|(a, b)| a.as_str() == **b).count();
                    mirrored |= md.iter().zip(fc.iter()).skip(common).any(|(a, b)| a.as_str() == *b);
                    case_only |= md.get(common).zip(fc.get(common)).map_or(false, |(a, b)| a.to_lowercase() == b.to_lowercase());
                }
                if mirrored {
                    self.rep.count("e2e:map:input-shares-component-after-divergence(mirrored-tree)");
                }
                if case_only {
                    self.rep.count("e2e:map:input-diverges-by-case-only");
                }
                self.rep.count(&format!("e2e:map:directory-depth-{}", md.len()));
            }
            let mut non_input: Vec<(usize, PathBuf)> = vec![];
            for (six, s) in sources.iter().enumerate() {
                let abs = normalize(&m.parent().unwrap().join(s));
                if !inputs.contains(&abs) {
                    non_input.push((six, abs.clone()));
                }
                src_texts.push(std::fs::read_to_string(&abs).unwrap_or_default());
            }
            self.rep.count("e2e:sources-entries-resolved-against-inputs");
            if non_input.len() <= n_virtual && non_input.iter().all(|(_, abs)| !abs.exists()) {
                for (six, _) in &non_input {
                    virtual_idx.push(*six);
                    self.rep.count("note:sources-lists-a-plugin's-virtual-file");
                }
            } else {
                for (six, abs) in &non_input {
                    self.rep.fail("O", "e2e:source-not-an-input", &format!("{rel}: sources entry {:?} resolves to {abs:?}, not a GraphQL input file ({} such entries, {n_virtual} virtual plugin file(s) configured; inputs {:?})", sources[*six], non_input.len(), p.schema_files.iter().chain(p.op_files.iter()).collect::<Vec<_>>()), case.clone());
                }
            }
            // K: the `sources` list against the model of FileMap
            let is_op = op_of_map(&rel).is_some();
            let mappings = v["mappings"].as_str().unwrap().to_string();
            reqs.push(Sexp::call("sm.check", vec![Sexp::str(generated.as_str()), Sexp::str(mappings.as_str()), Sexp::int(sources.len() as i128), Sexp::int(names.len() as i128)]));
            reqs.push(Sexp::call("sm.decode", vec![Sexp::str(mappings.as_str())]));
            reqs.push(Sexp::call("sm.strict", vec![Sexp::str(mappings.as_str())]));
            metas.push((rel, sources, names, src_texts, is_op, generated, virtual_idx));
        }
        let ans = self.drv.batch(&reqs);
        // K for the file map: model's source list for every operation file and the schema outputs
        let mut store: Vec<String> = path_sorted(p.schema_files.clone());
        for _ in 0..n_virtual {
            store.push("(plugin)".to_string()); // FileKind::Schema, added by the plugin host after the files from disk
        }
        let nschema = nschema + n_virtual;
        store.extend(path_sorted(p.op_files.clone()));
        let mut named_by_map: BTreeMap<String, Vec<(String, i128, String)>> = BTreeMap::new();
        // every segment with an original position: (source file, line, column, named?)
        let mut any_by_map: BTreeMap<String, Vec<(String, i128, i128, bool)>> = BTreeMap::new();
        for (i, (rel, sources, names, src_texts, is_op, generated, virtual_idx)) in metas.iter().enumerate() {
            // K: sources = model's sourceFiles
            let own = if *is_op { op_of_map(rel).and_then(|o| store.iter().position(|f| *f == o)) } else { None };
            let req = match own {
                Some(o) => {
                    let mut used: Vec<usize> = import_closure(p, &store[o]).iter().filter_map(|f| store.iter().position(|g| g == f)).collect();
                    used.sort();
                    let mut a = vec![Sexp::int(nschema as i128), Sexp::int(nops as i128)];
                    a.extend(used.iter().map(|u| Sexp::int(*u as i128)));
                    Sexp::call("files.op", a)
                }
                None => Sexp::call("files.schema", vec![Sexp::int(nschema as i128), Sexp::int(nops as i128)]),
            };
            let fm = self.drv.one(&req);
            self.rep.k_cases += 1;
            let model_sources: Vec<String> = fm.args().get(1).map(|l| l.as_list().unwrap_or(&[]).iter().filter_map(|x| x.as_int()).map(|ix| store[ix as usize].clone()).collect()).unwrap_or_default();
            let real_sources: Vec<String> = sources.iter().enumerate().map(|(six, s)| {
                if virtual_idx.contains(&six) {
                    return "(plugin)".to_string();
                }
                let abs = normalize(&root.join(rel).parent().unwrap().join(s));
                abs.strip_prefix(&root).map(|x| x.to_string_lossy().to_string()).unwrap_or_else(|_| abs.to_string_lossy().to_string())
            }).collect();
            if model_sources != real_sources {
                self.rep.fail("K", "e2e:sources-list", &format!("{rel}: sources {real_sources:?}, model of FileMap gives {model_sources:?} (store order {store:?})"), case.clone());
            }
            let check = &ans[3 * i];
            if ans[3 * i + 2].args().first().and_then(|x| x.as_atom()) != Some("true") {
                self.rep.fail("O", "e2e:empty-segment", &format!("{rel}: `mappings` contains an empty segment (see mappings_strict_iff): {:?}", ans[3 * i + 2]), case.clone());
            }
            if check.head() != Some("ok") {
                for pr in check.args() {
                    let kind = pr.head().unwrap_or("?");
                    let sig = if kind == "source-negative" { format!("e2e:source-index-negative:{imp}") } else { format!("e2e:sm.check:{kind}") };
                    self.rep.fail("O", &sig, &format!("{rel}: {pr} — decoded `mappings` of the emitted map violates the spec check (sources = {sources:?})"), case.clone());
                }
            }
            let Some(segs) = parse_decoded(&ans[3 * i + 1]) else { continue };
            // generated side, judged against the REAL generated text in UTF-16 units: a named segment and the
            // range-closing segment after it delimit exactly one whole identifier, which carries the mapped name
            {
                let glines: Vec<Vec<u16>> = generated.split('\n').map(|l| l.encode_utf16().collect()).collect();
                let is_id = |c: u16| is_name_char(c) || c == b'$' as u16;
                for (si, s) in segs.iter().enumerate() {
                    let Some(gl) = glines.get(s.line) else { continue }; // reported by sm.check
                    if s.col < 0 || s.col as usize > gl.len() {
                        continue; // reported by sm.check
                    }
                    let a = s.col as usize;
                    let non_ascii_before = gl[..a].iter().any(|c| *c > 127);
                    let tag = if non_ascii_before { "after-non-ascii-text" } else { "ascii-line" };
                    // any segment (named, unnamed, range-closing): its generated column is a token boundary of the
                    // generated text, never strictly inside an identifier, and never inside a surrogate pair
                    if a > 0 && a < gl.len() && ((is_id(gl[a - 1]) && is_id(gl[a])) || (0xD800..0xDC00).contains(&gl[a - 1])) {
                        self.rep.fail("O", &format!("e2e:generated-column-inside-token:{tag}"), &format!("{rel}: segment {si} at generated {}:{a} falls inside {:?}", s.line, String::from_utf16_lossy(&gl[a.saturating_sub(12)..gl.len().min(a + 12)])), case.clone());
                        continue;
                    }
                    self.rep.count("e2e:generated-column-token-boundary-checked");
                    let Some(ni) = s.name else { continue };
                    let name = names.get(ni.max(0) as usize).cloned().unwrap_or_default();
                    let end = match segs.get(si + 1) {
                        Some(n) if n.line == s.line && n.name.is_none() && n.col >= s.col && (n.col as usize) <= gl.len() => n.col as usize,
                        _ => {
                            self.rep.count("note:e2e-named-segment-without-closing-segment-on-its-line");
                            continue;
                        }
                    };
                    let text = String::from_utf16_lossy(&gl[a..end]);
                    let whole = end > a && gl[a..end].iter().all(|c| is_id(*c)) && (a == 0 || !is_id(gl[a - 1])) && (end == gl.len() || !is_id(gl[end]));
                    let carries = text.to_lowercase().contains(&name.to_lowercase());
                    // a definition keyword of the source (`type`, `enum` …) is mapped from the declaration keywords
                    let decl_keywords = !text.trim().is_empty() && text.split(' ').all(|w| ["", "export", "declare", "type", "interface", "enum", "const", "namespace"].contains(&w));
                    if decl_keywords && KEYWORDS.contains(&name.as_str()) {
                        self.rep.count("e2e:generated-declaration-keyword-checked");
                        continue;
                    }
                    self.rep.count("e2e:generated-identifier-checked");
                    // (an operation keyword as name says nothing about the generated identifier; the source side judges it)
                    let carries = carries || ["query", "mutation", "subscription"].contains(&name.as_str());
                    if !(whole && carries) {
                        self.rep.fail("O", &format!("e2e:generated-text-not-identifier:{tag}"), &format!("{rel}: named segment {si} ({name:?}) at generated {}:{}..{} covers {text:?} (line continues {:?}) — not exactly the identifier declaring {name:?}", s.line, a, end, String::from_utf16_lossy(&gl[a..gl.len().min(a + 30)])), case.clone());
                    }
                }
            }
            let mut prev_named: Option<(i128, i128, i128, String)> = None;
            let mut nontrivial = false;
            for (si, s) in segs.iter().enumerate() {
                let Some((src, ol, oc)) = s.orig else {
                    prev_named = None;
                    continue;
                };
                if src < 0 || src as usize >= sources.len() {
                    prev_named = None;
                    continue; // reported by sm.check
                }
                if virtual_idx.contains(&(src as usize)) {
                    // the referenced entry must resolve to one of the GraphQL input files; a virtual file is none
                    self.rep.fail("O", "e2e:segment-into-virtual-source", &format!("{rel}: segment {si} references sources[{src}] = {:?}, a plugin's virtual file — not one of the GraphQL input files (sources = {sources:?})", sources[src as usize]), case.clone());
                    prev_named = None;
                    continue;
                }
                let text = &src_texts[src as usize];
                let slines: Vec<&str> = text.split('\n').collect();
                let astral_line = ol >= 0 && slines.get(ol as usize).map_or(false, |l| l.chars().any(|c| c as u32 > 0xFFFF));
                let tag = if astral_line { "astral-char-on-line" } else { "bmp" };
                let Some(l) = (if ol >= 0 { slines.get(ol as usize) } else { None }) else {
                    self.rep.fail("O", "e2e:original-line-outside-file", &format!("{rel}: segment {si} original line {ol} outside {}", sources[src as usize]), case.clone());
                    continue;
                };
                let u: Vec<u16> = l.encode_utf16().collect();
                if oc < 0 || oc as usize > u.len() {
                    self.rep.fail("O", &format!("e2e:original-column-outside-line:{tag}"), &format!("{rel}: segment {si} original {ol}:{oc} outside line {l:?} of {}", sources[src as usize]), case.clone());
                    continue;
                }
                let oc = oc as usize;
                if let Some(ni) = s.name {
                    let name = names.get(ni.max(0) as usize).cloned().unwrap_or_default();
                    // token start (columns are UTF-16 units): not in the middle of a name, not on white space,
                    // and the token is the name or the keyword / description / spread that starts the named construct
                    // Err((is the position a token start?, why))
                    let token_ok = |oc: usize| -> Result<(), (bool, String)> {
                        let cur = u.get(oc).copied().unwrap_or(b' ' as u16);
                        let mid = oc > 0 && is_name_char(u[oc - 1]) && is_name_char(cur);
                        let rest = String::from_utf16_lossy(&u[oc.min(u.len())..]);
                        if mid || cur == b' ' as u16 || cur == b'\t' as u16 || oc >= u.len() {
                            return Err((false, format!("points at {ol}:{oc} = {rest:?}, not the start of a token")));
                        }
                        // the token itself (a name token: the whole token, not a prefix of it)
                        if rest.starts_with(name.as_str()) && !name.is_empty() && !rest[name.len()..].chars().next().map_or(false, |c| c == '_' || c.is_ascii_alphanumeric()) {
                            return Ok(());
                        }
                        // the name of the definition whose keyword is there
                        for k in ["type", "interface", "input", "enum", "union", "scalar", "query", "mutation", "subscription", "fragment", "directive"] {
                            if let Some(after) = rest.strip_prefix(k) {
                                if after.chars().next().map_or(false, |c| c == '_' || c.is_ascii_alphanumeric()) {
                                    continue;
                                }
                                let defname: String = after.trim_start().trim_start_matches('@').chars().take_while(|c| *c == '_' || c.is_ascii_alphanumeric()).collect();
                                if defname == name {
                                    return Ok(());
                                }
                                return Err((true, format!("has name {name:?} but the source at {ol}:{oc} is {rest:?}: the definition whose keyword is there is named {defname:?}")));
                            }
                        }
                        // a description / `extend` / `schema` in front of the named construct, or a spread
                        if rest.starts_with('"') || rest.starts_with("extend") || rest.starts_with("schema") || rest.starts_with("...") {
                            return Ok(());
                        }
                        Err((true, format!("has name {name:?} but the source at {ol}:{oc} is {rest:?}")))
                    };
                    match token_ok(oc) {
                        Ok(()) => nontrivial = true,
                        Err((at_token, why)) => {
                            // is the column a count of code points (pest) instead of UTF-16 units? (DESIGN §9-an)
                            let as_cp: usize = l.chars().take(oc).map(|c| c.len_utf16()).sum();
                            if astral_line && as_cp != oc && token_ok(as_cp).is_ok() {
                                self.rep.fail("O", "e2e:original-column-counts-code-points", &format!("{rel}: named segment {si} ({name:?}) of {} {why}; the column is right only when counted in code points — an astral character precedes the token on its line, Source Map columns are UTF-16 units", sources[src as usize]), case.clone());
                            } else if at_token {
                                let form = if l.trim_start().starts_with('{') { "at-selection-set(query-shorthand)" } else { tag };
                                self.rep.fail("O", &format!("e2e:segment-name-not-source-identifier:{form}"), &format!("{rel}: named segment {si} of {} {why} — the name is neither the token there nor the name of the definition whose keyword is there", sources[src as usize]), case.clone());
                            } else {
                                self.rep.fail("O", &format!("e2e:original-not-token:{tag}"), &format!("{rel}: named segment {si} of {} {why}", sources[src as usize]), case.clone());
                            }
                        }
                    }
                    {
                        let abs = normalize(&root.join(rel).parent().unwrap().join(&sources[src as usize]));
                        let srel = abs.strip_prefix(&root).map(|x| x.to_string_lossy().to_string()).unwrap_or_default();
                        named_by_map.entry(rel.clone()).or_default().push((srel.clone(), ol, name.clone()));
                        any_by_map.entry(rel.clone()).or_default().push((srel, ol, oc as i128, true));
                    }
                    prev_named = Some((src, ol, oc as i128, name));
                } else {
                    let mut range_end = false;
                    if let Some((psrc, pl, pc, pname)) = &prev_named {
                        // range-closing segment: just past the mapped name
                        range_end = *psrc == src && *pl == ol && oc as i128 == pc + utf16_len(pname) as i128;
                        if !range_end {
                            self.rep.count("note:unnamed-segment-after-named-not-range-end");
                        }
                    }
                    if !range_end {
                        // an unnamed segment that closes no range: the original position is the start of a token
                        let tok = |oc: usize| -> bool {
                            let cur = u.get(oc).copied().unwrap_or(b' ' as u16);
                            !(oc >= u.len() || cur == b' ' as u16 || cur == b'\t' as u16 || (oc > 0 && is_name_char(u[oc - 1]) && is_name_char(cur)))
                        };
                        if tok(oc) {
                            self.rep.count("e2e:unnamed-segment-token-start-checked");
                        } else {
                            let as_cp: usize = l.chars().take(oc).map(|c| c.len_utf16()).sum();
                            if astral_line && as_cp != oc && tok(as_cp) {
                                self.rep.fail("O", "e2e:original-column-counts-code-points", &format!("{rel}: unnamed segment {si} of {} points at {ol}:{oc}, not the start of a token; the column is right only when counted in code points — an astral character precedes the token on its line, Source Map columns are UTF-16 units", sources[src as usize]), case.clone());
                            } else {
                                self.rep.fail("O", &format!("e2e:original-not-token:unnamed:{tag}"), &format!("{rel}: unnamed segment {si} of {} points at {ol}:{oc} = {:?}, not the start of a token", sources[src as usize], String::from_utf16_lossy(&u[oc.min(u.len())..])), case.clone());
                            }
                        }
                        let abs = normalize(&root.join(rel).parent().unwrap().join(&sources[src as usize]));
                        let srel = abs.strip_prefix(&root).map(|x| x.to_string_lossy().to_string()).unwrap_or_default();
                        any_by_map.entry(rel.clone()).or_default().push((srel, ol, oc as i128, false));
                    }
                    prev_named = None;
                }
                let _ = generated;
            }
            if nontrivial {
                self.rep.nontrivial(&format!("{}|{rel}", case));
                self.rep.count("e2e:maps-checked");
            }
        }
        // ---- every definition has a named segment into its header (own and imported fragments included)
        let schema_out = cfg_path("schemaOutput").unwrap_or_default();
        let has_seg = |map: &str, file: &str, line: usize, name: &str| -> bool {
            named_by_map.get(map).map_or(false, |v| v.iter().any(|(f, l, n)| f == file && *l == line as i128 && n == name))
        };
        let find_map = |stem: &str| -> Option<String> { suffixes.iter().map(|s| format!("{stem}{s}")).find(|m| metas.iter().any(|x| x.0 == *m)) };
        for (file, text) in p.files.iter().filter(|(k, _)| p.schema_files.contains(k) || p.op_files.contains(k)) {
            let mut in_type = false;
            let mut depth: i64 = 0;
            for (ln, l) in text.lines().enumerate() {
                // (a byte order mark in front of the first token and any indentation are insignificant)
                let t = l.trim_start_matches('\u{feff}').trim_start();
                let depth_before = depth;
                if !t.starts_with('#') {
                    let mut in_str = false;
                    let mut prev = ' ';
                    for c in t.chars() {
                        match c {
                            '"' if prev != '\\' => in_str = !in_str,
                            '{' if !in_str => depth += 1,
                            '}' if !in_str => depth -= 1,
                            _ => {}
                        }
                        prev = c;
                    }
                }
                let word = |rest: &str| -> String { rest.chars().take_while(|c| c.is_alphanumeric() || *c == '_').collect() };
                if p.schema_files.contains(file) {
                    let map = format!("{schema_out}.map");
                    if let Some(rest) = t.strip_prefix("type ") {
                        in_type = true;
                        let n = word(rest);
                        self.rep.count("e2e:definition:type");
                        if !has_seg(&map, file, ln, &n) {
                            self.rep.fail("O", "e2e:definition-without-segment:type", &format!("{map}: no named segment {n:?} into {file}:{ln} (header of type {n})"), case.clone());
                        }
                    } else if t.starts_with('}') {
                        in_type = false;
                    } else if in_type && !t.starts_with('#') && !t.starts_with('"') && t.contains(':') {
                        let n = word(t);
                        self.rep.count("e2e:definition:field");
                        if !n.is_empty() && !has_seg(&map, file, ln, &n) {
                            self.rep.fail("O", "e2e:definition-without-segment:field", &format!("{map}: no named segment {n:?} into {file}:{ln} (field definition)"), case.clone());
                        }
                    }
                } else {
                    let kw_def = |kw: &str| -> Option<String> {
                        let r = t.strip_prefix(kw)?;
                        if r.chars().next().map_or(false, |c| c == '_' || c.is_alphanumeric()) {
                            return None;
                        }
                        Some(word(r.trim_start()))
                    };
                    if depth_before != 0 {
                        continue; // definitions start at brace depth 0
                    }
                    let def = if t.starts_with('{') {
                        Some(("operation", String::new())) // query shorthand
                    } else if let Some(n) = ["query", "mutation", "subscription"].iter().find_map(|k| kw_def(k)) {
                        Some(("operation", n))
                    } else {
                        t.strip_prefix("fragment ").map(|r| ("fragment", word(r)))
                    };
                    let Some((kind, n)) = def else { continue };
                    if kind == "operation" && n.is_empty() {
                        // an anonymous operation has no name token: the identifiers declaring it (Result, Variables, the
                        // document) carry a segment to where the operation starts (its keyword, or `{` in shorthand form)
                        let form = if t.starts_with('{') { "shorthand" } else { "keyword" };
                        let col = utf16_len(&l[..l.len() - t.len()]) as i128;
                        if let Some(map) = find_map(file.trim_end_matches(".graphql")) {
                            self.rep.count(&format!("e2e:definition:operation:anonymous:{form}"));
                            let ok = any_by_map.get(&map).map_or(false, |v| v.iter().any(|(f, sl, sc, _)| f == file && *sl == ln as i128 && *sc == col));
                            if !ok {
                                self.rep.fail("O", &format!("e2e:definition-without-segment:operation:anonymous:{form}"), &format!("{map}: no segment into {file}:{ln}:{col} (start of the anonymous operation)"), case.clone());
                            }
                        }
                        continue;
                    }
                    // the file's own map, and the map of every operation file that (transitively) imports it
                    for other in p.op_files.iter() {
                        let own = other == file;
                        if !(own || (kind == "fragment" && import_closure(p, other).contains(file))) {
                            continue;
                        }
                        let Some(map) = find_map(other.trim_end_matches(".graphql")) else { continue };
                        self.rep.count(&format!("e2e:definition:{kind}:{}", if own { "own-file" } else { "imported" }));
                        if !has_seg(&map, file, ln, &n) {
                            self.rep.fail("O", &format!("e2e:definition-without-segment:{kind}:{}", if own { "own-file" } else { "imported" }), &format!("{map}: no named segment {n:?} into {file}:{ln} (header of {kind} {n})"), case.clone());
                        }
                    }
                }
            }
        }
        self.rep.count(&format!("e2e:project:{imp}"));
    }
}

fn write_state(p: &Project, root: &Path) {
    for (rel, content) in &p.files {
        let path = root.join(rel);
        std::fs::create_dir_all(path.parent().unwrap()).unwrap();
        std::fs::write(&path, content).unwrap();
    }
}

fn cfg_value(p: &Project, key: &str) -> Option<String> {
    p.files.get("graphql.config.yaml").and_then(|c| c.lines().find_map(|l| l.trim().strip_prefix(&format!("{key}: ")).map(|x| x.trim().trim_matches('"').to_string())))
}

/// the maps the configuration of `p` asks for, relative to the project root
fn expected_maps(p: &Project) -> Vec<String> {
    let mut v = vec![];
    for key in ["schemaOutput", "resolversOutput"] {
        if let Some(x) = cfg_value(p, key) {
            v.push(format!("{}.map", normalize(Path::new(&x)).to_string_lossy()));
        }
    }
    let ext = match cfg_value(p, "mode").as_deref() {
        Some("with-loader-ts-4.0") => ".graphql.d.ts.map",
        Some("standalone-ts-4.0") => ".graphql.ts.map",
        _ => ".d.graphql.ts.map",
    };
    for f in &p.op_files {
        v.push(format!("{}{ext}", f.trim_end_matches(".graphql")));
    }
    v
}

/// relative import specifier from the file `from` to the file `to` (both relative to the project root)
fn rel_import(from: &str, to: &str) -> String {
    let fd: Vec<&str> = from.split('/').collect();
    let td: Vec<&str> = to.split('/').collect();
    let fdir = &fd[..fd.len() - 1];
    let mut common = 0;
    while common < fdir.len() && common < td.len() - 1 && fdir[common] == td[common] {
        common += 1;
    }
    let mut s = String::new();
    if fdir.len() == common {
        s.push_str("./");
    }
    for _ in common..fdir.len() {
        s.push_str("../");
    }
    s.push_str(&td[common..].join("/"));
    s
}

// --------------------------------------------------------------------------------------------- main

fn boundaries() -> Vec<i64> {
    let mut v = vec![0, 1, -1, 15, -15, 16, -16, 17, -17, 175, 511, 512, -511, -512, i64::MAX, i64::MIN, i64::MIN + 1, i64::MAX - 1];
    for k in 1..63 {
        let p = 1i64 << k;
        for d in [-1i64, 0, 1] {
            v.push(p + d);
            v.push(-(p + d));
        }
    }
    v
}

/// the `sites:*` stream; some of the recorded printer call sequences then go through the `ops` stream
fn run_sites(ctx: &mut Ctx, cases: &[sites::SitesCase], ops_stream_budget: usize) {
    let mut s = sites::Sites { rep: &mut *ctx.rep, drv: &mut *ctx.drv, for_ops_stream: vec![], ops_stream_budget };
    for c in cases {
        s.run(c);
    }
    let seqs = std::mem::take(&mut s.for_ops_stream);
    drop(s);
    for ops in seqs {
        ctx.rep.count("ops:recorded-printer-sequence");
        ctx.ops(&[(ops, true)]);
    }
}

fn main() {
    let args = Args::parse();
    quiet_panics();
    let mut rep = Report::new(
        "C06",
        "vlq: integers (exhaustive/dense in [-2^22,2^22] + isize boundaries); entries: raw MappingWriter entry sequences; ops: random SourceWriter op sequences; e2e: generated projects through the CLI; sites: the printers' calls on the SourceMapWriter trait, recorded on generated schemas/documents. non-trivial = a recorded printer call sequence with a mapped write_for (distinct by its mapped calls), an op sequence with a named node whose chunk is non-empty and on one line and whose segment pair was located in the decoded real output, an entry sequence with >1 entry, or an emitted .map with a verified named segment (distinct by text)",
    );
    let mut drv = Driver::spawn(&args.driver);
    let cli = args.extra.get("cli").cloned().unwrap_or_default();
    let scratch = if args.scratch.is_empty() { std::env::temp_dir().join("nv-c06").to_string_lossy().to_string() } else { args.scratch.clone() };
    let search = args.extra.get("search").map_or(false, |s| s == "1");
    let mut ctx = Ctx { rep: &mut rep, drv: &mut drv };

    if let Some(path) = &args.replay {
        let v: Value = serde_json::from_str(&std::fs::read_to_string(path).expect("replay file")).expect("replay json");
        let c = &v["case"];
        match c["kind"].as_str().unwrap_or("") {
            "vlq" => ctx.vlq(&[c["n"].as_str().unwrap().parse().unwrap()]),
            "entries" => {
                let es: Vec<[u64; 6]> = c["entries"].as_array().unwrap().iter().map(|e| {
                    let a: Vec<u64> = e.as_array().unwrap().iter().map(|x| x.as_u64().unwrap()).collect();
                    [a[0], a[1], a[2], a[3], a[4], a[5]]
                }).collect();
                ctx.entries(&[es]);
            }
            "ops" => {
                let ops: Vec<Op> = c["ops"].as_array().unwrap().iter().map(op_from_json).collect();
                ctx.ops(&[(ops, c["o_domain"].as_bool().unwrap_or(true))]);
            }
            "project" => ctx.project(&project_from_json(c), &cli, &scratch, 0),
            "history" => ctx.history(&history::History::from_json(c), &cli, &scratch, 0),
            "sites" => run_sites(&mut ctx, &[sites::SitesCase::from_json(c)], 1),
            k => panic!("unknown replay case kind {k}"),
        }
        rep.write(&args);
        return;
    }

    // ---- corpus (minimised past failures / designed edge cases) first
    ctx.vlq(&boundaries());
    ctx.entries(&[
        vec![[0, 0, 0, 0, 0, 0]],
        vec![[0, 0, 0, 0, 0, 1], [0, 0, 0, 0, 0, 0]],
        vec![[3, 5, 1, 2, 0, 1], [3, 9, 1, 3, 0, 0], [7, 0, 0, 0, 1, 3]],
        vec![[0, 1, 2, 3, USIZE_MAX, 0], [0, 2, 2, 3, 0, 0]],
        vec![[2, 0, 0, 0, 0, 0], [1, 0, 0, 0, 0, 0]],
        vec![[0, ISIZE_MAX, ISIZE_MAX, ISIZE_MAX, ISIZE_MAX, 0], [0, 0, 0, 0, 0, 0]],
        vec![[0, 0, 0, 0, USIZE_MAX, 0], [0, 0, 0, 0, ISIZE_MAX, 0]],
    ]);
    let wf = |chunk: &str, line, col, file, name: Option<&str>| Op::Wf { chunk: chunk.into(), line, col, file, builtin: false, name: name.map(|s| s.to_string()) };
    ctx.ops(&[
        (vec![wf("a", 0, 0, 0, None)], true),
        (vec![wf("a", 0, 0, 0, Some("a"))], true),
        (vec![Op::W("é".into()), wf("N", 0, 0, 0, Some("N"))], true),
        (vec![Op::W("こんにちは 👋\"} as ".into()), wf("Frag", 7, 0, 0, Some("Frag")), Op::W(", never>;".into())], true),
        (vec![Op::In, Op::W("x\n".into()), wf("y", 1, 2, 0, None)], true),
        (vec![Op::In, Op::W("x\n".into()), wf("y", 1, 2, 0, Some("y"))], true),
        (vec![Op::In, Op::W("x\n".into()), wf("", 1, 2, 0, Some("y")), Op::W("\nz".into())], true),
        (vec![Op::In, Op::In, Op::De, Op::De, Op::De, Op::W("\n😀".into()), wf("𝒳y\nq", 5, 6, 0, Some("😀n"))], true),
        (vec![Op::Map(vec![0, USIZE_MAX]), wf("a", 0, 0, 1, Some("F")), wf("b", 1, 1, 0, None)], false),
        (vec![Op::Map(vec![0]), wf("a", 0, 0, 1, None)], false),
        ((0..14).flat_map(|i| vec![wf("n", i, 0, 0, Some(&format!("k{}", i % 12))), wf("m", i, 1, 0, Some("k0"))]).collect(), true),
        (vec![wf("a", ISIZE_MAX, ISIZE_MAX, 0, Some("nm")), wf("b", 0, 0, 0, None)], true),
    ]);

    let mut rng = Rng::new(args.seed);

    // ---- vlq: [-2^22, 2^22]
    let lim: i64 = 1 << 22;
    if args.thorough() || search {
        let mut n = -lim;
        while n <= lim {
            let hi = (n + 200_000).min(lim + 1);
            let v: Vec<i64> = (n..hi).collect();
            ctx.vlq(&v);
            n = hi;
        }
        ctx.rep.exhaustive = true;
        ctx.rep.extra.insert("vlq_exhaustive_range".into(), json!("[-2^22, 2^22]"));
    } else {
        // dense around zero and around every digit-count boundary, plus a uniform sample
        let mut v: Vec<i64> = (-70_000..=70_000).collect();
        for b in [1i64 << 19, 1 << 20, 1 << 21, 1 << 22] {
            for d in -300..=300 {
                if (b + d).abs() <= lim {
                    v.push(b + d);
                    v.push(-(b + d));
                }
            }
        }
        for _ in 0..60_000 {
            v.push(rng.range(-lim, lim));
        }
        ctx.vlq(&v);
        ctx.rep.extra.insert("vlq_dense_range".into(), json!("[-70000, 70000] + ±300 around ±2^19..2^22 + 60000 uniform in [-2^22, 2^22]"));
    }
    // the rest of the isize range
    let mut v = vec![];
    for _ in 0..args.budget(20_000, 200_000) {
        let x = (rng.next_u64() >> rng.below(64)) as i64;
        v.push(if rng.coin() { x } else { x.wrapping_neg() });
    }
    ctx.vlq(&v);

    // ---- raw entry sequences
    let ncase = args.budget(4_000, 60_000);
    let mut cases = vec![];
    for _ in 0..ncase {
        let n = 1 + rng.below(8);
        let big = rng.chance(1, 5);
        let mut line = if rng.coin() { 0 } else { rng.below(5) as u64 };
        let mut es = vec![];
        for _ in 0..n {
            if rng.chance(1, 3) {
                line += 1 + rng.below(3) as u64;
            } else if rng.chance(1, 40) && line > 0 {
                line -= 1; // decreasing line: usize underflow in the real code
            }
            let src = if rng.chance(1, 25) { USIZE_MAX } else { rand_pos(&mut rng, false) % 7 };
            es.push([line, rand_pos(&mut rng, big), rand_pos(&mut rng, big), rand_pos(&mut rng, big), src, if rng.coin() { 0 } else { 1 + rand_pos(&mut rng, big) % 1000 }]);
        }
        cases.push(es);
    }
    for ch in cases.chunks(5000) {
        ctx.entries(ch);
    }

    // ---- op sequences
    let nops = args.budget(6_000, 120_000);
    let mut cases = vec![];
    for i in 0..nops {
        let wild = rng.chance(1, 5);
        let ops = rand_ops(&mut rng, wild);
        // inside the O domain iff every mapper value is a real index and every node's file is inside the mapper
        let mut mapper: Option<Vec<u64>> = None;
        let mut ok = true;
        for op in &ops {
            match op {
                Op::Map(m) => {
                    ok &= m.iter().all(|x| *x != USIZE_MAX);
                    mapper = Some(m.clone());
                }
                Op::Wf { file, builtin: false, .. } => {
                    if let Some(m) = &mapper {
                        ok &= (*file as usize) < m.len();
                    }
                }
                _ => {}
            }
        }
        if i < 3 {
            ctx.rep.sample(json!({"ops": ops.iter().map(op_to_json).collect::<Vec<_>>()}));
        }
        cases.push((ops, ok));
    }
    for ch in cases.chunks(4000) {
        ctx.ops(ch);
    }

    // ---- printer call sites (own PRNG stream: the other streams keep their cases)
    {
        let mut srng = Rng::new(args.seed ^ 0x5173_5eed_c06c_a115);
        let mut cases = sites::corpus();
        for i in 0..args.budget(60, 1500) {
            cases.push(sites::generated(&mut srng, i));
        }
        if let Some(c) = cases.get(4) {
            ctx.rep.sample(c.to_json());
        }
        run_sites(&mut ctx, &cases, args.budget(6, 40));
    }

    // ---- end to end
    if !cli.is_empty() && Path::new(&cli).exists() {
        ctx.project(&corpus_project(), &cli, &scratch, 0);
        ctx.project(&corpus_project_astral(), &cli, &scratch, 0);
        ctx.project(&corpus_project_standalone(), &cli, &scratch, 0);
        ctx.project(&corpus_project_plugin(), &cli, &scratch, 0);
        ctx.project(&corpus_project_mirrored(), &cli, &scratch, 0);
        for mode in ["with-loader-ts-5.0", "with-loader-ts-4.0", "standalone-ts-4.0"] {
            ctx.project(&corpus_project_anonymous(mode), &cli, &scratch, 0);
        }
        let nproj = args.budget(40, 400);
        for i in 0..nproj {
            let p = gen_project(&mut rng);
            if i < 2 {
                ctx.rep.sample(project_to_json(&p));
            }
            ctx.project(&p, &cli, &scratch, i + 1);
        }
        // ---- generate histories (own PRNG stream: the projects above keep their cases)
        let mut hrng = Rng::new(args.seed ^ 0x6d38_6869_7374);
        for (i, h) in history::corpus().iter().enumerate() {
            ctx.history(h, &cli, &scratch, i);
        }
        for i in 0..args.budget(14, 150) {
            let h = history::gen_history(&mut hrng);
            ctx.history(&h, &cli, &scratch, 100 + i);
        }
    } else {
        ctx.rep.notes.push(format!("CLI binary {cli:?} not found: end-to-end stream skipped"));
        ctx.rep.count("e2e:skipped-no-cli");
    }
    rep.write(&args);
}
