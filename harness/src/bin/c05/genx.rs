//! C05 generators: enrichment of `nvh::gen::gen_schema` models (still valid by construction) so that every
//! type-system construct occurs, and labelled single-fault mutations (one per rule of the C05 statement,
//! at varying syntactic positions).
use nvh::gen::*;
use nvh::gm::*;
use nvh::Rng;
use std::collections::BTreeSet;

fn p0() -> P {
    P::default()
}
pub fn iv(name: &str, ty: Ty) -> InputValueDef {
    InputValueDef { desc: None, name: name.to_string(), pos: p0(), ty, default: None, dirs: vec![] }
}
pub fn fd(name: &str, ty: Ty) -> FieldDef {
    FieldDef { desc: None, name: name.to_string(), pos: p0(), args: vec![], ty, dirs: vec![] }
}
pub fn fda(name: &str, args: Vec<InputValueDef>, ty: Ty) -> FieldDef {
    FieldDef { desc: None, name: name.to_string(), pos: p0(), args, ty, dirs: vec![] }
}
pub fn ev(name: &str) -> EnumValueDef {
    EnumValueDef { desc: None, name: name.to_string(), pos: p0(), dirs: vec![] }
}
fn nm(n: &str) -> (String, P) {
    (n.to_string(), p0())
}
pub fn tdef(kind: TypeKind, name: &str) -> TypeDef {
    TypeDef::new(kind, name)
}
pub fn obj(name: &str, implements: &[&str], fields: Vec<FieldDef>) -> TsItem {
    let mut t = tdef(TypeKind::Object, name);
    t.implements = implements.iter().map(|n| nm(n)).collect();
    t.fields = fields;
    TsItem::TypeDef(t)
}
pub fn iface(name: &str, implements: &[&str], fields: Vec<FieldDef>) -> TsItem {
    let mut t = tdef(TypeKind::Interface, name);
    t.implements = implements.iter().map(|n| nm(n)).collect();
    t.fields = fields;
    TsItem::TypeDef(t)
}
pub fn dirdef(name: &str, args: Vec<InputValueDef>, repeatable: bool, locations: &[&str]) -> TsItem {
    TsItem::DirectiveDef(DirectiveDef { desc: None, name: name.into(), name_pos: p0(), args, repeatable, locations: locations.iter().map(|s| s.to_string()).collect(), pos: p0() })
}
fn int() -> Ty {
    Ty::named("Int")
}
fn s(v: &str) -> Val {
    Val::Str(v.into(), p0())
}
fn i(v: &str) -> Val {
    Val::Int(v.into(), p0())
}
/// integer literals that are no signed 32-bit values (not valid where `Int` is expected: spec 3.5.1; fix e3584a3)
pub const OUT_OF_INT32: [&str; 8] = ["2147483648", "-2147483649", "4294967296", "3000000000", "9007199254740992", "-9007199254740993", "12345678901234567890", "-9223372036854775809"];
/// integer literals that are signed 32-bit values, boundaries included
pub const IN_INT32: [&str; 7] = ["0", "-0", "2147483647", "-2147483647", "-2147483648", "1000000000", "-2000000000"];

/// the syntactic places where directives can be applied in a type-system document
#[derive(Clone, Debug)]
pub enum Site {
    Schema(usize),
    Type(usize),
    Field(usize, usize),
    FieldArg(usize, usize, usize),
    EnumValue(usize, usize),
    InputField(usize, usize),
    DirArg(usize, usize),
}

pub fn location_of_kind(k: TypeKind) -> &'static str {
    match k {
        TypeKind::Scalar => "SCALAR",
        TypeKind::Object => "OBJECT",
        TypeKind::Interface => "INTERFACE",
        TypeKind::Union => "UNION",
        TypeKind::Enum => "ENUM",
        TypeKind::Input => "INPUT_OBJECT",
    }
}

pub fn sites(items: &[TsItem]) -> Vec<(Site, &'static str, bool)> {
    // (site, location, inside an extension)
    let mut out = vec![];
    for (k, it) in items.iter().enumerate() {
        match it {
            TsItem::SchemaDef(_) => out.push((Site::Schema(k), "SCHEMA", false)),
            TsItem::SchemaExt(_) => out.push((Site::Schema(k), "SCHEMA", true)),
            TsItem::TypeDef(t) | TsItem::TypeExt(t) => {
                let ext = matches!(it, TsItem::TypeExt(_));
                out.push((Site::Type(k), location_of_kind(t.kind), ext));
                for (fi, f) in t.fields.iter().enumerate() {
                    out.push((Site::Field(k, fi), "FIELD_DEFINITION", ext));
                    for ai in 0..f.args.len() {
                        out.push((Site::FieldArg(k, fi, ai), "ARGUMENT_DEFINITION", ext));
                    }
                }
                for vi in 0..t.values.len() {
                    out.push((Site::EnumValue(k, vi), "ENUM_VALUE", ext));
                }
                for fi in 0..t.inputs.len() {
                    out.push((Site::InputField(k, fi), "INPUT_FIELD_DEFINITION", ext));
                }
            }
            TsItem::DirectiveDef(d) => {
                for ai in 0..d.args.len() {
                    out.push((Site::DirArg(k, ai), "ARGUMENT_DEFINITION", false));
                }
            }
        }
    }
    out
}

pub fn dirs_at<'a>(items: &'a mut [TsItem], site: &Site) -> &'a mut Vec<Dir> {
    match site {
        Site::Schema(k) => match &mut items[*k] {
            TsItem::SchemaDef(s) | TsItem::SchemaExt(s) => &mut s.dirs,
            _ => unreachable!(),
        },
        Site::Type(k) => match &mut items[*k] {
            TsItem::TypeDef(t) | TsItem::TypeExt(t) => &mut t.dirs,
            _ => unreachable!(),
        },
        Site::Field(k, f) => match &mut items[*k] {
            TsItem::TypeDef(t) | TsItem::TypeExt(t) => &mut t.fields[*f].dirs,
            _ => unreachable!(),
        },
        Site::FieldArg(k, f, a) => match &mut items[*k] {
            TsItem::TypeDef(t) | TsItem::TypeExt(t) => &mut t.fields[*f].args[*a].dirs,
            _ => unreachable!(),
        },
        Site::EnumValue(k, v) => match &mut items[*k] {
            TsItem::TypeDef(t) | TsItem::TypeExt(t) => &mut t.values[*v].dirs,
            _ => unreachable!(),
        },
        Site::InputField(k, f) => match &mut items[*k] {
            TsItem::TypeDef(t) | TsItem::TypeExt(t) => &mut t.inputs[*f].dirs,
            _ => unreachable!(),
        },
        Site::DirArg(k, a) => match &mut items[*k] {
            TsItem::DirectiveDef(d) => &mut d.args[*a].dirs,
            _ => unreachable!(),
        },
    }
}

fn site_class(site: &Site, loc: &str, ext: bool) -> String {
    let base = match site {
        Site::DirArg(..) => "DIRECTIVE_ARGUMENT_DEFINITION".to_string(),
        _ => loc.to_string(),
    };
    if ext {
        format!("{base}-in-extension")
    } else {
        base
    }
}

/// Enrich a `gen_schema` model, keeping it valid: directive definitions with arguments (scalars, enum,
/// input object, list), directive definitions whose arguments carry directives (chain + diamond, no
/// cycle), applications at every type-system location, a diamond of interfaces with covariant field
/// types, `@specifiedBy`, an explicit schema definition with a description and directives.
pub fn enrich(rng: &mut Rng, m: &mut SchemaModel, features: &mut BTreeSet<String>, tagged: bool) {
    let items = &mut m.doc.items;
    // input type for directive arguments
    let mut meta = tdef(TypeKind::Input, "MetaInfo");
    meta.inputs = vec![iv("k", Ty::non_null(Ty::named("String"))), iv("v", int()), {
        let mut n = iv("note", Ty::named("String"));
        n.default = Some(s("n"));
        n
    }, iv("more", Ty::list(Ty::non_null(Ty::named("MetaInfo"))))];
    items.push(TsItem::TypeDef(meta));
    let all: Vec<&str> = TS_LOCATIONS.to_vec();
    let meta_rep = rng.coin();
    items.push(dirdef(
        "meta",
        vec![iv("info", Ty::named("MetaInfo")), iv("tags", Ty::list(Ty::non_null(Ty::named("String")))), {
            let mut l = iv("level", int());
            l.default = Some(i("1"));
            l
        }, iv("ratio", Ty::named("Float")), iv("ident", Ty::named("ID")), iv("on", Ty::named("Boolean"))],
        meta_rep,
        &all,
    ));
    items.push(dirdef("flag", vec![], false, &all));
    // chain + diamond among directive definitions: top -> lvl -> flag (twice)
    let mut n_arg = iv("n", Ty::non_null(int()));
    n_arg.dirs.push(Dir::new("flag", vec![]));
    let mut k_arg = iv("kind", Ty::named("Color"));
    k_arg.dirs.push(Dir::new("flag", vec![]));
    items.push(dirdef("lvl", vec![n_arg, k_arg], false, &all));
    let mut x_arg = iv("x", int());
    x_arg.dirs.push(Dir::new("lvl", vec![Arg::new("n", i("1"))]));
    let mut y_arg = iv("y", Ty::named("MetaInfo"));
    y_arg.dirs.push(Dir::new("flag", vec![]));
    items.push(dirdef("top", vec![x_arg, y_arg], true, &all));
    features.insert("directive-def:chain+diamond".into());

    // diamond of interfaces with covariant implementations
    if rng.chance(2, 3) {
        features.insert("interfaces:diamond".into());
        items.push(iface("Base", &[], vec![fd("id", Ty::non_null(Ty::named("ID")))]));
        items.push(iface("Left", &["Base"], vec![fd("id", Ty::non_null(Ty::named("ID"))), fd("left", Ty::named("Base"))]));
        items.push(iface(
            "Right",
            &["Base"],
            vec![fd("id", Ty::non_null(Ty::named("ID"))), fda("right", vec![iv("opt", int())], Ty::list(Ty::named("Base")))],
        ));
        let mut u = tdef(TypeKind::Union, "DiamondOrNot");
        u.members = vec![nm("Diamond"), nm("Plain")];
        items.push(TsItem::TypeDef(u));
        items.push(iface("HasU", &[], vec![fd("u", Ty::named("DiamondOrNot")), fd("us", Ty::list(Ty::named("DiamondOrNot")))]));
        items.push(obj("Plain", &[], vec![fd("p", int())]));
        let mut extra = iv("extra", Ty::named("String"));
        if tagged && rng.chance(1, 6) {
            // spec: an additional argument must not be *required* (non-null without default)
            extra = iv("extra", Ty::non_null(Ty::named("String")));
            extra.default = Some(s("d"));
            features.insert("valid:impl-extra-arg-nonnull-with-default".into());
        }
        let order: Vec<&str> = if rng.coin() { vec!["Left", "Right", "Base", "HasU"] } else { vec!["HasU", "Base", "Right", "Left"] };
        items.push(obj(
            "Diamond",
            &order,
            vec![
                fd("id", Ty::non_null(Ty::named("ID"))),
                fd("left", if rng.coin() { Ty::non_null(Ty::named("Diamond")) } else { Ty::named("Left") }),
                fda("right", vec![iv("opt", int()), extra], Ty::list(Ty::non_null(Ty::named("Diamond")))),
                fd("u", if rng.coin() { Ty::named("Diamond") } else { Ty::non_null(Ty::named("DiamondOrNot")) }),
                fd("us", Ty::non_null(Ty::list(Ty::non_null(Ty::named("Plain"))))),
            ],
        ));
    }
    // explicit schema definition (needed for the SCHEMA location)
    if !items.iter().any(|i| matches!(i, TsItem::SchemaDef(_))) && rng.coin() {
        let mut roots = vec![(OpKind::Query, m.query.clone(), p0())];
        if let Some(x) = &m.mutation {
            roots.push((OpKind::Mutation, x.clone(), p0()));
        }
        if let Some(x) = &m.subscription {
            roots.push((OpKind::Subscription, x.clone(), p0()));
        }
        items.insert(0, TsItem::SchemaDef(SchemaDef { desc: None, dirs: vec![], roots, pos: p0() }));
    }
    for it in items.iter_mut() {
        if let TsItem::SchemaDef(sd) = it {
            if rng.chance(1, 3) {
                sd.desc = Some("the schema".into());
                features.insert("schema:description".into());
            }
            features.insert("schema:explicit".into());
        }
        if let TsItem::DirectiveDef(d) = it {
            if d.desc.is_none() && rng.chance(1, 4) {
                d.desc = Some("a directive".into());
            }
        }
    }
    // applications at every location
    let all_sites = sites(items);
    for (site, loc, _) in all_sites {
        // never decorate the arguments of the directive definitions themselves (would create cycles)
        if matches!(site, Site::DirArg(..)) {
            continue;
        }
        if !rng.chance(1, 4) {
            continue;
        }
        let choice = rng.below(8);
        let mut new: Vec<Dir> = vec![];
        match choice {
            0 => new.push(Dir::new("flag", vec![])),
            1 => new.push(Dir::new("meta", vec![])),
            2 => {
                let mut fs = vec![Arg::new("k", s("a"))];
                if rng.coin() {
                    fs.push(Arg::new("v", if rng.coin() { i("1") } else { Val::Null(p0()) }));
                }
                if rng.chance(1, 3) {
                    fs.push(Arg::new("more", Val::List(vec![Val::Obj(vec![Arg::new("k", s("b"))], p0())], p0())));
                }
                let mut args = vec![Arg::new("info", Val::Obj(fs, p0()))];
                if rng.coin() {
                    args.push(Arg::new("tags", Val::List(vec![s("x"), s("y")], p0())));
                }
                if rng.coin() {
                    args.push(Arg::new("level", i("2")));
                }
                if rng.chance(1, 3) {
                    args.push(Arg::new("ratio", Val::Float("1.5".into(), p0())));
                    args.push(Arg::new("ident", s("id-1")));
                    args.push(Arg::new("on", Val::Bool(true, p0())));
                }
                rng.shuffle(&mut args);
                new.push(Dir::new("meta", args));
            }
            3 => new.push(Dir::new("meta", vec![Arg::new("info", Val::Null(p0())), Arg::new("tags", Val::Null(p0()))])),
            4 => new.push(Dir::new("lvl", vec![Arg::new("n", i("3"))])),
            5 => new.push(Dir::new("lvl", vec![Arg::new("kind", Val::Enum("RED".into(), p0())), Arg::new("n", i("0"))])),
            6 => {
                new.push(Dir::new("top", vec![Arg::new("x", i("1"))]));
                new.push(Dir::new("top", vec![]));
                features.insert("directive:repeatable-twice".into());
            }
            _ => {
                if meta_rep {
                    new.push(Dir::new("meta", vec![Arg::new("level", i("1"))]));
                    new.push(Dir::new("meta", vec![Arg::new("level", i("2"))]));
                    features.insert("directive:repeatable-twice".into());
                } else {
                    new.push(Dir::new("flag", vec![]));
                    new.push(Dir::new("meta", vec![]));
                }
            }
        }
        if tagged && rng.chance(1, 40) {
            // spec input coercions the checker is known (C04 rows l, m) not to implement
            match rng.below(3) {
                0 => {
                    new = vec![Dir::new("meta", vec![Arg::new("ratio", i("1"))])];
                    features.insert("valid:coercion-int-for-float".into());
                }
                1 => {
                    new = vec![Dir::new("meta", vec![Arg::new("ident", i("7"))])];
                    features.insert("valid:coercion-int-for-id".into());
                }
                _ => {
                    new = vec![Dir::new("meta", vec![Arg::new("tags", s("single"))])];
                    features.insert("valid:coercion-item-for-list".into());
                }
            }
        }
        if tagged && rng.chance(1, 12) {
            // numeric boundaries (fix e3584a3 must not make the check stricter than the specification): 32-bit boundary
            // values where Int is expected (argument, input field), integers of any size for Float and ID
            let inb = |rng: &mut Rng| i(IN_INT32[rng.below(IN_INT32.len())]);
            let big = |rng: &mut Rng| i(OUT_OF_INT32[rng.below(OUT_OF_INT32.len())]);
            match rng.below(4) {
                0 => {
                    new = vec![Dir::new("meta", vec![Arg::new("level", inb(rng)), Arg::new("info", Val::Obj(vec![Arg::new("k", s("a")), Arg::new("v", inb(rng))], p0()))])];
                    features.insert("valid:int-32-bit-boundary(argument+input-field)".into());
                }
                1 => {
                    new = vec![Dir::new("lvl", vec![Arg::new("n", inb(rng))])];
                    features.insert("valid:int-32-bit-boundary(non-null-argument)".into());
                }
                2 => {
                    new = vec![Dir::new("meta", vec![Arg::new("ratio", big(rng)), Arg::new("level", inb(rng))])];
                    features.insert("valid:integer-beyond-32-bit-for-float".into());
                }
                _ => {
                    new = vec![Dir::new("meta", vec![Arg::new("ident", big(rng))])];
                    features.insert("valid:integer-beyond-32-bit-for-id".into());
                }
            }
        }
        // the types that directive arguments refer to (and their members) only get the argument-less @flag:
        // anything else could close a cycle through a directive definition
        let owner = match &site {
            Site::Type(k) | Site::Field(k, _) | Site::FieldArg(k, _, _) | Site::EnumValue(k, _) | Site::InputField(k, _) => items[*k].name().unwrap_or("").to_string(),
            _ => String::new(),
        };
        if owner == "Color" || owner == "MetaInfo" {
            new = vec![Dir::new("flag", vec![])];
        }
        let ds = dirs_at(items, &site);
        // keep non-repeatable directives unique per site
        for d in new {
            let rep = d.name == "top" || (d.name == "meta" && meta_rep);
            if rep || !ds.iter().any(|x| x.name == d.name) {
                ds.push(d);
            }
        }
        features.insert(format!("directive-at:{loc}"));
    }
    // @specifiedBy on custom scalars, @deprecated on arguments / input fields
    for it in items.iter_mut() {
        if let TsItem::TypeDef(t) = it {
            if t.kind == TypeKind::Scalar && rng.chance(1, 3) && !t.dirs.iter().any(|d| d.name == "specifiedBy") {
                t.dirs.push(Dir::new("specifiedBy", vec![Arg::new("url", s("https://example.com/spec"))]));
                features.insert("directive:specifiedBy".into());
            }
            for f in t.inputs.iter_mut() {
                if !f.ty.is_non_null() && rng.chance(1, 8) && !f.dirs.iter().any(|d| d.name == "deprecated") {
                    f.dirs.push(Dir::new("deprecated", vec![]));
                }
            }
            for f in t.fields.iter_mut() {
                for a in f.args.iter_mut() {
                    if !a.ty.is_non_null() && rng.chance(1, 8) && !a.dirs.iter().any(|d| d.name == "deprecated") {
                        a.dirs.push(Dir::new("deprecated", vec![Arg::new("reason", s("gone"))]));
                    }
                }
            }
        }
    }
    for it in items.iter() {
        if let TsItem::TypeDef(t) = it {
            features.insert(format!("kind:{}", t.kind.as_str()));
            if t.kind == TypeKind::Interface && !t.implements.is_empty() {
                features.insert("interfaces:chain".into());
            }
            if t.desc.is_some() {
                features.insert("description".into());
            }
        }
    }
}

/// extra extension items (kept valid): `extend schema @flag`, a directive moved into an `extend` item
pub fn more_extensions(rng: &mut Rng, doc: &mut TsDoc, features: &mut BTreeSet<String>) {
    let has_schema = doc.items.iter().any(|i| matches!(i, TsItem::SchemaDef(s) if !s.dirs.iter().any(|d| d.name == "flag")));
    if has_schema && rng.chance(1, 3) {
        let at = rng.below(doc.items.len() + 1);
        doc.items.insert(at, TsItem::SchemaExt(SchemaDef { desc: None, dirs: vec![Dir::new("flag", vec![])], roots: vec![], pos: p0() }));
        features.insert("extension:schema".into());
    }
    for it in doc.items.iter() {
        if let TsItem::TypeExt(t) = it {
            features.insert(format!("extension:{}", t.kind.as_str()));
        }
    }
}

// ---------------------------------------------------------------------------------------------------
// mutations

fn type_items(items: &[TsItem], kind: TypeKind, defs_only: bool) -> Vec<usize> {
    items
        .iter()
        .enumerate()
        .filter(|(_, i)| match i {
            TsItem::TypeDef(t) => t.kind == kind,
            TsItem::TypeExt(t) => !defs_only && t.kind == kind,
            _ => false,
        })
        .map(|(k, _)| k)
        .collect()
}
fn tmut(items: &mut [TsItem], k: usize) -> &mut TypeDef {
    match &mut items[k] {
        TsItem::TypeDef(t) | TsItem::TypeExt(t) => t,
        _ => unreachable!(),
    }
}
fn tref(items: &[TsItem], k: usize) -> &TypeDef {
    match &items[k] {
        TsItem::TypeDef(t) | TsItem::TypeExt(t) => t,
        _ => unreachable!(),
    }
}
fn is_ext(items: &[TsItem], k: usize) -> bool {
    matches!(items[k], TsItem::TypeExt(_))
}
fn insert_at_random(rng: &mut Rng, items: &mut Vec<TsItem>, it: TsItem) {
    let at = rng.below(items.len() + 1);
    items.insert(at, it);
}
fn ext_of(kind: TypeKind, name: &str) -> TypeDef {
    TypeDef::new(kind, name)
}
fn name_of_kind(items: &[TsItem], kind: TypeKind, rng: &mut Rng) -> Option<String> {
    let c = type_items(items, kind, true);
    if c.is_empty() {
        None
    } else {
        Some(tref(items, c[rng.below(c.len())]).name.clone())
    }
}
fn wrap_some(rng: &mut Rng, t: Ty) -> Ty {
    match rng.below(4) {
        0 => t,
        1 => Ty::non_null(t),
        2 => Ty::list(t),
        _ => Ty::non_null(Ty::list(Ty::non_null(t))),
    }
}

pub const RULES: [&str; 23] = [
    "reserved-names",
    "dup-fields",
    "dup-args",
    "dup-enum-values",
    "dup-union-members",
    "dup-type-defs",
    "unknown-types",
    "input-in-output",
    "output-in-input",
    "implements-non-interface",
    "implements-self",
    "missing-transitive",
    "iface-field-missing",
    "iface-field-type",
    "iface-field-args",
    "union-member-non-object",
    "directive-unknown",
    "directive-location",
    "directive-repeated",
    "directive-args",
    "directive-recursion",
    "unique-type-names",
    "unique-directive-names",
];

/// diagnostics kinds that count for a rule (DESIGN.md Appendix C)
pub fn kinds_of_rule(rule: &str) -> &'static [&'static str] {
    match rule {
        "reserved-names" => &["UnscoUnsco"],
        "dup-fields" | "dup-args" | "dup-enum-values" | "dup-union-members" => &["DuplicatedName"],
        "dup-type-defs" => &["DuplicateOriginal"],
        "unknown-types" => &["UnknownType"],
        "input-in-output" => &["NoInputType"],
        "output-in-input" => &["NoOutputType"],
        "implements-non-interface" => &["NotInterface"],
        "implements-self" => &["NoImplementSelf"],
        "missing-transitive" => &["InterfaceNotImplemented"],
        "iface-field-missing" => &["InterfaceFieldNotImplemented"],
        "iface-field-type" => &["FieldTypeMisMatchWithInterface"],
        "iface-field-args" => &["InterfaceArgumentNotImplemented", "ArgumentTypeMisMatchWithInterface", "ArgumentTypeNonNullAgainstInterface"],
        "union-member-non-object" => &["NonObjectTypeUnionMember"],
        "directive-unknown" => &["UnknownDirective"],
        "directive-location" => &["DirectiveLocationNotAllowed"],
        "directive-repeated" => &["RepeatedDirective"],
        "directive-args" => &["ArgumentsNotNeeded", "RequiredArgumentNotSpecified", "UnknownArgument", "TypeMismatch", "UnknownEnumMember", "UnknownVariable", "DuplicatedName"],
        "directive-recursion" => &["RecursingDirective"],
        // fix 8cdbacf (`check_unique_names`); a repeated name of ONE kind is stopped earlier by the resolver
        "unique-type-names" => &["DuplicatedName", "DuplicateOriginal"],
        "unique-directive-names" => &["DuplicatedName"],
        _ => &[],
    }
}

/// add a gadget type to the document, either as one definition or split into definition + extension
/// (`split` moves the listed components into an `extend` item)
fn push_split(rng: &mut Rng, items: &mut Vec<TsItem>, mut base: TypeDef, ext: Option<TypeDef>) {
    match ext {
        None => insert_at_random(rng, items, TsItem::TypeDef(base)),
        Some(e) => {
            base.pos = p0();
            insert_at_random(rng, items, TsItem::TypeDef(base));
            insert_at_random(rng, items, TsItem::TypeExt(e));
        }
    }
}

/// Apply one fault for `rule`; returns the position class, or None if this document offers no place.
pub fn mutate(rng: &mut Rng, items: &mut Vec<TsItem>, rule: &str) -> Option<String> {
    let all: Vec<&str> = TS_LOCATIONS.to_vec();
    match rule {
        "reserved-names" => match rng.below(9) {
            0 => {
                let kind = [TypeKind::Scalar, TypeKind::Object, TypeKind::Interface, TypeKind::Union, TypeKind::Enum, TypeKind::Input][rng.below(6)];
                let mut t = tdef(kind, "__Reserved");
                match kind {
                    TypeKind::Object | TypeKind::Interface => t.fields = vec![fd("a", int())],
                    TypeKind::Union => t.members = vec![nm(&name_of_kind(items, TypeKind::Object, rng)?)],
                    TypeKind::Enum => t.values = vec![ev("A")],
                    TypeKind::Input => t.inputs = vec![iv("a", int())],
                    TypeKind::Scalar => {}
                }
                insert_at_random(rng, items, TsItem::TypeDef(t));
                Some(format!("type-name:{}", kind.as_str()))
            }
            1 => {
                let c = type_items(items, TypeKind::Object, false);
                let k = c[rng.below(c.len())];
                let at = rng.below(tref(items, k).fields.len() + 1);
                tmut(items, k).fields.insert(at, fd("__f", int()));
                Some(if is_ext(items, k) { "object-field-in-extension".into() } else { "object-field".into() })
            }
            2 => {
                if rng.coin() {
                    push_split(rng, items, {
                        let mut t = tdef(TypeKind::Interface, "RI");
                        t.fields = vec![fd("__g", int())];
                        t
                    }, None);
                    Some("interface-field".into())
                } else {
                    let mut b = tdef(TypeKind::Interface, "RI");
                    b.fields = vec![fd("a", int())];
                    let mut e = ext_of(TypeKind::Interface, "RI");
                    e.fields = vec![fd("__g", int())];
                    push_split(rng, items, b, Some(e));
                    Some("interface-field-in-extension".into())
                }
            }
            3 => {
                let c = type_items(items, TypeKind::Object, false);
                let k = c[rng.below(c.len())];
                let nf = tref(items, k).fields.len();
                if nf == 0 {
                    return None;
                }
                let f = rng.below(nf);
                tmut(items, k).fields[f].args.push(iv("__a", int()));
                Some("object-field-argument".into())
            }
            4 => {
                let mut t = tdef(TypeKind::Interface, "RI");
                t.fields = vec![fda("g", vec![iv("ok", int()), iv("__a", int())], int())];
                insert_at_random(rng, items, TsItem::TypeDef(t));
                Some("interface-field-argument".into())
            }
            5 => {
                let c = type_items(items, TypeKind::Input, false);
                let k = c[rng.below(c.len())];
                tmut(items, k).inputs.push(iv("__i", int()));
                Some(if is_ext(items, k) { "input-field-in-extension".into() } else { "input-field".into() })
            }
            6 => {
                let c = type_items(items, TypeKind::Enum, false);
                let k = c[rng.below(c.len())];
                let at = rng.below(tref(items, k).values.len() + 1);
                tmut(items, k).values.insert(at, ev("__V"));
                Some(if is_ext(items, k) { "enum-value-in-extension".into() } else { "enum-value".into() })
            }
            7 => {
                insert_at_random(rng, items, dirdef("__d", vec![], false, &["OBJECT"]));
                Some("directive-name".into())
            }
            _ => {
                insert_at_random(rng, items, dirdef("rd", vec![iv("fine", int()), iv("__a", int())], false, &["OBJECT"]));
                Some("directive-argument".into())
            }
        },
        "dup-fields" => {
            let kind = [TypeKind::Object, TypeKind::Interface, TypeKind::Input][rng.below(3)];
            let c = type_items(items, kind, true);
            if c.is_empty() {
                return None;
            }
            let k = c[rng.below(c.len())];
            let name = tref(items, k).name.clone();
            let in_ext = rng.coin();
            if kind == TypeKind::Input {
                if tref(items, k).inputs.is_empty() {
                    return None;
                }
                let f = tref(items, k).inputs[rng.below(tref(items, k).inputs.len())].clone();
                if in_ext {
                    let mut e = ext_of(kind, &name);
                    e.inputs = vec![f];
                    insert_at_random(rng, items, TsItem::TypeExt(e));
                } else {
                    tmut(items, k).inputs.push(f);
                }
            } else {
                if tref(items, k).fields.is_empty() {
                    return None;
                }
                let f = tref(items, k).fields[rng.below(tref(items, k).fields.len())].clone();
                if in_ext {
                    let mut e = ext_of(kind, &name);
                    e.fields = vec![f];
                    insert_at_random(rng, items, TsItem::TypeExt(e));
                } else {
                    let at = rng.below(tref(items, k).fields.len() + 1);
                    tmut(items, k).fields.insert(at, f);
                }
            }
            Some(format!("{}{}", kind.as_str(), if in_ext { "-in-extension" } else { "" }))
        }
        "dup-args" => match rng.below(3) {
            0 => {
                // an existing field with arguments, else a new field
                let kind = if rng.coin() { TypeKind::Object } else { TypeKind::Interface };
                let c = type_items(items, kind, false);
                let mut cands = vec![];
                for &k in &c {
                    for (fi, f) in tref(items, k).fields.iter().enumerate() {
                        if !f.args.is_empty() {
                            cands.push((k, fi));
                        }
                    }
                }
                if cands.is_empty() {
                    let c = type_items(items, TypeKind::Object, true);
                    let k = c[rng.below(c.len())];
                    tmut(items, k).fields.push(fda("dupf", vec![iv("a", int()), iv("a", Ty::named("String"))], int()));
                    return Some("object-field(new)".into());
                }
                let (k, fi) = cands[rng.below(cands.len())];
                let a = tref(items, k).fields[fi].args[0].clone();
                tmut(items, k).fields[fi].args.push(a);
                Some(format!("{}-field{}", kind.as_str(), if is_ext(items, k) { "-in-extension" } else { "" }))
            }
            1 => {
                insert_at_random(rng, items, dirdef("da", vec![iv("a", int()), iv("b", int()), iv("a", int())], false, &["OBJECT"]));
                Some("directive-definition".into())
            }
            _ => {
                let mut t = tdef(TypeKind::Interface, "DAI");
                t.fields = vec![fda("g", vec![iv("x", int()), iv("x", int())], int())];
                insert_at_random(rng, items, TsItem::TypeDef(t));
                Some("interface-field(new)".into())
            }
        },
        "dup-enum-values" => {
            let c = type_items(items, TypeKind::Enum, true);
            let k = c[rng.below(c.len())];
            let name = tref(items, k).name.clone();
            let v = tref(items, k).values[rng.below(tref(items, k).values.len())].clone();
            if rng.coin() {
                let mut e = ext_of(TypeKind::Enum, &name);
                e.values = vec![v];
                insert_at_random(rng, items, TsItem::TypeExt(e));
                Some("in-extension".into())
            } else {
                tmut(items, k).values.push(v);
                Some("in-definition".into())
            }
        }
        "dup-union-members" => {
            let c = type_items(items, TypeKind::Union, true);
            let (k, name) = if c.is_empty() {
                let mut u = tdef(TypeKind::Union, "DupU");
                u.members = vec![nm(&name_of_kind(items, TypeKind::Object, rng)?)];
                items.push(TsItem::TypeDef(u));
                (items.len() - 1, "DupU".to_string())
            } else {
                let k = c[rng.below(c.len())];
                (k, tref(items, k).name.clone())
            };
            let mem = tref(items, k).members[rng.below(tref(items, k).members.len())].clone();
            if rng.coin() {
                let mut e = ext_of(TypeKind::Union, &name);
                e.members = vec![mem];
                insert_at_random(rng, items, TsItem::TypeExt(e));
                Some("in-extension".into())
            } else {
                tmut(items, k).members.push(mem);
                Some("in-definition".into())
            }
        }
        "dup-type-defs" => {
            if rng.chance(1, 7) {
                let sd = items.iter().find_map(|i| if let TsItem::SchemaDef(s) = i { Some(s.clone()) } else { None });
                let sd = match sd {
                    Some(s) => s,
                    None => {
                        let q = items.iter().find_map(|i| match i {
                            TsItem::TypeDef(t) if t.kind == TypeKind::Object && (t.name == "Query" || t.name == "RootQuery") => Some(t.name.clone()),
                            _ => None,
                        })?;
                        let s = SchemaDef { desc: None, dirs: vec![], roots: vec![(OpKind::Query, q, p0())], pos: p0() };
                        items.push(TsItem::SchemaDef(s.clone()));
                        s
                    }
                };
                insert_at_random(rng, items, TsItem::SchemaDef(sd));
                return Some("schema".into());
            }
            let kind = [TypeKind::Scalar, TypeKind::Object, TypeKind::Interface, TypeKind::Union, TypeKind::Enum, TypeKind::Input][rng.below(6)];
            let c = type_items(items, kind, true);
            if c.is_empty() {
                return None;
            }
            let k = c[rng.below(c.len())];
            let mut copy = tref(items, k).clone();
            copy.desc = None;
            insert_at_random(rng, items, TsItem::TypeDef(copy));
            Some(format!("kind:{}", kind.as_str()))
        }
        "unknown-types" => {
            let nope = |rng: &mut Rng| wrap_some(rng, Ty::named("Nope"));
            match rng.below(10) {
                0 => {
                    let c = type_items(items, TypeKind::Object, false);
                    let k = c[rng.below(c.len())];
                    let t = nope(rng);
                    tmut(items, k).fields.push(fd("unk", t));
                    Some(if is_ext(items, k) { "object-field-in-extension".into() } else { "object-field".into() })
                }
                1 => {
                    let in_ext = rng.coin();
                    let t = nope(rng);
                    if in_ext {
                        let mut b = tdef(TypeKind::Interface, "QI");
                        b.fields = vec![fd("a", int())];
                        let mut e = ext_of(TypeKind::Interface, "QI");
                        e.fields = vec![fd("q", t)];
                        push_split(rng, items, b, Some(e));
                        Some("interface-field-in-extension".into())
                    } else {
                        let mut b = tdef(TypeKind::Interface, "QI");
                        b.fields = vec![fd("a", int()), fd("q", t)];
                        push_split(rng, items, b, None);
                        Some("interface-field".into())
                    }
                }
                2 => {
                    let c = type_items(items, TypeKind::Object, false);
                    let k = c[rng.below(c.len())];
                    let nf = tref(items, k).fields.len();
                    if nf == 0 {
                        return None;
                    }
                    let f = rng.below(nf);
                    let t = nope(rng);
                    tmut(items, k).fields[f].args.push(iv("unk", t));
                    Some("object-field-argument".into())
                }
                3 => {
                    let mut t = tdef(TypeKind::Interface, "QI");
                    let ty = nope(rng);
                    t.fields = vec![fda("g", vec![iv("x", ty)], int())];
                    insert_at_random(rng, items, TsItem::TypeDef(t));
                    Some("interface-field-argument".into())
                }
                4 => {
                    let c = type_items(items, TypeKind::Input, false);
                    let k = c[rng.below(c.len())];
                    let t = nope(rng);
                    tmut(items, k).inputs.push(iv("unk", t));
                    Some(if is_ext(items, k) { "input-field-in-extension".into() } else { "input-field".into() })
                }
                5 => {
                    let t = nope(rng);
                    insert_at_random(rng, items, dirdef("ud", vec![iv("x", t)], false, &["OBJECT"]));
                    Some("directive-argument".into())
                }
                6 => {
                    let c = type_items(items, TypeKind::Object, false);
                    let k = c[rng.below(c.len())];
                    tmut(items, k).implements.push(nm("Nope"));
                    Some(if is_ext(items, k) { "object-implements-in-extension".into() } else { "object-implements".into() })
                }
                7 => {
                    let mut t = tdef(TypeKind::Interface, "QI");
                    t.implements = vec![nm("Nope")];
                    t.fields = vec![fd("a", int())];
                    insert_at_random(rng, items, TsItem::TypeDef(t));
                    Some("interface-implements".into())
                }
                8 => {
                    let c = type_items(items, TypeKind::Union, false);
                    if c.is_empty() {
                        let mut u = tdef(TypeKind::Union, "QU");
                        u.members = vec![nm(&name_of_kind(items, TypeKind::Object, rng)?), nm("Nope")];
                        insert_at_random(rng, items, TsItem::TypeDef(u));
                        return Some("union-member".into());
                    }
                    let k = c[rng.below(c.len())];
                    tmut(items, k).members.push(nm("Nope"));
                    Some(if is_ext(items, k) { "union-member-in-extension".into() } else { "union-member".into() })
                }
                _ => {
                    for it in items.iter_mut() {
                        if let TsItem::SchemaDef(s) = it {
                            if s.roots.iter().any(|r| r.0 == OpKind::Subscription) {
                                return None;
                            }
                            s.roots.push((OpKind::Subscription, "Nope".into(), p0()));
                            return Some("root-operation-type".into());
                        }
                    }
                    None
                }
            }
        }
        "input-in-output" => {
            let inp = name_of_kind(items, TypeKind::Input, rng)?;
            let ty = wrap_some(rng, Ty::named(&inp));
            if rng.coin() {
                let c = type_items(items, TypeKind::Object, false);
                let k = c[rng.below(c.len())];
                tmut(items, k).fields.push(fd("bad", ty));
                Some(if is_ext(items, k) { "object-field-in-extension".into() } else { "object-field".into() })
            } else {
                let mut t = tdef(TypeKind::Interface, "IOI");
                t.fields = vec![fd("bad", ty)];
                insert_at_random(rng, items, TsItem::TypeDef(t));
                Some("interface-field".into())
            }
        }
        "output-in-input" => {
            let kind = [TypeKind::Object, TypeKind::Interface, TypeKind::Union][rng.below(3)];
            let out = name_of_kind(items, kind, rng).or_else(|| name_of_kind(items, TypeKind::Object, rng))?;
            let ty = wrap_some(rng, Ty::named(&out));
            match rng.below(4) {
                0 => {
                    let c = type_items(items, TypeKind::Object, false);
                    let k = c[rng.below(c.len())];
                    let nf = tref(items, k).fields.len();
                    if nf == 0 {
                        return None;
                    }
                    let f = rng.below(nf);
                    tmut(items, k).fields[f].args.push(iv("bad", ty));
                    Some("object-field-argument".into())
                }
                1 => {
                    let mut t = tdef(TypeKind::Interface, "OII");
                    t.fields = vec![fda("g", vec![iv("bad", ty)], int())];
                    insert_at_random(rng, items, TsItem::TypeDef(t));
                    Some("interface-field-argument".into())
                }
                2 => {
                    let c = type_items(items, TypeKind::Input, false);
                    let k = c[rng.below(c.len())];
                    tmut(items, k).inputs.push(iv("bad", ty));
                    Some(if is_ext(items, k) { "input-field-in-extension".into() } else { "input-field".into() })
                }
                _ => {
                    insert_at_random(rng, items, dirdef("od", vec![iv("bad", ty)], false, &["OBJECT"]));
                    Some("directive-argument".into())
                }
            }
        }
        "implements-non-interface" => {
            let kind = [TypeKind::Object, TypeKind::Union, TypeKind::Scalar, TypeKind::Enum, TypeKind::Input][rng.below(5)];
            let target = name_of_kind(items, kind, rng).or_else(|| name_of_kind(items, TypeKind::Object, rng))?;
            if rng.coin() {
                let c = type_items(items, TypeKind::Object, false);
                let cands: Vec<usize> = c.into_iter().filter(|&k| tref(items, k).name != target).collect();
                if cands.is_empty() {
                    return None;
                }
                let k = cands[rng.below(cands.len())];
                tmut(items, k).implements.push(nm(&target));
                Some(format!("object{}", if is_ext(items, k) { "-in-extension" } else { "" }))
            } else {
                let mut t = tdef(TypeKind::Interface, "NII");
                t.implements = vec![nm(&target)];
                t.fields = vec![fd("a", int())];
                insert_at_random(rng, items, TsItem::TypeDef(t));
                Some("interface".into())
            }
        }
        "implements-self" => {
            if rng.coin() {
                let mut t = tdef(TypeKind::Interface, "SI");
                t.implements = vec![nm("SI")];
                t.fields = vec![fd("a", int())];
                insert_at_random(rng, items, TsItem::TypeDef(t));
                Some("in-definition".into())
            } else {
                let mut b = tdef(TypeKind::Interface, "SI");
                b.fields = vec![fd("a", int())];
                let mut e = ext_of(TypeKind::Interface, "SI");
                e.implements = vec![nm("SI")];
                e.fields = vec![fd("b", int())];
                push_split(rng, items, b, Some(e));
                Some("in-extension".into())
            }
        }
        "missing-transitive" => {
            insert_at_random(rng, items, iface("TA", &[], vec![fd("a", int())]));
            insert_at_random(rng, items, iface("TB", &["TA"], vec![fd("a", int())]));
            if rng.coin() {
                insert_at_random(rng, items, obj("TC", &["TB"], vec![fd("a", int())]));
                Some("object".into())
            } else {
                insert_at_random(rng, items, iface("TC", &["TB"], vec![fd("a", int())]));
                Some("interface".into())
            }
        }
        "iface-field-missing" => {
            insert_at_random(rng, items, iface("FA", &[], vec![fd("a", int()), fd("b", int())]));
            match rng.below(3) {
                0 => {
                    insert_at_random(rng, items, obj("FC", &["FA"], vec![fd("a", int())]));
                    Some("object".into())
                }
                1 => {
                    insert_at_random(rng, items, iface("FC", &["FA"], vec![fd("a", int())]));
                    Some("interface".into())
                }
                _ => {
                    // implements declared in an extension, field missing
                    insert_at_random(rng, items, obj("FC", &[], vec![fd("a", int())]));
                    let mut e = ext_of(TypeKind::Object, "FC");
                    e.implements = vec![nm("FA")];
                    e.fields = vec![fd("c", int())];
                    insert_at_random(rng, items, TsItem::TypeExt(e));
                    Some("object-implements-in-extension".into())
                }
            }
        }
        "iface-field-type" => {
            let o1 = name_of_kind(items, TypeKind::Object, rng)?;
            let user = Ty::named(&o1);
            // (field type, interface field type, class)
            let mut pairs: Vec<(Ty, Ty, &str)> = vec![
                (int(), Ty::non_null(int()), "nullable-for-non-null"),
                (Ty::list(int()), int(), "list-for-named"),
                (int(), Ty::list(int()), "named-for-list"),
                (Ty::named("String"), int(), "other-scalar"),
                (Ty::list(Ty::named("String")), Ty::list(int()), "list-item-mismatch"),
                (Ty::non_null(Ty::list(int())), Ty::list(Ty::non_null(int())), "inner-nullability"),
                (Ty::named("IFT_I"), user.clone(), "interface-for-object"),
                (user.clone(), Ty::named("IFT_Other"), "object-for-unrelated-interface"),
                (Ty::named("IFT_I"), Ty::named("IFT_U"), "interface-for-union"),
            ];
            let (ft, it, class) = pairs.swap_remove(rng.below(pairs.len()));
            insert_at_random(rng, items, iface("IFT_Other", &[], vec![fd("z", int())]));
            let mut u = tdef(TypeKind::Union, "IFT_U");
            u.members = vec![nm(&o1)];
            insert_at_random(rng, items, TsItem::TypeDef(u));
            insert_at_random(rng, items, iface("IFT_I", &[], vec![fd("g", it)]));
            if rng.coin() {
                insert_at_random(rng, items, obj("IFT_O", &["IFT_I"], vec![fd("g", ft)]));
                Some(format!("object:{class}"))
            } else {
                insert_at_random(rng, items, iface("IFT_O", &["IFT_I"], vec![fd("g", ft)]));
                Some(format!("interface:{class}"))
            }
        }
        "iface-field-args" => {
            // IsValidImplementation 2.c / 2.d over the shape of both sides (c05/implx.rs): an operator applied to an
            // implementing field that exists in the generated schema, or a self-contained gadget
            if rng.coin() {
                if let Some((class, _)) = crate::implx::mutate_existing_pair(rng, items, true) {
                    return Some(class);
                }
            }
            let g = crate::implx::impl_gadget(rng, true);
            for it in g.items {
                insert_at_random(rng, items, it);
            }
            Some(g.class)
        }
        "union-member-non-object" => {
            let kind = [TypeKind::Interface, TypeKind::Scalar, TypeKind::Enum, TypeKind::Input, TypeKind::Union][rng.below(5)];
            let target = name_of_kind(items, kind, rng)?;
            let c = type_items(items, TypeKind::Union, false);
            let cands: Vec<usize> = c.into_iter().filter(|&k| tref(items, k).name != target).collect();
            if cands.is_empty() || rng.chance(1, 3) {
                let mut u = tdef(TypeKind::Union, "NOU");
                u.members = vec![nm(&name_of_kind(items, TypeKind::Object, rng)?), nm(&target)];
                insert_at_random(rng, items, TsItem::TypeDef(u));
                return Some(format!("member:{}", kind.as_str()));
            }
            let k = cands[rng.below(cands.len())];
            tmut(items, k).members.push(nm(&target));
            Some(format!("member:{}{}", kind.as_str(), if is_ext(items, k) { "-in-extension" } else { "" }))
        }
        "directive-unknown" => {
            let ss = sites(items);
            let (site, loc, ext) = ss[rng.below(ss.len())].clone();
            let d = if rng.coin() { Dir::new("nope", vec![]) } else { Dir::new("nope", vec![Arg::new("x", i("1"))]) };
            let ds = dirs_at(items, &site);
            let at = rng.below(ds.len() + 1);
            ds.insert(at, d);
            Some(site_class(&site, loc, ext))
        }
        "directive-location" => {
            let ss = sites(items);
            let (site, loc, ext) = ss[rng.below(ss.len())].clone();
            let dep_ok = ["FIELD_DEFINITION", "ARGUMENT_DEFINITION", "INPUT_FIELD_DEFINITION", "ENUM_VALUE"].contains(&loc);
            let d = match rng.below(3) {
                0 if !dep_ok => Dir::new("deprecated", vec![]),
                1 => Dir::new("skip", vec![Arg::new("if", Val::Bool(true, p0()))]),
                _ => {
                    if !items.iter().any(|i| matches!(i, TsItem::DirectiveDef(d) if d.name == "onlyq")) {
                        items.push(dirdef("onlyq", vec![], false, &["QUERY", "FIELD"]));
                    }
                    Dir::new("onlyq", vec![])
                }
            };
            let ds = dirs_at(items, &site);
            if ds.iter().any(|x| x.name == d.name) {
                return None;
            }
            ds.push(d);
            Some(site_class(&site, loc, ext))
        }
        "directive-repeated" => {
            items.push(dirdef("once", vec![iv("n", int())], false, &all));
            let ss = sites(items);
            let (site, loc, ext) = ss[rng.below(ss.len())].clone();
            // type-level sites: optionally one application in the definition and one in an extension
            if let Site::Type(k) = site {
                if !ext && rng.coin() {
                    let (kind, name) = (tref(items, k).kind, tref(items, k).name.clone());
                    tmut(items, k).dirs.push(Dir::new("once", vec![]));
                    let mut e = ext_of(kind, &name);
                    e.dirs = vec![Dir::new("once", vec![Arg::new("n", i("2"))])];
                    insert_at_random(rng, items, TsItem::TypeExt(e));
                    return Some(format!("{loc}-definition+extension"));
                }
            }
            let ds = dirs_at(items, &site);
            ds.push(Dir::new("once", vec![]));
            let at = rng.below(ds.len() + 1);
            ds.insert(at, Dir::new("once", vec![Arg::new("n", i("1"))]));
            Some(site_class(&site, loc, ext))
        }
        "directive-args" => {
            let mut arin = tdef(TypeKind::Input, "ArIn");
            arin.inputs = vec![iv("k", Ty::non_null(Ty::named("String"))), iv("v", int())];
            items.push(TsItem::TypeDef(arin));
            items.push(dirdef("ar", vec![iv("n", Ty::non_null(int())), iv("e", Ty::named("Color")), iv("i", Ty::named("ArIn")), iv("l", Ty::list(int()))], true, &all));
            items.push(dirdef("noargs", vec![], true, &all));
            let n1 = || Arg::new("n", i("1"));
            let ob = |fs: Vec<Arg>| Val::Obj(fs, p0());
            // an integer literal outside the signed 32-bit range where Int is expected (spec 3.5.1; fix e3584a3)
            let mut big = || i(OUT_OF_INT32[rng.below(OUT_OF_INT32.len())]);
            let (big1, big2, big3, big4) = (big(), big(), big(), big());
            let mut faults: Vec<(Dir, &str)> = vec![
                (Dir::new("ar", vec![Arg::new("n", big1)]), "int-beyond-32-bit"),
                (Dir::new("ar", vec![n1(), Arg::new("l", Val::List(vec![i("2147483647"), big2, i("-2147483648")], p0()))]), "list-item-int-beyond-32-bit"),
                (Dir::new("ar", vec![n1(), Arg::new("l", big3)]), "single-value-for-list-int-beyond-32-bit"),
                (Dir::new("ar", vec![n1(), Arg::new("i", ob(vec![Arg::new("k", s("a")), Arg::new("v", big4)]))]), "input-object-field-int-beyond-32-bit"),
                (Dir::new("ar", vec![n1(), Arg::new("zz", i("2"))]), "unknown-argument"),
                (Dir::new("ar", vec![Arg::new("e", Val::Enum("RED".into(), p0()))]), "required-argument-missing"),
                (Dir::new("ar", vec![]), "required-argument-missing-no-arguments"),
                (Dir::new("noargs", vec![Arg::new("x", i("1"))]), "arguments-not-needed"),
                (Dir::new("ar", vec![Arg::new("n", s("one"))]), "string-for-int"),
                (Dir::new("ar", vec![Arg::new("n", Val::Null(p0()))]), "null-for-non-null"),
                (Dir::new("ar", vec![n1(), Arg::new("e", Val::Enum("PURPLE".into(), p0()))]), "unknown-enum-member"),
                (Dir::new("ar", vec![n1(), Arg::new("e", s("RED"))]), "string-for-enum"),
                (Dir::new("ar", vec![Arg::new("n", Val::Var("v".into(), p0()))]), "variable"),
                (Dir::new("ar", vec![n1(), Arg::new("i", ob(vec![Arg::new("k", s("a")), Arg::new("zz", i("1"))]))]), "input-object-unknown-field(optional-field-omitted)"),
                (Dir::new("ar", vec![n1(), Arg::new("i", ob(vec![Arg::new("k", s("a")), Arg::new("v", i("1")), Arg::new("zz", i("1"))]))]), "input-object-unknown-field"),
                (Dir::new("ar", vec![n1(), Arg::new("i", ob(vec![Arg::new("v", i("1"))]))]), "input-object-required-field-missing"),
                (Dir::new("ar", vec![n1(), Arg::new("i", ob(vec![Arg::new("k", i("1"))]))]), "input-object-field-type"),
                (Dir::new("ar", vec![Arg::new("n", Val::List(vec![i("1")], p0()))]), "list-for-int"),
                (Dir::new("ar", vec![n1(), Arg::new("l", Val::List(vec![i("1"), s("a")], p0()))]), "list-item-type"),
                (Dir::new("ar", vec![Arg::new("n", ob(vec![Arg::new("a", i("1"))]))]), "object-for-int"),
                (Dir::new("ar", vec![n1(), Arg::new("i", i("3"))]), "int-for-input-object"),
                (Dir::new("ar", vec![n1(), Arg::new("n", s("second"))]), "duplicate-argument-second-ill-typed"),
            ];
            let (d, class) = faults.swap_remove(rng.below(faults.len()));
            let ss = sites(items);
            let (site, loc, ext) = ss[rng.below(ss.len())].clone();
            dirs_at(items, &site).push(d);
            let _ = (loc, ext);
            Some(class.to_string())
        }
        "directive-recursion" => {
            let arg_with = |name: &str, ty: Ty, dirs: Vec<Dir>| {
                let mut a = iv(name, ty);
                a.dirs = dirs;
                a
            };
            match rng.below(12) {
                0 => {
                    insert_at_random(rng, items, dirdef("r1", vec![arg_with("x", int(), vec![Dir::new("r1", vec![])])], false, &["ARGUMENT_DEFINITION"]));
                    Some("self".into())
                }
                1 => {
                    insert_at_random(rng, items, dirdef("r1", vec![arg_with("x", int(), vec![Dir::new("r2", vec![])])], false, &["ARGUMENT_DEFINITION"]));
                    insert_at_random(rng, items, dirdef("r2", vec![arg_with("y", int(), vec![Dir::new("r1", vec![])])], false, &["ARGUMENT_DEFINITION"]));
                    Some("mutual".into())
                }
                2 => {
                    insert_at_random(rng, items, dirdef("r1", vec![arg_with("x", int(), vec![Dir::new("r2", vec![])])], false, &["ARGUMENT_DEFINITION"]));
                    insert_at_random(rng, items, dirdef("r2", vec![iv("q", int()), arg_with("y", int(), vec![Dir::new("r3", vec![])])], false, &["ARGUMENT_DEFINITION"]));
                    insert_at_random(rng, items, dirdef("r3", vec![arg_with("z", int(), vec![Dir::new("r1", vec![])])], false, &["ARGUMENT_DEFINITION"]));
                    Some("cycle-of-three".into())
                }
                3 => {
                    let mut e = tdef(TypeKind::Enum, "RE");
                    e.values = vec![ev("A"), {
                        let mut v = ev("B");
                        v.dirs = vec![Dir::new("r1", vec![])];
                        v
                    }];
                    insert_at_random(rng, items, TsItem::TypeDef(e));
                    let ty = wrap_some(rng, Ty::named("RE"));
                    insert_at_random(rng, items, dirdef("r1", vec![iv("x", ty)], false, &["ENUM_VALUE"]));
                    Some("through-enum-value".into())
                }
                4 => {
                    let mut e = tdef(TypeKind::Enum, "RE");
                    e.values = vec![ev("A")];
                    e.dirs = vec![Dir::new("r1", vec![])];
                    insert_at_random(rng, items, TsItem::TypeDef(e));
                    insert_at_random(rng, items, dirdef("r1", vec![iv("x", Ty::named("RE"))], false, &["ENUM"]));
                    Some("through-enum-type".into())
                }
                5 => {
                    let mut sc = tdef(TypeKind::Scalar, "RS");
                    sc.dirs = vec![Dir::new("r1", vec![])];
                    insert_at_random(rng, items, TsItem::TypeDef(sc));
                    insert_at_random(rng, items, dirdef("r1", vec![iv("x", Ty::list(Ty::named("RS")))], false, &["SCALAR"]));
                    Some("through-scalar".into())
                }
                6 => {
                    let mut inp = tdef(TypeKind::Input, "RIn");
                    inp.inputs = vec![arg_with("a", int(), vec![Dir::new("r1", vec![])])];
                    insert_at_random(rng, items, TsItem::TypeDef(inp));
                    insert_at_random(rng, items, dirdef("r1", vec![iv("x", Ty::named("RIn"))], false, &["INPUT_FIELD_DEFINITION"]));
                    Some("through-input-field".into())
                }
                7 => {
                    let mut inp = tdef(TypeKind::Input, "RIn");
                    inp.inputs = vec![iv("a", int())];
                    inp.dirs = vec![Dir::new("r1", vec![])];
                    insert_at_random(rng, items, TsItem::TypeDef(inp));
                    insert_at_random(rng, items, dirdef("r1", vec![iv("x", Ty::named("RIn"))], false, &["INPUT_OBJECT"]));
                    Some("through-input-type".into())
                }
                8 => {
                    let mut inp = tdef(TypeKind::Input, "RIn");
                    inp.inputs = vec![iv("n", Ty::named("RIn2"))];
                    insert_at_random(rng, items, TsItem::TypeDef(inp));
                    let mut inp2 = tdef(TypeKind::Input, "RIn2");
                    inp2.inputs = vec![arg_with("a", int(), vec![Dir::new("r1", vec![])])];
                    insert_at_random(rng, items, TsItem::TypeDef(inp2));
                    insert_at_random(rng, items, dirdef("r1", vec![iv("x", Ty::named("RIn"))], false, &["INPUT_FIELD_DEFINITION"]));
                    Some("through-nested-input-field".into())
                }
                9 => {
                    // the recursing application sits in an extension of the argument's type
                    let mut e = tdef(TypeKind::Enum, "RE");
                    e.values = vec![ev("A")];
                    insert_at_random(rng, items, TsItem::TypeDef(e));
                    let mut x = ext_of(TypeKind::Enum, "RE");
                    x.values = vec![{
                        let mut v = ev("B");
                        v.dirs = vec![Dir::new("r1", vec![])];
                        v
                    }];
                    insert_at_random(rng, items, TsItem::TypeExt(x));
                    insert_at_random(rng, items, dirdef("r1", vec![iv("x", Ty::named("RE"))], false, &["ENUM_VALUE"]));
                    Some("through-enum-value-in-extension".into())
                }
                10 => {
                    // diamond r1 -> r2 (twice) -> r1
                    insert_at_random(
                        rng,
                        items,
                        dirdef("r1", vec![arg_with("x", int(), vec![Dir::new("r2", vec![])]), arg_with("y", int(), vec![Dir::new("r2", vec![])])], false, &["ARGUMENT_DEFINITION"]),
                    );
                    insert_at_random(rng, items, dirdef("r2", vec![arg_with("z", int(), vec![Dir::new("r1", vec![])])], false, &["ARGUMENT_DEFINITION"]));
                    Some("diamond-closing-a-cycle".into())
                }
                _ => {
                    // r0 is not recursive itself but leads into a cycle r1 <-> r2
                    insert_at_random(rng, items, dirdef("r0", vec![arg_with("w", int(), vec![Dir::new("r1", vec![])])], false, &["ARGUMENT_DEFINITION"]));
                    insert_at_random(rng, items, dirdef("r1", vec![arg_with("x", int(), vec![Dir::new("r2", vec![])])], false, &["ARGUMENT_DEFINITION"]));
                    insert_at_random(rng, items, dirdef("r2", vec![arg_with("y", int(), vec![Dir::new("r1", vec![])])], false, &["ARGUMENT_DEFINITION"]));
                    Some("cycle-behind-a-non-recursive-directive".into())
                }
            }
        }
        "unique-type-names" => {
            // a minimal well-formed body for a type of the given kind
            let body = |rng: &mut Rng, items: &[TsItem], kind: TypeKind, name: &str| -> Option<TypeDef> {
                let mut t = tdef(kind, name);
                match kind {
                    TypeKind::Object | TypeKind::Interface => t.fields = vec![fd("a", int())],
                    TypeKind::Union => t.members = vec![nm(&name_of_kind(items, TypeKind::Object, rng)?)],
                    TypeKind::Enum => t.values = vec![ev("A")],
                    TypeKind::Input => t.inputs = vec![iv("a", int())],
                    TypeKind::Scalar => {}
                }
                Some(t)
            };
            let kinds = [TypeKind::Scalar, TypeKind::Object, TypeKind::Interface, TypeKind::Union, TypeKind::Enum, TypeKind::Input];
            match rng.below(4) {
                0 => {
                    // a second definition, of ANOTHER kind, of a name the schema already defines
                    let k0 = kinds[rng.below(6)];
                    let name = name_of_kind(items, k0, rng)?;
                    let others: Vec<TypeKind> = kinds.iter().copied().filter(|k| *k != k0).collect();
                    let k1 = others[rng.below(others.len())];
                    let t = body(rng, items, k1, &name)?;
                    insert_at_random(rng, items, TsItem::TypeDef(t));
                    Some(format!("cross-kind:{}+{}", k0.as_str(), k1.as_str()))
                }
                1 => {
                    // two fresh definitions of one name and different kinds (nothing else refers to the name)
                    let k0 = kinds[rng.below(6)];
                    let others: Vec<TypeKind> = kinds.iter().copied().filter(|k| *k != k0).collect();
                    let k1 = others[rng.below(others.len())];
                    let a = body(rng, items, k0, "ZDupName")?;
                    let b = body(rng, items, k1, "ZDupName")?;
                    insert_at_random(rng, items, TsItem::TypeDef(a));
                    insert_at_random(rng, items, TsItem::TypeDef(b));
                    Some(format!("fresh-pair:{}+{}", k0.as_str(), k1.as_str()))
                }
                2 => {
                    // object + input object of one name, the input object completed by an extension (the clash is
                    // still there after the extensions are resolved)
                    let mut a = tdef(TypeKind::Object, "ZDupName");
                    a.fields = vec![fd("a", int())];
                    let mut b = tdef(TypeKind::Input, "ZDupName");
                    b.inputs = vec![iv("a", int())];
                    let mut e = ext_of(TypeKind::Input, "ZDupName");
                    e.inputs = vec![iv("b", int())];
                    insert_at_random(rng, items, TsItem::TypeDef(a));
                    insert_at_random(rng, items, TsItem::TypeDef(b));
                    insert_at_random(rng, items, TsItem::TypeExt(e));
                    Some("fresh-pair:object+input-with-extension".into())
                }
                _ => {
                    // a user type that takes the name of a built-in scalar
                    let name = ["Int", "Float", "String", "Boolean", "ID"][rng.below(5)];
                    let k1 = kinds[rng.below(6)];
                    let mut t = body(rng, items, k1, name)?;
                    // the body must not mention the clashing name itself
                    if name == "Int" {
                        for f in t.fields.iter_mut() {
                            f.ty = Ty::named("String");
                        }
                        for f in t.inputs.iter_mut() {
                            f.ty = Ty::named("String");
                        }
                    }
                    insert_at_random(rng, items, TsItem::TypeDef(t));
                    Some(format!("builtin-scalar-name:{}", k1.as_str()))
                }
            }
        }
        "unique-directive-names" => {
            let user_dirs: Vec<usize> = items.iter().enumerate().filter(|(_, i)| matches!(i, TsItem::DirectiveDef(_))).map(|(k, _)| k).collect();
            match rng.below(4) {
                0 if !user_dirs.is_empty() => {
                    // a verbatim second definition of a directive the schema defines
                    let k = user_dirs[rng.below(user_dirs.len())];
                    let mut copy = items[k].clone();
                    if let TsItem::DirectiveDef(d) = &mut copy {
                        d.desc = None;
                    }
                    insert_at_random(rng, items, copy);
                    Some("verbatim-copy".into())
                }
                1 if !user_dirs.is_empty() => {
                    // a second definition with other content: one more location / an additional optional argument
                    let k = user_dirs[rng.below(user_dirs.len())];
                    let mut copy = items[k].clone();
                    if let TsItem::DirectiveDef(d) = &mut copy {
                        d.desc = None;
                        if rng.coin() {
                            let extra = all[rng.below(all.len())].to_string();
                            if !d.locations.contains(&extra) {
                                d.locations.push(extra);
                            }
                        } else {
                            d.args.push(iv("zExtra", int()));
                        }
                    }
                    insert_at_random(rng, items, copy);
                    Some("changed-copy".into())
                }
                2 => {
                    insert_at_random(rng, items, dirdef("zdup", vec![], false, &["OBJECT"]));
                    insert_at_random(rng, items, dirdef("zdup", vec![iv("x", int())], true, &["FIELD_DEFINITION", "OBJECT"]));
                    Some("fresh-pair:different-content".into())
                }
                _ => {
                    // three definitions of one name
                    for _ in 0..3 {
                        insert_at_random(rng, items, dirdef("zdup", vec![], false, &["SCALAR"]));
                    }
                    Some("fresh-triple".into())
                }
            }
        }
        _ => None,
    }
}

/// verbatim re-declarations of built-in directives (`crates/builtins/src/lib.rs`): ALLOWED by the checker (fix 8cdbacf
/// reports a repeated directive name only between two user definitions). Returns the names that were re-declared.
pub fn redeclare_builtin_directives(rng: &mut Rng, items: &mut Vec<TsItem>) -> Vec<String> {
    let boolean_nn = || Ty::non_null(Ty::named("Boolean"));
    let mut deprecated_reason = iv("reason", Ty::named("String"));
    deprecated_reason.default = Some(Val::Str("No longer supported".into(), p0()));
    let all: Vec<(&str, TsItem)> = vec![
        ("skip", dirdef("skip", vec![iv("if", boolean_nn())], false, &["FIELD", "FRAGMENT_SPREAD", "INLINE_FRAGMENT"])),
        ("include", dirdef("include", vec![iv("if", boolean_nn())], false, &["FIELD", "FRAGMENT_SPREAD", "INLINE_FRAGMENT"])),
        ("deprecated", dirdef("deprecated", vec![deprecated_reason], false, &["FIELD_DEFINITION", "ARGUMENT_DEFINITION", "INPUT_FIELD_DEFINITION", "ENUM_VALUE"])),
        ("specifiedBy", dirdef("specifiedBy", vec![iv("url", Ty::non_null(Ty::named("String")))], false, &["SCALAR"])),
    ];
    let mut out = vec![];
    let n = 1 + rng.below(all.len());
    let mut pool = all;
    for _ in 0..n {
        let k = rng.below(pool.len());
        let (name, it) = pool.remove(k);
        insert_at_random(rng, items, it);
        out.push(name.to_string());
    }
    out
}
