//! C05 interface-implementation gadgets: IsValidImplementation 2.c / 2.d (spec §3.6.1 / §3.7) over the SHAPE of both
//! sides. The interface field has no argument list / one argument / several arguments (nullable, non-null, list,
//! enum / input / custom-scalar typed, with or without default values); the implementing field is derived from it by
//! ONE operator:
//!   valid  — same, reordered, extra nullable argument (with / without default), extra non-null argument WITH default,
//!            extra list argument, two extras, default value changed / added / removed;
//!   fault  — extra REQUIRED argument (non-null without default; also `[T]!`, also among optional extras, at any
//!            position of the list), argument dropped (possibly leaving no argument list at all), all arguments
//!            dropped, argument renamed, named type changed, list wrapping changed, nullability changed (outer / item).
//! Implementer = object or interface (optionally below a middle interface, optionally with an object under the
//! implementing interface); the `implements` entry and / or the implementing field and / or the interface's field may
//! come from `extend type / interface …` items (which the caller may render into other files). A second entry point
//! applies the same operators to an implementing field that ALREADY exists in a generated schema.
//! Nothing here decides validity: the executable specification (`Spec.ValidTs.ifaceFieldArgs` through `ts.all`) must
//! confirm `valid` resp. rule `iface-field-args`; the label is only what the operator is meant to do.
use crate::genx::{ev, fda, iv, tdef};
use crate::graphx::Gadget;
use nvh::gm::*;
use nvh::Rng;
use std::collections::BTreeSet;

fn p0() -> P {
    P::default()
}
fn nm(n: &str) -> (String, P) {
    (n.to_string(), p0())
}

pub const SHAPES: [&str; 3] = ["no-arguments", "one-argument", "several-arguments"];
pub const VALID_OPS: [&str; 10] = [
    "same",
    "reordered",
    "extra-nullable",
    "extra-nullable-with-default",
    "extra-non-null-with-default",
    "extra-list",
    "two-optional-extras",
    "default-changed",
    "default-added",
    "default-removed",
];
pub const FAULT_OPS: [&str; 9] = [
    "extra-required-argument",
    "extra-required-list-argument",
    "extra-required-among-optional-extras",
    "argument-dropped",
    "all-arguments-dropped",
    "argument-renamed",
    "argument-type-changed",
    "argument-list-wrapping-changed",
    "argument-nullability-changed",
];

const BUILTIN_NAMES: [&str; 5] = ["Int", "String", "Boolean", "ID", "Float"];
const HELPER_NAMES: [&str; 3] = ["ZaE", "ZaIn", "ZaS"];

fn pool(builtin_only: bool) -> Vec<&'static str> {
    let mut v: Vec<&'static str> = BUILTIN_NAMES.to_vec();
    if !builtin_only {
        v.extend(HELPER_NAMES.iter().copied());
    }
    v
}

fn wrap(rng: &mut Rng, t: Ty) -> Ty {
    match rng.below(9) {
        0 | 1 | 2 => t,
        3 | 4 => Ty::non_null(t),
        5 => Ty::list(t),
        6 => Ty::list(Ty::non_null(t)),
        7 => Ty::non_null(Ty::list(t)),
        _ => Ty::non_null(Ty::list(Ty::non_null(t))),
    }
}
fn arg_ty(rng: &mut Rng, builtin_only: bool) -> Ty {
    let p = pool(builtin_only);
    let n = p[rng.below(p.len())];
    wrap(rng, Ty::named(n))
}
/// a well-typed constant for the type (`alt` = another one, for "default changed")
fn const_of(t: &Ty, alt: bool) -> Val {
    match t {
        Ty::NonNull(i) => const_of(i, alt),
        Ty::List(i, _) => Val::List(if alt { vec![] } else { vec![const_of(i, false)] }, p0()),
        Ty::Named(n, _) => match n.as_str() {
            "Int" => Val::Int(if alt { "2".into() } else { "1".into() }, p0()),
            "Float" => Val::Float(if alt { "2.5".into() } else { "1.5".into() }, p0()),
            "Boolean" => Val::Bool(!alt, p0()),
            "ZaE" => Val::Enum(if alt { "B".into() } else { "A".into() }, p0()),
            "ZaIn" => Val::Obj(vec![Arg::new("v", Val::Int(if alt { "2".into() } else { "1".into() }, p0()))], p0()),
            _ => Val::Str(if alt { "e".into() } else { "d".into() }, p0()),
        },
    }
}
fn fresh_name(args: &[InputValueDef], taken: &[InputValueDef]) -> String {
    for n in ["x", "y", "z", "w", "x2", "y2", "z2", "w2"] {
        if !args.iter().chain(taken.iter()).any(|a| a.name == n) {
            return n.to_string();
        }
    }
    "x9".into()
}
fn rename_named(t: &Ty, to: &str) -> Ty {
    match t {
        Ty::Named(_, _) => Ty::named(to),
        Ty::List(i, _) => Ty::list(rename_named(i, to)),
        Ty::NonNull(i) => Ty::non_null(rename_named(i, to)),
    }
}
fn toggle_outer(t: &Ty) -> Ty {
    match t {
        Ty::NonNull(i) => (**i).clone(),
        other => Ty::non_null(other.clone()),
    }
}
/// toggles the nullability of the ITEM type of the outermost list (None if there is no list)
fn toggle_item(t: &Ty) -> Option<Ty> {
    match t {
        Ty::NonNull(i) => toggle_item(i).map(Ty::non_null),
        Ty::List(i, _) => Some(Ty::list(toggle_outer(i))),
        Ty::Named(..) => None,
    }
}
/// `T` → `[T]`, `[T]` → `T` (outer nullability kept)
fn toggle_list(t: &Ty) -> Ty {
    match t {
        Ty::NonNull(i) => Ty::non_null(toggle_list(i)),
        Ty::List(i, _) => match &**i {
            Ty::NonNull(x) => (**x).clone(),
            x => x.clone(),
        },
        n => Ty::list(n.clone()),
    }
}

fn insert_somewhere(rng: &mut Rng, args: &mut Vec<InputValueDef>, a: InputValueDef) {
    let at = rng.below(args.len() + 1);
    args.insert(at, a);
}
fn optional_extra(rng: &mut Rng, args: &[InputValueDef], kind: usize, builtin_only: bool) -> InputValueDef {
    let name = fresh_name(args, &[]);
    let p = pool(builtin_only);
    let base = Ty::named(p[rng.below(p.len())]);
    match kind {
        0 => iv(&name, base),
        1 => {
            let mut a = iv(&name, base.clone());
            a.default = Some(if rng.chance(1, 4) { Val::Null(p0()) } else { const_of(&base, false) });
            a
        }
        2 => {
            let t = if rng.coin() { Ty::non_null(base) } else { Ty::non_null(Ty::list(Ty::non_null(base))) };
            let mut a = iv(&name, t.clone());
            a.default = Some(const_of(&t, false));
            a
        }
        _ => iv(&name, if rng.coin() { Ty::list(base) } else { Ty::list(Ty::non_null(base)) }),
    }
}
fn required_extra(rng: &mut Rng, args: &[InputValueDef], list: bool, builtin_only: bool) -> InputValueDef {
    let name = fresh_name(args, &[]);
    let p = pool(builtin_only);
    let base = Ty::named(p[rng.below(p.len())]);
    let t = if list {
        if rng.coin() { Ty::non_null(Ty::list(base)) } else { Ty::non_null(Ty::list(Ty::non_null(base))) }
    } else {
        Ty::non_null(base)
    };
    iv(&name, t)
}

/// arguments of the implementing field from the arguments `base` it has to match; None = operator not applicable to
/// this shape. The returned string is the operator's name as it goes into the class.
pub fn apply_op(rng: &mut Rng, base: &[InputValueDef], op: &str, builtin_only: bool) -> Option<(Vec<InputValueDef>, String)> {
    let mut args: Vec<InputValueDef> = base.to_vec();
    let mut name = op.to_string();
    match op {
        "same" => {}
        "reordered" => {
            if args.len() < 2 {
                return None;
            }
            let before: Vec<String> = args.iter().map(|a| a.name.clone()).collect();
            rng.shuffle(&mut args);
            if before == args.iter().map(|a| a.name.clone()).collect::<Vec<_>>() {
                args.reverse();
            }
        }
        "extra-nullable" => {
            let a = optional_extra(rng, &args, 0, builtin_only);
            insert_somewhere(rng, &mut args, a);
        }
        "extra-nullable-with-default" => {
            let a = optional_extra(rng, &args, 1, builtin_only);
            insert_somewhere(rng, &mut args, a);
        }
        "extra-non-null-with-default" => {
            let a = optional_extra(rng, &args, 2, builtin_only);
            insert_somewhere(rng, &mut args, a);
        }
        "extra-list" => {
            let a = optional_extra(rng, &args, 3, builtin_only);
            insert_somewhere(rng, &mut args, a);
        }
        "two-optional-extras" => {
            for _ in 0..2 {
                let k = rng.below(4);
                let a = optional_extra(rng, &args, k, builtin_only);
                insert_somewhere(rng, &mut args, a);
            }
        }
        "default-changed" => {
            let c: Vec<usize> = (0..args.len()).filter(|&k| args[k].default.is_some()).collect();
            if c.is_empty() {
                return None;
            }
            let k = c[rng.below(c.len())];
            let t = args[k].ty.clone();
            let alt = const_of(&t, true);
            args[k].default = Some(if args[k].default.as_ref() == Some(&alt) { const_of(&t, false) } else { alt });
        }
        "default-added" => {
            let c: Vec<usize> = (0..args.len()).filter(|&k| args[k].default.is_none()).collect();
            if c.is_empty() {
                return None;
            }
            let k = c[rng.below(c.len())];
            args[k].default = Some(const_of(&args[k].ty.clone(), false));
        }
        "default-removed" => {
            let c: Vec<usize> = (0..args.len()).filter(|&k| args[k].default.is_some()).collect();
            if c.is_empty() {
                return None;
            }
            let k = c[rng.below(c.len())];
            args[k].default = None;
        }
        // ---- faults --------------------------------------------------------------------------------------
        "extra-required-argument" => {
            let a = required_extra(rng, &args, false, builtin_only);
            insert_somewhere(rng, &mut args, a);
        }
        "extra-required-list-argument" => {
            let a = required_extra(rng, &args, true, builtin_only);
            insert_somewhere(rng, &mut args, a);
        }
        "extra-required-among-optional-extras" => {
            let k = rng.below(4);
            let a = optional_extra(rng, &args, k, builtin_only);
            insert_somewhere(rng, &mut args, a);
            let l = rng.coin();
            let a = required_extra(rng, &args, l, builtin_only);
            insert_somewhere(rng, &mut args, a);
            if rng.coin() {
                let k = rng.below(4);
                let a = optional_extra(rng, &args, k, builtin_only);
                insert_somewhere(rng, &mut args, a);
            }
        }
        "argument-dropped" => {
            if args.is_empty() {
                return None;
            }
            let k = rng.below(args.len());
            args.remove(k);
            if args.is_empty() {
                name = "argument-dropped-leaving-no-argument-list".into();
            }
        }
        "all-arguments-dropped" => {
            if args.len() < 2 {
                return None;
            }
            args.clear();
        }
        "argument-renamed" => {
            if args.is_empty() {
                return None;
            }
            let k = rng.below(args.len());
            args[k].name = fresh_name(&args, &[]);
        }
        "argument-type-changed" => {
            if args.is_empty() {
                return None;
            }
            let k = rng.below(args.len());
            let cur = args[k].ty.unwrapped().to_string();
            let p: Vec<&str> = pool(builtin_only).into_iter().filter(|n| *n != cur).collect();
            let to = p[rng.below(p.len())];
            args[k].ty = rename_named(&args[k].ty, to);
            // a default value of the old type would not fit the new one
            if args[k].default.is_some() {
                args[k].default = Some(const_of(&args[k].ty.clone(), false));
            }
        }
        "argument-list-wrapping-changed" => {
            if args.is_empty() {
                return None;
            }
            let k = rng.below(args.len());
            args[k].ty = toggle_list(&args[k].ty);
            if args[k].default.is_some() {
                args[k].default = Some(const_of(&args[k].ty.clone(), false));
            }
        }
        "argument-nullability-changed" => {
            if args.is_empty() {
                return None;
            }
            let k = rng.below(args.len());
            let item = toggle_item(&args[k].ty);
            match item {
                Some(t) if rng.coin() => {
                    args[k].ty = t;
                    name = "argument-item-nullability-changed".into();
                }
                _ => {
                    name = if args[k].ty.is_non_null() { "argument-made-nullable".into() } else { "argument-made-non-null".into() };
                    args[k].ty = toggle_outer(&args[k].ty);
                }
            }
        }
        _ => return None,
    }
    Some((args, name))
}

/// least number of arguments of the interface field the operator needs
fn min_args(op: &str) -> usize {
    match op {
        "reordered" | "all-arguments-dropped" => 2,
        "default-changed" | "default-added" | "default-removed" | "argument-dropped" | "argument-renamed" | "argument-type-changed" | "argument-list-wrapping-changed"
        | "argument-nullability-changed" => 1,
        _ => 0,
    }
}

/// the operator's class as it goes into the signature: variants of one fault are one class (the variant stays visible
/// in the features and in the evidence counts)
pub fn op_class(op: &str) -> &str {
    match op {
        "extra-required-list-argument" | "extra-required-among-optional-extras" => "extra-required-argument",
        "all-arguments-dropped" => "argument-dropped-leaving-no-argument-list",
        o => o,
    }
}

pub fn shape_of(args: &[InputValueDef]) -> &'static str {
    match args.len() {
        0 => SHAPES[0],
        1 => SHAPES[1],
        _ => SHAPES[2],
    }
}

fn gen_args(rng: &mut Rng, shape: &str, builtin_only: bool) -> Vec<InputValueDef> {
    let n = match shape {
        "no-arguments" => 0,
        "one-argument" => 1,
        _ => 2 + rng.below(3),
    };
    let names = ["a", "b", "c", "d"];
    (0..n)
        .map(|k| {
            let t = arg_ty(rng, builtin_only);
            let mut a = iv(names[k], t.clone());
            if rng.chance(1, 3) {
                a.default = Some(const_of(&t, false));
            }
            a
        })
        .collect()
}

/// (operator applied, its name); `faulty` picks from FAULT_OPS, otherwise from VALID_OPS; retried until applicable
fn pick_op_but(rng: &mut Rng, base: &[InputValueDef], faulty: bool, builtin_only: bool, forbid: &[&str]) -> (Vec<InputValueDef>, String) {
    let ops: &[&str] = if faulty { &FAULT_OPS } else { &VALID_OPS };
    for _ in 0..40 {
        let op = ops[rng.below(ops.len())];
        if forbid.contains(&op) {
            continue;
        }
        if let Some(r) = apply_op(rng, base, op, builtin_only) {
            return r;
        }
    }
    // always applicable
    apply_op(rng, base, if faulty { "extra-required-argument" } else { "same" }, builtin_only).unwrap()
}

fn helper_items(used: &BTreeSet<String>) -> Vec<TsItem> {
    let mut out = vec![];
    if used.contains("ZaE") {
        let mut e = tdef(TypeKind::Enum, "ZaE");
        e.values = vec![ev("A"), ev("B")];
        out.push(TsItem::TypeDef(e));
    }
    if used.contains("ZaIn") {
        let mut i = tdef(TypeKind::Input, "ZaIn");
        i.inputs = vec![iv("v", Ty::named("Int"))];
        out.push(TsItem::TypeDef(i));
    }
    if used.contains("ZaS") {
        out.push(TsItem::TypeDef(tdef(TypeKind::Scalar, "ZaS")));
    }
    out
}
fn used_names(items: &[TsItem]) -> BTreeSet<String> {
    let mut s = BTreeSet::new();
    for it in items {
        if let TsItem::TypeDef(t) | TsItem::TypeExt(t) = it {
            for f in &t.fields {
                for a in &f.args {
                    s.insert(a.ty.unwrapped().to_string());
                }
            }
        }
    }
    s
}

/// a self-contained group `ZaI` (interface) [`ZaM` (middle interface)] `ZaO` / `ZaJ` (implementer) [`ZaP` (object
/// below the implementing interface)] + helper types; `faulty` = the TARGET field of the implementer breaks rule
/// `iface-field-args` against `ZaI`, everything else is a valid implementation
pub fn impl_gadget(rng: &mut Rng, faulty: bool) -> Gadget {
    let mut features: Vec<String> = vec![];
    let iface_field_in_ext = rng.chance(1, 4);
    let nf = if iface_field_in_ext { 2 + rng.below(2) } else { 1 + rng.below(3) };
    let target = rng.below(nf);
    let ret_types = [Ty::named("Int"), Ty::list(Ty::named("String")), Ty::named("ZaI"), Ty::non_null(Ty::named("ID"))];
    // the operator for the target field first, then a shape it applies to (so that every operator is as frequent as any other)
    let ops: &[&str] = if faulty { &FAULT_OPS } else { &VALID_OPS };
    let op_t = ops[rng.below(ops.len())];
    let min = min_args(op_t);
    let shape_t = SHAPES[min + rng.below(3 - min)];
    // ---- the interface
    let mut ifields: Vec<FieldDef> = vec![];
    for k in 0..nf {
        let shape = if k == target { shape_t } else { SHAPES[rng.below(3)] };
        let mut args = gen_args(rng, shape, false);
        if k == target && !args.is_empty() {
            let j = rng.below(args.len());
            match op_t {
                "default-changed" | "default-removed" => args[j].default = Some(const_of(&args[j].ty.clone(), false)),
                "default-added" => args[j].default = None,
                _ => {}
            }
        }
        ifields.push(fda(&format!("g{k}"), args, ret_types[rng.below(ret_types.len())].clone()));
    }
    // ---- optional middle interface: a VALID implementation of ZaI that may add optional arguments
    let with_middle = rng.chance(1, 4);
    let mut mfields: Vec<FieldDef> = vec![];
    if with_middle {
        for f in &ifields {
            let (args, _) = if rng.coin() { (f.args.clone(), String::new()) } else { pick_op(rng, &f.args, false, false) };
            mfields.push(fda(&f.name, args, f.ty.clone()));
        }
        features.push("impl:below-middle-interface".into());
    }
    // ---- the implementer
    let object = rng.coin();
    let iname = if object { "ZaO" } else { "ZaJ" };
    let kind = if object { TypeKind::Object } else { TypeKind::Interface };
    let base_fields: &Vec<FieldDef> = if with_middle { &mfields } else { &ifields };
    let mut fields: Vec<FieldDef> = vec![];
    let mut op_name = String::new();
    for (k, f) in base_fields.iter().enumerate() {
        // below a middle interface, an argument the middle interface ADDED (non-null with default) must keep its default:
        // against ZaI it is an additional argument
        let forbid: &[&str] = if with_middle { &["default-removed"] } else { &[] };
        let (args, name) = if k == target && !(with_middle && forbid.contains(&op_t)) {
            match apply_op(rng, &f.args, op_t, false) {
                Some(r) => r,
                None => pick_op_but(rng, &f.args, faulty, false, forbid),
            }
        } else {
            pick_op_but(rng, &f.args, false, false, forbid)
        };
        if k == target {
            op_name = name;
        }
        // covariant return type now and then (valid): `T` → `T!`
        let ty = if !f.ty.is_non_null() && rng.chance(1, 4) { Ty::non_null(f.ty.clone()) } else { f.ty.clone() };
        fields.push(fda(&f.name, args, ty));
    }
    let own_args = if rng.chance(1, 3) { vec![iv("o", Ty::non_null(Ty::named("Int")))] } else { vec![] };
    fields.push(fda("own", own_args, Ty::named("Int")));
    rng.shuffle(&mut fields);
    let tname = format!("g{target}");
    let mut impl_list: Vec<(String, P)> = vec![nm("ZaI")];
    if with_middle {
        impl_list.push(nm("ZaM"));
        rng.shuffle(&mut impl_list);
    }
    // ---- placement
    let placement = rng.below(6);
    let mut items: Vec<TsItem> = vec![];
    let mut via_ext = false;
    {
        let mut i = tdef(TypeKind::Interface, "ZaI");
        if iface_field_in_ext {
            let mut e = tdef(TypeKind::Interface, "ZaI");
            let k = ifields.iter().position(|f| f.name == tname).unwrap();
            let tf = ifields[k].clone();
            i.fields = ifields.iter().filter(|f| f.name != tname).cloned().collect();
            e.fields = vec![tf];
            items.push(TsItem::TypeDef(i));
            items.push(TsItem::TypeExt(e));
            via_ext = true;
            features.push("impl:interface-field-in-extension".into());
        } else {
            i.fields = ifields.clone();
            items.push(TsItem::TypeDef(i));
        }
    }
    if with_middle {
        let mut m = tdef(TypeKind::Interface, "ZaM");
        m.implements = vec![nm("ZaI")];
        m.fields = mfields.clone();
        items.push(TsItem::TypeDef(m));
    }
    let mut d = tdef(kind, iname);
    match placement {
        0 | 1 | 2 => {
            d.implements = impl_list.clone();
            d.fields = fields.clone();
            items.push(TsItem::TypeDef(d));
            features.push("impl:in-definition".into());
        }
        3 => {
            // `implements` declared by an extension without fields
            d.fields = fields.clone();
            let mut e = tdef(kind, iname);
            e.implements = impl_list.clone();
            items.push(TsItem::TypeDef(d));
            items.push(TsItem::TypeExt(e));
            via_ext = true;
            features.push("impl:implements-in-extension".into());
        }
        4 => {
            // `implements` and the target field declared by an extension
            d.fields = fields.iter().filter(|f| f.name != tname).cloned().collect();
            let mut e = tdef(kind, iname);
            e.implements = impl_list.clone();
            e.fields = fields.iter().filter(|f| f.name == tname).cloned().collect();
            items.push(TsItem::TypeDef(d));
            items.push(TsItem::TypeExt(e));
            via_ext = true;
            features.push("impl:implements-and-field-in-extension".into());
        }
        _ => {
            // `implements` in the definition, the target field in an extension
            d.implements = impl_list.clone();
            d.fields = fields.iter().filter(|f| f.name != tname).cloned().collect();
            let mut e = tdef(kind, iname);
            e.fields = fields.iter().filter(|f| f.name == tname).cloned().collect();
            items.push(TsItem::TypeDef(d));
            items.push(TsItem::TypeExt(e));
            via_ext = true;
            features.push("impl:field-in-extension".into());
        }
    }
    // ---- an object below the implementing interface (copies its fields: valid against ZaJ)
    if !object && rng.chance(1, 3) {
        let mut p = tdef(TypeKind::Object, "ZaP");
        p.implements = impl_list.clone();
        p.implements.push(nm("ZaJ"));
        p.fields = fields.clone();
        items.push(TsItem::TypeDef(p));
        features.push("impl:object-below-implementing-interface".into());
    }
    let used = used_names(&items);
    items.extend(helper_items(&used));
    let shape = shape_of(&base_fields[target].args);
    let class = format!("{}:{}:{}{}", if object { "object" } else { "interface" }, shape, op_class(&op_name), if via_ext { "-via-extension" } else { "" });
    features.push(format!("impl:shape:{shape}"));
    features.push(format!("impl:op:{op_name}"));
    features.push(format!("impl:{}", if object { "object" } else { "interface" }));
    Gadget { items, rule: if faulty { Some("iface-field-args") } else { None }, class, features, apply: vec![] }
}

fn pick_op(rng: &mut Rng, base: &[InputValueDef], faulty: bool, builtin_only: bool) -> (Vec<InputValueDef>, String) {
    pick_op_but(rng, base, faulty, builtin_only, &[])
}

/// merged view of one named type over its definition and extensions
fn merged_fields<'a>(items: &'a [TsItem], name: &str) -> Vec<(usize, usize, &'a FieldDef)> {
    let mut out = vec![];
    for (k, it) in items.iter().enumerate() {
        if let TsItem::TypeDef(t) | TsItem::TypeExt(t) = it {
            if t.name == name {
                for (j, f) in t.fields.iter().enumerate() {
                    out.push((k, j, f));
                }
            }
        }
    }
    out
}

/// apply one operator to an implementing field that exists in the document (a generated schema: the implementing
/// fields are copies of the interface's). Valid operators only on OBJECT implementers (an interface's own
/// implementers would have to follow). Returns (class, features), None if the document has no such pair.
pub fn mutate_existing_pair(rng: &mut Rng, items: &mut Vec<TsItem>, faulty: bool) -> Option<(String, Vec<String>)> {
    // (implementer item index of the field, field index, implementer kind, interface name, field name, via extension)
    let mut cands: Vec<(usize, usize, TypeKind, Vec<InputValueDef>, bool)> = vec![];
    for it in items.iter() {
        let (t, t_ext) = match it {
            TsItem::TypeDef(t) => (t, false),
            TsItem::TypeExt(t) => (t, true),
            _ => continue,
        };
        if !matches!(t.kind, TypeKind::Object | TypeKind::Interface) || (!faulty && t.kind != TypeKind::Object) {
            continue;
        }
        for (iname, _) in &t.implements {
            let is_iface = items.iter().any(|x| matches!(x, TsItem::TypeDef(d) if d.name == *iname && d.kind == TypeKind::Interface));
            if !is_iface {
                continue;
            }
            for (ik, _, ifd) in merged_fields(items, iname) {
                for (fk, fj, f) in merged_fields(items, &t.name) {
                    if f.name == ifd.name && f.args.iter().map(|a| &a.name).eq(ifd.args.iter().map(|a| &a.name)) {
                        let via_ext = t_ext || matches!(items[fk], TsItem::TypeExt(_)) || matches!(items[ik], TsItem::TypeExt(_));
                        cands.push((fk, fj, t.kind, ifd.args.clone(), via_ext));
                    }
                }
            }
        }
    }
    if cands.is_empty() {
        return None;
    }
    // prefer variety of shapes: pick a shape that occurs, then a candidate of that shape
    let shapes: BTreeSet<&'static str> = cands.iter().map(|c| shape_of(&c.3)).collect();
    let shapes: Vec<&'static str> = shapes.into_iter().collect();
    let shape = shapes[rng.below(shapes.len())];
    let of_shape: Vec<&(usize, usize, TypeKind, Vec<InputValueDef>, bool)> = cands.iter().filter(|c| shape_of(&c.3) == shape).collect();
    let (fk, fj, kind, iargs, via_ext) = of_shape[rng.below(of_shape.len())].clone();
    let (args, op_name) = pick_op(rng, &iargs, faulty, true);
    match &mut items[fk] {
        TsItem::TypeDef(t) | TsItem::TypeExt(t) => t.fields[fj].args = args,
        _ => unreachable!(),
    }
    let kname = if kind == TypeKind::Object { "object" } else { "interface" };
    let class = format!("{kname}:{shape}:{}{}", op_class(&op_name), if via_ext { "-via-extension" } else { "" });
    Some((class, vec![format!("impl:shape:{shape}"), format!("impl:op:{op_name}"), format!("impl:{kname}"), "impl:existing-pair".into()]))
}
