//! C05 graph-shaped gadgets: for every recursive structure the type-system checker walks
//!   * the `implements` graph of interfaces / objects        (rule `missing-transitive`),
//!   * the reference graph of directive definitions          (rule `directive-recursion`),
//!   * nesting of input objects in directive argument values (rule `directive-args`)
//! a self-contained group of definitions (names `Zg…` / `zg…`) is generated from a GRAPH: long chains,
//! diamonds / random DAGs (valid), and the same with a graph-shaped fault: cycles of length 1, 2, 3, …
//! (closed in the definitions, or closed only by an `extend …` item that may sit in another file),
//! lassos (a tail leading into a cycle), omissions deep in a DAG, faults deep inside a nested literal.
//! Nothing here decides validity: every case is judged by the executable specification (`ts.rules` /
//! `ts.valid` of the driver); the label is only the rule the fault is meant to break.
use crate::genx::{dirdef, ev, fd, iv, tdef};
use nvh::gen::TS_LOCATIONS;
use nvh::gm::*;
use nvh::Rng;
use std::collections::BTreeSet;

pub struct Gadget {
    /// new top-level items (definitions and extensions), to be inserted anywhere in the document
    pub items: Vec<TsItem>,
    /// `None` = the gadget keeps the document valid; `Some(rule)` = the rule the fault breaks
    pub rule: Option<&'static str>,
    pub class: String,
    pub features: Vec<String>,
    /// directive applications to put at some site of the document outside the gadget
    pub apply: Vec<Dir>,
}

fn p0() -> P {
    P::default()
}
fn nm(n: &str) -> (String, P) {
    (n.to_string(), p0())
}
fn int() -> Ty {
    Ty::named("Int")
}
fn vi(v: &str) -> Val {
    Val::Int(v.into(), p0())
}
fn vs(v: &str) -> Val {
    Val::Str(v.into(), p0())
}
fn len_bucket(n: usize) -> String {
    if n >= 4 { "4+".into() } else { n.to_string() }
}

pub const FAMILIES: [&str; 3] = ["implements", "directives", "input-nesting"];

pub fn gen_gadget(rng: &mut Rng, family: &str, faulty: bool) -> Option<Gadget> {
    match family {
        "implements" => implements_gadget(rng, faulty),
        "directives" => Some(directive_gadget(rng, faulty)),
        _ => Some(nesting_gadget(rng, faulty)),
    }
}

// ---------------------------------------------------------------------------------------------------
// implements graph

/// reachability (≥ 1 step) over declared edges
fn reach(out: &[Vec<usize>], from: usize) -> BTreeSet<usize> {
    let mut seen = BTreeSet::new();
    let mut todo: Vec<usize> = out[from].clone();
    while let Some(k) = todo.pop() {
        if seen.insert(k) {
            todo.extend(out[k].iter().copied());
        }
    }
    seen
}

fn implements_gadget(rng: &mut Rng, faulty: bool) -> Option<Gadget> {
    let mut features = vec![];
    // ---- a transitively closed random DAG over interfaces 0..n (edges go from k to smaller indices)
    let shape = rng.below(4);
    let n = match shape {
        0 => 2 + rng.below(7), // chain
        1 => 4 + rng.below(4), // stack of diamonds
        _ => 2 + rng.below(6),
    };
    let mut parents: Vec<Vec<usize>> = vec![vec![]; n];
    match shape {
        0 => {
            for k in 1..n {
                parents[k] = vec![k - 1];
            }
            features.push(format!("implements:chain-{}", len_bucket(n)));
        }
        1 => {
            // layers of width 1,2,1,2,…: every node implements every node of the previous layer
            let mut layers: Vec<Vec<usize>> = vec![];
            let mut k = 0;
            let mut wide = false;
            while k < n {
                let w = if wide { 2.min(n - k) } else { 1 };
                layers.push((k..k + w).collect());
                k += w;
                wide = !wide;
            }
            for l in 1..layers.len() {
                for &a in &layers[l] {
                    parents[a] = layers[l - 1].clone();
                }
            }
            features.push("implements:diamond-stack".into());
        }
        _ => {
            for k in 1..n {
                for j in 0..k {
                    if rng.chance(1, 3) {
                        parents[k].push(j);
                    }
                }
            }
            features.push("implements:random-dag".into());
        }
    }
    let mut out: Vec<Vec<usize>> = vec![vec![]; n];
    for k in 0..n {
        let mut s: BTreeSet<usize> = BTreeSet::new();
        for &p in &parents[k] {
            s.insert(p);
            s.extend(out[p].iter().copied());
        }
        out[k] = s.into_iter().collect();
    }
    // index n = an object type implementing a closed set (present in about half of the cases)
    let with_obj = rng.coin();
    let mut obj_out: Vec<usize> = vec![];
    if with_obj {
        let mut s: BTreeSet<usize> = BTreeSet::new();
        for k in 0..n {
            if rng.chance(1, 2) || k == n - 1 {
                s.insert(k);
                s.extend(out[k].iter().copied());
            }
        }
        obj_out = s.into_iter().collect();
    }
    let original: Vec<Vec<usize>> = out.clone();
    // edges forced into / out of `extend` items: (from, to)
    let mut force_ext: BTreeSet<(usize, usize)> = BTreeSet::new();
    let mut force_def: BTreeSet<(usize, usize)> = BTreeSet::new();
    let mut rule = None;
    let mut class = String::from("valid");
    if faulty {
        rule = Some("missing-transitive");
        match rng.below(6) {
            0 | 1 | 2 => {
                // ---- a cycle, closed: every interface lists everything it reaches except itself
                let l = (2 + rng.below(4)).min(n);
                let mut nodes: Vec<usize> = (0..n).collect();
                rng.shuffle(&mut nodes);
                let ring: Vec<usize> = nodes[..l].to_vec();
                for i in 0..l {
                    let (a, b) = (ring[i], ring[(i + 1) % l]);
                    if !out[a].contains(&b) {
                        out[a].push(b);
                    }
                }
                let closed: Vec<Vec<usize>> = (0..n).map(|k| reach(&out, k).into_iter().filter(|&j| j != k).collect()).collect();
                out = closed;
                if with_obj {
                    let mut s: BTreeSet<usize> = BTreeSet::new();
                    for &k in &obj_out {
                        s.insert(k);
                        s.extend(out[k].iter().copied());
                    }
                    obj_out = s.into_iter().collect();
                }
                let scc: Vec<usize> = (0..n).filter(|&k| reach(&out, k).contains(&k)).collect();
                features.push(format!("implements:cycle-length-{}", len_bucket(scc.len())));
                if rng.coin() {
                    // the definitions alone are the valid DAG; the cycle exists only after the extensions are merged
                    for k in 0..n {
                        for &j in &out[k] {
                            if original[k].contains(&j) {
                                force_def.insert((k, j));
                            } else {
                                force_ext.insert((k, j));
                            }
                        }
                    }
                    class = "interface-cycle-closed-by-extension".into();
                } else {
                    for &k in &scc {
                        for &j in &scc {
                            force_def.insert((k, j));
                        }
                    }
                    class = "interface-cycle-in-definitions".into();
                }
            }
            3 => {
                // ---- a ring / back edge that is NOT closed (ordinary omissions + a cycle)
                if n < 2 {
                    return None;
                }
                let l = (2 + rng.below(4)).min(n);
                let mut nodes: Vec<usize> = (0..n).collect();
                rng.shuffle(&mut nodes);
                let ring: Vec<usize> = nodes[..l].to_vec();
                for i in 0..l {
                    let (a, b) = (ring[i], ring[(i + 1) % l]);
                    if !out[a].contains(&b) {
                        out[a].push(b);
                    }
                }
                features.push(format!("implements:ring-{}", len_bucket(l)));
                class = "interface-cycle-unclosed".into();
            }
            _ => {
                // ---- an omission somewhere in the DAG: k lists p, p lists j, k does not list j
                let mut cands: Vec<(usize, usize, usize)> = vec![];
                for k in 0..=n {
                    let o = if k == n { &obj_out } else { &out[k] };
                    for &j in o.iter() {
                        for &p in o.iter() {
                            if p != j && out[p].contains(&j) {
                                cands.push((k, p, j));
                            }
                        }
                    }
                }
                if cands.is_empty() {
                    return None;
                }
                let (k, p, j) = cands[rng.below(cands.len())];
                if k == n {
                    obj_out.retain(|&x| x != j);
                } else {
                    out[k].retain(|&x| x != j);
                }
                let who = if k == n { "object" } else { "interface" };
                if rng.chance(1, 3) {
                    // the edge that makes j required is declared by an extension of p
                    let ps: Vec<usize> = (0..n).filter(|&q| out[q].contains(&j)).collect();
                    for q in ps {
                        force_ext.insert((q, j));
                    }
                    class = format!("dag-omission:{who}-implied-by-extension");
                } else {
                    class = format!("dag-omission:{who}");
                }
                let _ = p;
            }
        }
    }
    // ---- items
    let iname = |k: usize| format!("ZgI{k}");
    let self_typed = rng.chance(1, 3);
    let field_of = |j: usize| -> FieldDef {
        if self_typed && j % 2 == 0 {
            fd(&format!("f{j}"), Ty::named(&iname(j)))
        } else {
            fd(&format!("f{j}"), int())
        }
    };
    let mut items: Vec<TsItem> = vec![];
    let mut any_ext = false;
    for k in 0..=n {
        if k == n && !with_obj {
            continue;
        }
        let (kind, name, mut declared) = if k == n { (TypeKind::Object, "ZgO".to_string(), obj_out.clone()) } else { (TypeKind::Interface, iname(k), out[k].clone()) };
        rng.shuffle(&mut declared);
        // fields: the own one + one per interface reachable over the declared edges
        let mut need: BTreeSet<usize> = BTreeSet::new();
        if k < n {
            need.insert(k);
            need.extend(reach(&out, k).into_iter());
        } else {
            for &j in &obj_out {
                need.insert(j);
                need.extend(reach(&out, j).into_iter());
            }
        }
        let mut def = tdef(kind, &name);
        let mut ext = tdef(kind, &name);
        let ext_fields_too = rng.coin();
        let mut ext_targets: BTreeSet<usize> = BTreeSet::new();
        for &j in &declared {
            let in_ext = if force_ext.contains(&(k, j)) {
                true
            } else if force_def.contains(&(k, j)) {
                false
            } else {
                rng.chance(1, 5)
            };
            if in_ext {
                ext.implements.push(nm(&iname(j)));
                ext_targets.insert(j);
            } else {
                def.implements.push(nm(&iname(j)));
            }
        }
        for &j in &need {
            if j != k && ext_fields_too && ext_targets.contains(&j) {
                ext.fields.push(field_of(j));
            } else {
                def.fields.push(field_of(j));
            }
        }
        if k == n && def.fields.is_empty() {
            def.fields.push(fd("own", int()));
        }
        items.push(TsItem::TypeDef(def));
        if !ext.implements.is_empty() {
            any_ext = true;
            if ext.implements.len() >= 2 && rng.chance(1, 3) {
                // two extension items
                let mut e2 = tdef(kind, &name);
                e2.implements = ext.implements.split_off(1);
                items.push(TsItem::TypeExt(e2));
            }
            items.push(TsItem::TypeExt(ext));
        }
    }
    if any_ext {
        features.push("implements:edge-in-extension".into());
    }
    if with_obj {
        features.push("implements:object-implementer".into());
    }
    Some(Gadget { items, rule, class, features, apply: vec![] })
}

// ---------------------------------------------------------------------------------------------------
// directive reference graph

#[derive(Clone, Copy, PartialEq, Eq, Debug)]
enum EdgeKind {
    /// `directive @a(x: Int @b)`
    ArgDir,
    EnumType,
    EnumValue,
    Scalar,
    InputType,
    InputField,
    /// through an input object nested `depth` levels below the argument's type (since fix 2e4a65e
    /// `directives_in_type` follows the types of input fields transitively, one `seen_types` set per argument;
    /// before it the real check did not look there — former open finding
    /// `directive-recursion@through-nested-input-field`, now an ordinary soundness case)
    Nested(usize),
}

#[derive(Clone, Debug)]
struct DEdge {
    from: usize,
    to: usize,
    kind: EdgeKind,
    in_ext: bool,
}

/// nullable wrappers only: the directives of the gadget are applied without arguments
fn wrap_in(rng: &mut Rng, t: Ty) -> Ty {
    match rng.below(4) {
        0 | 1 => t,
        2 => Ty::list(t),
        _ => Ty::list(Ty::non_null(t)),
    }
}

fn strong_kind(rng: &mut Rng) -> EdgeKind {
    match rng.below(8) {
        0 | 1 | 2 => EdgeKind::ArgDir,
        3 => EdgeKind::EnumType,
        4 => EdgeKind::EnumValue,
        5 => EdgeKind::Scalar,
        6 => EdgeKind::InputType,
        _ => EdgeKind::InputField,
    }
}

fn directive_gadget(rng: &mut Rng, faulty: bool) -> Gadget {
    let mut features = vec![];
    let mut edges: Vec<DEdge> = vec![];
    let n;
    let mut rule = None;
    let mut class = String::from("valid");
    let dname = |k: usize| format!("zgd{k}");
    if !faulty {
        // chain, stack of diamonds or random DAG (edges from k to larger indices)
        let shape = rng.below(3);
        n = 2 + rng.below(8);
        for k in 0..n {
            for j in k + 1..n {
                let yes = match shape {
                    0 => j == k + 1,
                    1 => j == k + 1 || (j == k + 2 && k % 2 == 0),
                    _ => rng.chance(1, 3),
                };
                if yes {
                    let kind = if rng.chance(1, 6) { EdgeKind::Nested(1 + rng.below(3)) } else { strong_kind(rng) };
                    edges.push(DEdge { from: k, to: j, kind, in_ext: rng.chance(1, 4) });
                    if shape == 1 && rng.chance(1, 3) {
                        // the same target twice (diamond of length 1)
                        edges.push(DEdge { from: k, to: j, kind: strong_kind(rng), in_ext: rng.chance(1, 4) });
                    }
                }
            }
        }
        features.push(format!("directive-graph:{}", ["chain", "diamonds", "random-dag"][shape]));
    } else {
        rule = Some("directive-recursion");
        // ring 0..l, tails l..l+t (lead into the ring), leaves (referenced, reference nothing)
        let l = 1 + rng.below(6);
        let t = rng.below(3);
        let leaves = rng.below(3);
        n = l + t + leaves;
        let weak = rng.chance(1, 5);
        let weak_at = rng.below(l);
        let mut ring_kinds = vec![];
        let mut ring_ext = false;
        for i in 0..l {
            let kind = if weak && i == weak_at { EdgeKind::Nested(1 + rng.below(3)) } else { strong_kind(rng) };
            let in_ext = kind != EdgeKind::ArgDir && rng.chance(1, 4);
            ring_ext |= in_ext;
            ring_kinds.push(kind);
            edges.push(DEdge { from: i, to: (i + 1) % l, kind, in_ext });
            if !weak && rng.chance(1, 5) {
                // a parallel edge: the next directive is referenced twice
                edges.push(DEdge { from: i, to: (i + 1) % l, kind: strong_kind(rng), in_ext: false });
            }
        }
        for k in l..l + t {
            let to = if k + 1 < l + t && rng.coin() { k + 1 } else { rng.below(l) };
            edges.push(DEdge { from: k, to, kind: strong_kind(rng), in_ext: rng.chance(1, 4) });
        }
        for k in l + t..n {
            let from = rng.below(l + t);
            let kind = if rng.chance(1, 4) { EdgeKind::Nested(1 + rng.below(2)) } else { strong_kind(rng) };
            edges.push(DEdge { from, to: k, kind, in_ext: rng.chance(1, 4) });
        }
        features.push(format!("directive-graph:cycle-length-{}", len_bucket(l)));
        if t > 0 {
            features.push("directive-graph:lasso".into());
        }
        class = if weak {
            // the ring can only be closed through a nested input object
            format!("cycle:only-through-nested-input-object{}", if ring_ext { "-in-extension" } else { "" })
        } else {
            let all_arg = ring_kinds.iter().all(|k| *k == EdgeKind::ArgDir);
            let none_arg = ring_kinds.iter().all(|k| *k != EdgeKind::ArgDir);
            format!("cycle:{}{}", if all_arg { "argument-directives" } else if none_arg { "through-types" } else { "mixed" }, if ring_ext { "-in-extension" } else { "" })
        };
    }
    let all: Vec<&str> = TS_LOCATIONS.to_vec();
    let mut items: Vec<TsItem> = vec![];
    let mut args: Vec<Vec<InputValueDef>> = vec![vec![]; n];
    for (ei, e) in edges.iter().enumerate() {
        let app = Dir::new(&dname(e.to), vec![]);
        let aname = format!("a{ei}");
        let tname = format!("ZgT{ei}");
        features.push(format!("directive-edge:{}{}", match e.kind { EdgeKind::Nested(_) => "Nested".to_string(), k => format!("{k:?}") }, if e.in_ext && e.kind != EdgeKind::ArgDir { "-in-extension" } else { "" }));
        match e.kind {
            EdgeKind::ArgDir => {
                let mut a = iv(&aname, wrap_in(rng, int()));
                a.dirs.push(app);
                args[e.from].push(a);
            }
            EdgeKind::EnumType | EdgeKind::EnumValue => {
                let mut d = tdef(TypeKind::Enum, &tname);
                d.values = vec![ev("A")];
                let mut x = tdef(TypeKind::Enum, &tname);
                if e.kind == EdgeKind::EnumType {
                    if e.in_ext { x.dirs.push(app) } else { d.dirs.push(app) }
                } else {
                    let mut v = ev("B");
                    v.dirs.push(app);
                    if e.in_ext { x.values.push(v) } else { d.values.push(v) }
                }
                items.push(TsItem::TypeDef(d));
                if e.in_ext {
                    items.push(TsItem::TypeExt(x));
                }
                args[e.from].push(iv(&aname, wrap_in(rng, Ty::named(&tname))));
            }
            EdgeKind::Scalar => {
                let mut d = tdef(TypeKind::Scalar, &tname);
                let mut x = tdef(TypeKind::Scalar, &tname);
                if e.in_ext { x.dirs.push(app) } else { d.dirs.push(app) }
                items.push(TsItem::TypeDef(d));
                if e.in_ext {
                    items.push(TsItem::TypeExt(x));
                }
                args[e.from].push(iv(&aname, wrap_in(rng, Ty::named(&tname))));
            }
            EdgeKind::InputType | EdgeKind::InputField | EdgeKind::Nested(_) => {
                let depth = if let EdgeKind::Nested(d) = e.kind { d } else { 0 };
                // ZgT{ei} { n: ZgT{ei}n1 } … the last one carries the application
                for lvl in 0..=depth {
                    let this = if lvl == 0 { tname.clone() } else { format!("{tname}n{lvl}") };
                    let mut d = tdef(TypeKind::Input, &this);
                    let mut x = tdef(TypeKind::Input, &this);
                    d.inputs.push(iv("v", int()));
                    if lvl < depth {
                        d.inputs.push(iv("n", wrap_in(rng, Ty::named(&format!("{tname}n{}", lvl + 1)))));
                        if rng.chance(1, 3) {
                            // the next level is referenced by two fields (one `seen_types` set per walk: visited once)
                            d.inputs.push(iv("m", wrap_in(rng, Ty::named(&format!("{tname}n{}", lvl + 1)))));
                            features.push("directive-graph:nested-parallel-field".into());
                        }
                        if lvl == 0 && rng.chance(1, 4) {
                            // a second way down to the deepest object, through a side object (diamond of input objects);
                            // placed before or after the direct way
                            let side = format!("{tname}s");
                            let mut sd = tdef(TypeKind::Input, &side);
                            sd.inputs.push(iv("n", wrap_in(rng, Ty::named(&format!("{tname}n{depth}")))));
                            if rng.coin() {
                                sd.inputs.push(iv("up", Ty::named(&tname)));
                            }
                            items.push(TsItem::TypeDef(sd));
                            let f = iv("s", wrap_in(rng, Ty::named(&side)));
                            if rng.coin() { d.inputs.insert(0, f) } else { d.inputs.push(f) }
                            features.push("directive-graph:nested-diamond".into());
                        }
                    } else {
                        if e.kind == EdgeKind::InputType {
                            if e.in_ext { x.dirs.push(app.clone()) } else { d.dirs.push(app.clone()) }
                        } else {
                            let mut w = iv("w", int());
                            w.dirs.push(app.clone());
                            if e.in_ext { x.inputs.push(w) } else { d.inputs.push(w) }
                        }
                        if depth > 0 && rng.coin() {
                            // a (legal, nullable) cycle among the input objects themselves
                            d.inputs.push(iv("back", Ty::named(&tname)));
                            features.push("directive-graph:input-object-cycle".into());
                        }
                    }
                    items.push(TsItem::TypeDef(d));
                    if lvl == depth && e.in_ext {
                        items.push(TsItem::TypeExt(x));
                    }
                }
                args[e.from].push(iv(&aname, wrap_in(rng, Ty::named(&tname))));
                if rng.chance(1, 5) {
                    // a second argument of the same type: `seen_types` is fresh for each argument, so the directives
                    // inside the type are collected once per argument
                    args[e.from].push(iv(&format!("{aname}b"), wrap_in(rng, Ty::named(&tname))));
                    features.push("directive-graph:two-arguments-of-one-input-type".into());
                }
            }
        }
    }
    for k in 0..n {
        let mut a = std::mem::take(&mut args[k]);
        if a.is_empty() || rng.chance(1, 4) {
            a.push(iv("p", int()));
        }
        rng.shuffle(&mut a);
        items.push(dirdef(&dname(k), a, false, &all));
    }
    let apply = if rng.coin() { vec![Dir::new(&dname(rng.below(n)), vec![])] } else { vec![] };
    Gadget { items, rule, class, features, apply }
}

// ---------------------------------------------------------------------------------------------------
// nesting of input objects (types that refer to each other in a cycle; literals nested several levels)

fn nesting_gadget(rng: &mut Rng, faulty: bool) -> Gadget {
    let k = 1 + rng.below(4);
    let tname = |i: usize| format!("ZgN{}", i % k);
    let with_default = rng.coin();
    let mut items = vec![];
    for i in 0..k {
        let mut t = tdef(TypeKind::Input, &tname(i));
        t.inputs = vec![
            iv("s", Ty::non_null(Ty::named("String"))),
            iv("v", int()),
            iv("next", Ty::named(&tname(i + 1))),
            iv("items", Ty::list(Ty::non_null(Ty::named(&tname(i + 2))))),
        ];
        if with_default {
            let mut d = iv("d", Ty::non_null(int()));
            d.default = Some(vi("1"));
            t.inputs.push(d);
        }
        if rng.chance(1, 3) {
            // part of the fields comes from an extension
            let mut x = tdef(TypeKind::Input, &tname(i));
            x.inputs = t.inputs.split_off(2);
            items.push(TsItem::TypeDef(t));
            items.push(TsItem::TypeExt(x));
        } else {
            items.push(TsItem::TypeDef(t));
        }
    }
    let all: Vec<&str> = TS_LOCATIONS.to_vec();
    items.push(dirdef("zgn", vec![iv("i", Ty::named(&tname(0))), iv("l", Ty::list(Ty::non_null(Ty::named(&tname(0)))))], true, &all));
    let depth = 1 + rng.below(6);
    let fault = if faulty { Some(rng.below(7)) } else { None };
    let fault_name = ["string-for-int", "unknown-field", "required-field-missing", "null-for-non-null", "int-for-input-object-in-list", "field-repeated", "int-beyond-32-bit"];
    // the literal for type index `i`, `depth` more levels below; the fault sits in the deepest object
    fn lit(rng: &mut Rng, i: usize, depth: usize, fault: Option<usize>) -> Val {
        let mut fs: Vec<Arg> = vec![Arg::new("s", vs("x"))];
        if rng.coin() {
            // 32-bit boundary values are valid Int inputs (fix e3584a3 tests `parse::<i32>`)
            fs.push(Arg::new("v", if rng.chance(1, 4) { Val::Null(p0()) } else { vi(["7", "2147483647", "-2147483648", "-0"][rng.below(4)]) }));
        }
        if depth > 0 {
            if rng.coin() {
                fs.push(Arg::new("next", lit(rng, i + 1, depth - 1, fault)));
                if fault.is_none() && rng.chance(1, 3) {
                    fs.push(Arg::new("items", Val::List(vec![lit(rng, i + 2, 0, None)], p0())));
                }
            } else {
                let mut xs = vec![];
                if rng.coin() {
                    xs.push(lit(rng, i + 2, 0, None));
                }
                xs.push(lit(rng, i + 2, depth - 1, fault));
                fs.push(Arg::new("items", Val::List(xs, p0())));
            }
        } else if let Some(f) = fault {
            match f {
                0 => {
                    fs.retain(|a| a.name != "v");
                    fs.push(Arg::new("v", vs("seven")));
                }
                1 => fs.push(Arg::new("zz", vi("1"))),
                2 => fs.retain(|a| a.name != "s"),
                3 => {
                    fs.retain(|a| a.name != "s");
                    fs.push(Arg::new("s", Val::Null(p0())));
                }
                4 => fs.push(Arg::new("items", Val::List(vec![Val::Obj(vec![Arg::new("s", vs("y"))], p0()), vi("3")], p0()))),
                5 => {
                    fs.retain(|a| a.name != "v");
                    fs.push(Arg::new("v", vi("1")));
                    fs.push(Arg::new("v", vi("2")));
                }
                _ => {
                    // an integer literal outside the signed 32-bit range in an Int field (spec 3.5.1; fix e3584a3)
                    fs.retain(|a| a.name != "v");
                    fs.push(Arg::new("v", vi(["2147483648", "-2147483649", "4294967296", "12345678901234567890"][rng.below(4)])));
                }
            }
        } else if rng.chance(1, 3) {
            fs.push(Arg::new("next", Val::Null(p0())));
        }
        rng.shuffle(&mut fs);
        Val::Obj(fs, p0())
    }
    let v = lit(rng, 0, depth, fault);
    let app = if rng.coin() { Dir::new("zgn", vec![Arg::new("i", v)]) } else { Dir::new("zgn", vec![Arg::new("l", Val::List(vec![lit(rng, 0, 1, None), v], p0()))]) };
    let mut features = vec![format!("input-nesting:type-cycle-{k}"), format!("input-nesting:literal-depth-{}", len_bucket(depth))];
    if with_default {
        features.push("input-nesting:non-null-field-with-default".into());
    }
    Gadget {
        items,
        rule: if faulty { Some("directive-args") } else { None },
        class: match fault {
            Some(f) => format!("nested-input-object:{}", fault_name[f]),
            None => "valid".into(),
        },
        features,
        apply: vec![app],
    }
}
